(** C07 model: whose name a log entry is searched under.

    internal/querylog/search.go [queryLog.client] builds the identifier
    list of an entry (its ClientID when it has one, then the text of its
    address) and asks the FindClient callback; in the program that callback is
    internal/home/clients.go [clientsContainer.findMultiple], which asks,
    identifier by identifier, [clientOrArtificial]:
    [client.Storage.FindLoose] (index.findByClientIDOrIP, the MAC of the DHCP
    lease of the address, index.findByIPWithoutZone), then the runtime client
    of the address, else an artificial nameless record; the first identifier
    that has a non-artificial record decides.

    The persistent-client registry is the one of C04 (Model/ClientIndex.v:
    [index], [find], [find_by_ip], [find_by_mac], [deref]); nothing of it is
    restated here.  What netip.ParseAddr makes of an identifier text is a table
    of the case (the texts are kept as texts everywhere in the C07 model).

    No proofs in this file. *)
From Coq Require Import ZArith NArith List Bool.
From AGH Require Import Base.Run Model.QLogFile Model.QLog.
From AGH Require Model.ClientIndex.
Import ListNotations.

Definition addr := ClientIndex.addr.
Definition uid := ClientIndex.uid.

(** What the finders of package home look at. *)
Record registry := {
  rg_ix : ClientIndex.index;              (* client.Storage.index *)
  rg_dhcp : list (addr * bytes);          (* DHCP.MACByIP: address -> hardware address *)
  rg_rt : list (addr * bytes)             (* runtime index: address -> host name (Runtime.Info) *)
}.

Definition dhcp_of (rg : registry) (a : addr) : option bytes := ClientIndex.zget a (rg_dhcp rg).
Definition runtime_of (rg : registry) (a : addr) : option bytes := ClientIndex.zget a (rg_rt rg).

(** netip.ParseAddr on the identifier texts of the case. *)
Definition parse_tbl := list (bytes * addr).

Fixpoint parse_of (t : parse_tbl) (id : bytes) : option addr :=
  match t with
  | [] => None
  | (k, a) :: r => if eqb_bytes k id then Some a else parse_of r id
  end.

(** The zero netip.Addr ([ip, _ := netip.ParseAddr(id)] on a text that is not
    an address). *)
Definition zero_addr : addr := ([], []).
Definition is_zero (a : addr) : bool := Nat.eqb (length (fst a)) 0.

(** index.findByIPWithoutZone: a stored exact address equal to [a] once its
    zone is dropped (Go ranges over a map: with several zones of one address
    stored the answer is any of them; here the first in list order, the
    harness stores at most one).  The Go map is the association list read
    through [zget]: only the binding [zget] returns for a key is in the map
    ([live]; the lists [zset] / [zdel] build never hold another one). *)
Definition live (m : list (addr * uid)) (e : addr * uid) : bool :=
  match ClientIndex.zget (fst e) m with Some u => N.eqb u (snd e) | None => false end.

Definition find_by_ip_without_zone (ix : ClientIndex.index) (a : addr) : option uid :=
  if is_zero a then None else
  match List.find (fun e : addr * uid => ClientIndex.addr_eqb (fst (fst e), []) a && live (ClientIndex.ip_to ix) e)
                  (ClientIndex.ip_to ix) with
  | Some (_, u) => Some u
  | None => None
  end.

(** client.Storage.FindLoose(ip, id): index.findByClientIDOrIP(id) is
    [ClientIndex.find] without the MAC reading (ClientID, else exact address,
    else containing prefix); then the lease's hardware address, whose answer
    is FINAL (also "nobody"); then the address without its zone. *)
Definition find_loose (rg : registry) (a : addr) (id : bytes) (pa : option addr) : option uid :=
  match ClientIndex.find (rg_ix rg) id pa None with
  | Some u => Some u
  | None =>
      match dhcp_of rg a with
      | Some m => ClientIndex.find_by_mac (rg_ix rg) m
      | None => find_by_ip_without_zone (rg_ix rg) a
      end
  end.

(** clientOrArtificial as far as the query log looks at the record (name,
    ignore flag); [None] = the artificial record.  A uid without a record
    (excluded by the registry invariant, ClientIndex.Inv) counts as nobody. *)
Definition client_or_artificial (rg : registry) (id : bytes) (pa : option addr) : option client :=
  let a := match pa with Some a => a | None => zero_addr end in
  match find_loose rg a id pa with
  | Some u =>
      match ClientIndex.deref (rg_ix rg) u with
      | Some c => Some {| c_name := ClientIndex.c_name c; c_ignore := ClientIndex.c_ignore_qlog c |}
      | None => None
      end
  | None =>
      match runtime_of rg a with
      | Some host => Some {| c_name := host; c_ignore := false |}
      | None => None
      end
  end.

(** findMultiple: the first identifier with a non-artificial record.  (When
    there is none Go returns the last artificial record: empty name, no flag;
    for matching and hiding that is the same as no client.) *)
Fixpoint find_multiple (rg : registry) (pt : parse_tbl) (ids : list bytes) : option client :=
  match ids with
  | [] => None
  | i :: r =>
      match client_or_artificial rg i (parse_of pt i) with
      | Some c => Some c
      | None => find_multiple rg pt r
      end
  end.

(** queryLog.client: the ClientID when there is one, then the address text. *)
Definition entry_ids (e : entry) : list bytes :=
  (if is_empty (e_cid e) then [] else [e_cid e]) ++ (if is_empty (e_ip e) then [] else [e_ip e]).

Definition qlog_client (rg : registry) (pt : parse_tbl) (e : entry) : option client :=
  find_multiple rg pt (entry_ids e).

Definition owner_name (rg : registry) (pt : parse_tbl) (e : entry) : bytes :=
  match qlog_client rg pt e with Some c => c_name c | None => [] end.

(** The FindClient table of Model/QLog.v ([clients] of the configuration),
    computed from the registry for the identifier texts of a case. *)
Definition clients_table (rg : registry) (pt : parse_tbl) (texts : list bytes) : list (bytes * client) :=
  flat_map (fun t => match client_or_artificial rg t (parse_of pt t) with
                     | Some c => [(t, c)]
                     | None => []
                     end) texts.

(** ** The registry as the harness builds it *)
Inductive gop :=
  | GClient (o : ClientIndex.op)                   (* Storage.Add / Update / RemoveByName *)
  | GLease (a : addr) (mac : option bytes)         (* the DHCP table changes *)
  | GRuntime (a : addr) (host : option bytes).     (* Storage.UpdateAddress / forgotten *)

Definition empty_registry : registry :=
  {| rg_ix := ClientIndex.empty_index; rg_dhcp := []; rg_rt := [] |}.

Definition tbl_set (a : addr) (v : option bytes) (t : list (addr * bytes)) : list (addr * bytes) :=
  match v with
  | Some x => ClientIndex.zset a x t
  | None => ClientIndex.zdel a t
  end.

Definition gstep (cfg : ClientIndex.config) (rg : registry) (o : gop) : registry :=
  match o with
  | GClient o => {| rg_ix := fst (ClientIndex.step cfg (rg_ix rg) o); rg_dhcp := rg_dhcp rg; rg_rt := rg_rt rg |}
  | GLease a m => {| rg_ix := rg_ix rg; rg_dhcp := tbl_set a m (rg_dhcp rg); rg_rt := rg_rt rg |}
  | GRuntime a h => {| rg_ix := rg_ix rg; rg_dhcp := rg_dhcp rg; rg_rt := tbl_set a h (rg_rt rg) |}
  end.

Definition grun (cfg : ClientIndex.config) (ops : list gop) (rg : registry) : registry :=
  fold_left (gstep cfg) ops rg.

Local Open Scope Z_scope.

(** ** Status table (response_status), spelled as the list of reasons each
    value of searchcriterion.go filteringStatusValues admits and whether the
    entry must carry IsFiltered; [status_match] of Model/QLog.v is the code,
    this is the reading of the constants' documentation. *)
Definition reason_names : list Z := [0; 1; 2; 3; 4; 5; 6; 7; 8; 9; 10; 11].

Record status_row := {
  sr_reasons : option (list Z);   (* None: every reason *)
  sr_needs_filtered : bool;       (* the entry must have IsFiltered *)
  sr_or_filtered : bool           (* ... or IsFiltered alone is enough *)
}.

Definition status_table : list status_row :=
  [ {| sr_reasons := None; sr_needs_filtered := false; sr_or_filtered := false |};               (* all *)
    {| sr_reasons := Some [1; 9; 10; 11]; sr_needs_filtered := false; sr_or_filtered := true |};  (* filtered *)
    {| sr_reasons := Some [3; 8]; sr_needs_filtered := true; sr_or_filtered := false |};          (* blocked *)
    {| sr_reasons := Some [8]; sr_needs_filtered := true; sr_or_filtered := false |};             (* blocked_services *)
    {| sr_reasons := Some [4]; sr_needs_filtered := true; sr_or_filtered := false |};             (* blocked_safebrowsing *)
    {| sr_reasons := Some [5]; sr_needs_filtered := true; sr_or_filtered := false |};             (* blocked_parental *)
    {| sr_reasons := Some [1]; sr_needs_filtered := false; sr_or_filtered := false |};            (* whitelisted *)
    {| sr_reasons := Some [9; 10; 11]; sr_needs_filtered := false; sr_or_filtered := false |};    (* rewritten *)
    {| sr_reasons := Some [7]; sr_needs_filtered := true; sr_or_filtered := false |};             (* safe_search *)
    {| sr_reasons := Some [0; 2; 4; 5; 6; 7; 9; 10; 11]; sr_needs_filtered := false; sr_or_filtered := false |} (* processed *)
  ].

Definition row_admits (row : status_row) (r : Z) (f : bool) : bool :=
  let in_r := match sr_reasons row with None => true | Some l => reason_in r l end in
  if sr_or_filtered row then f || in_r
  else if sr_needs_filtered row then f && in_r
  else in_r.

(** Model of a clean shutdown taken apart (C09, round 4): [Close] and [New] as
    two steps of their own, so that the hourly flush and updates of requests
    still in flight can land between them.  No proofs here.

    Model/Stats.v has [restart s id] = Close immediately followed by New.  The
    real shutdown is not atomic with respect to the other goroutines:
    [StatsCtx.Close] (stats.go) takes confMu, swaps the database pointer to
    nil, writes the current unit under its id in one write transaction, closes
    the file; the periodic flusher keeps running and [Update] may still be
    called on the closed context (the unit in memory is changed, nothing is
    written any more); [New] on the same file comes later, possibly in a later
    hour.  Since bf01866 Close holds confMu for its whole body, like the flush
    and Update, so the three are serialised (Proofs/StatsConc.v) and a
    concurrent execution is one of the sequences of steps below. *)
From Coq Require Import ZArith List Bool.
From AGH Require Import Model.Stats.
Import ListNotations.
Local Open Scope Z_scope.

(** Close: nothing if the pointer is nil already (second Close, or a reset in
    progress); otherwise pointer nil, current unit written under its id. *)
Definition close_step (s : state) : state :=
  if dbnil s then s
  else with_nil (with_cur s (cur_id s) (cur s) (close_db s)) true.

(** New on the file as it is, configuration as it was, clock at [id]: the unit
    in memory of the old context is gone. *)
Definition new_step (s : state) (id : Z) : state :=
  open_db (db s) (lim_ms s) (enabled s) id.

Inductive xop :=
  | XOp (o : op)
  | XClose
  | XNew (id : Z).

Definition xstep (s : state) (x : xop) : state :=
  match x with
  | XOp o => step s o
  | XClose => close_step s
  | XNew id => new_step s id
  end.

Definition xrun (s : state) (h : list xop) : state := fold_left xstep h s.

(** updates and flushes: what the DNS workers and the periodic flusher do *)
Definition uf (o : op) : bool :=
  match o with OUpdate _ | OFlush _ => true | _ => false end.

(** Round 6 (C02).  filterDNSResponse (internal/dnsforward/filter.go) as a
    function of the WHOLE upstream message: response code, answer section,
    authority section, additional section, TC flag, question name
    ([Model/Pipeline.resp]).  No proofs here.

    The code as it is now reads two things: the client's FilteringEnabled
    flag (the early return) and the records of the ANSWER section, in order;
    it does not look at the response code, at the authority or additional
    sections, at the TC flag or at the question of the message.  The early
    return is a POLICY parameter, so that the code as written and the variant
    "nothing to check in a negative or failed response" stand next to each
    other (as the handlers in Model/Protection.v).

    The stage StFilterAfter of [Model/Pipeline.run_stage] makes the same walk
    ([filter_answer]) behind the same gate; Proofs/PipelineAnswer.v shows that
    the outcome of the pipeline for a forwarded question is this function's
    verdict ([after_upstream_is_filter_response]). *)
From Coq Require Import List NArith Bool.
From AGH Require Import Base.Run Base.NetAddr Base.RuleEngine Model.Pipeline.
Import ListNotations.
Local Open Scope N_scope.

Definition rcNotImp : N := 4.

(** The same message with another response code / other sections / flag /
    question (what a scripted upstream varies). *)
Definition set_rcode (rc : N) (r : resp) : resp :=
  mkRespX rc (rs_answer r) (rs_soa r) (rs_ns r) (rs_extra r) (rs_tc r) (rs_qcase r).
Definition set_authority (soa : bool) (ns : list rr) (r : resp) : resp :=
  mkRespX (rs_rcode r) (rs_answer r) soa ns (rs_extra r) (rs_tc r) (rs_qcase r).
Definition set_additional (ex : list rr) (r : resp) : resp :=
  mkRespX (rs_rcode r) (rs_answer r) (rs_soa r) (rs_ns r) ex (rs_tc r) (rs_qcase r).
Definition set_tc (tc : bool) (r : resp) : resp :=
  mkRespX (rs_rcode r) (rs_answer r) (rs_soa r) (rs_ns r) (rs_extra r) tc (rs_qcase r).
Definition set_qcase (k : qcase) (r : resp) : resp :=
  mkRespX (rs_rcode r) (rs_answer r) (rs_soa r) (rs_ns r) (rs_extra r) (rs_tc r) k.

(** The early return of filterDNSResponse: true = the message is examined. *)
Definition guard := settings -> resp -> bool.

(** [if !setts.FilteringEnabled { return nil }] *)
Definition guard_as_written : guard := fun st _ => st_filtering st.

(** [if !setts.FilteringEnabled || pctx.Res.Rcode != dns.RcodeSuccess { return nil }] *)
Definition guard_noerror_only : guard := fun st r => st_filtering st && (rs_rcode r =? rcSuccess).

(** What filterDNSResponse leaves behind: pctx.Res as it stands (HTTPS records
    visited so far without their IPv6 hints when AAAA is disabled), or a
    filtered result with the original message kept for the log (the caller
    then puts the blocking-mode answer into pctx.Res). *)
Inductive fverdict :=
  | Delivered (r : resp)
  | Replaced (res : result) (orig : resp).

Definition is_replaced (v : fverdict) : bool := match v with Replaced _ _ => true | Delivered _ => false end.

Definition map_message (f : resp -> resp) (v : fverdict) : fverdict :=
  match v with
  | Delivered r => Delivered (f r)
  | Replaced res o => Replaced res (f o)
  end.

Section Answer.
  Variable allow_eng block_eng : ufreq -> dnsresult * bool.

  Definition filter_response_with (g : guard) (c : cfg) (st : settings) (r : resp) : fverdict :=
    if negb (g st r) then Delivered r
    else
      match filter_answer allow_eng block_eng c st (rs_answer r) with
      | (ans', Some res) => Replaced res (with_answer r ans')
      | (ans', None) => Delivered (with_answer r ans')
      end.

  (** The code as it is now. *)
  Definition filter_response : cfg -> settings -> resp -> fverdict := filter_response_with guard_as_written.
End Answer.

(** C03 (round 8): the configuration path home -> dnsforward for the TLS
    settings the access decision depends on: newDNSTLSConfig (the model of
    property C16, Model/TLSGlue.v, by Require) in front of the pre-request
    hook.  No proofs here. *)
From Coq Require Import List NArith Bool.
From AGH Require Import Base.Run Base.NetAddr Base.RuleEngine Model.Access.
From AGH Require Model.TLSSettings Model.TLSGlue.
Import ListNotations.
Local Open Scope N_scope.

(** The two fields of dnsforward.TLSConfig that HandleBefore reads. *)
Definition handed_tlsconf (d : Model.TLSGlue.dns_tls_conf) : tlsconf :=
  mkTlsConf (Model.TLSGlue.dt_server_name d) (Model.TLSGlue.dt_strict d).

(** A request through the hook of the DNS server that package home
    configured from the TLS section [s]; [None]: the glue returned an error
    (the key pair does not load). *)
Definition before_via_home (a : access) (s : Model.TLSSettings.tls_settings)
    (pair_ok addrs : bool) (x : dnsctx) : option before :=
  match Model.TLSGlue.new_dns_tls_config false s pair_ok addrs with
  | Some d => Some (handle_before_ctx a (handed_tlsconf d) x)
  | None => None
  end.

(** A TLS section with the fields this path reads; everything else zero. *)
Definition mk_setts (enabled : bool) (name : bytes) (strict : bool) (https dot doq : N)
    : Model.TLSSettings.tls_settings :=
  {| Model.TLSSettings.t_enabled := enabled; Model.TLSSettings.t_server_name := name;
     Model.TLSSettings.t_force_https := false;
     Model.TLSSettings.t_port_https := https; Model.TLSSettings.t_port_dot := dot;
     Model.TLSSettings.t_port_doq := doq; Model.TLSSettings.t_port_dnscrypt := 0;
     Model.TLSSettings.t_dnscrypt_file := 0; Model.TLSSettings.t_allow_unenc_doh := false;
     Model.TLSSettings.t_cert_chain := 1; Model.TLSSettings.t_private_key := 1;
     Model.TLSSettings.t_cert_path := 0; Model.TLSSettings.t_key_path := 0;
     Model.TLSSettings.t_ciphers := []; Model.TLSSettings.t_strict := strict |}.

(** The lowest precedence level of the persistent-client lookup against the
    REAL DHCP server (C04, round 9): home hands dhcpd's server to
    client.Storage as its [client.DHCP]; Storage.ApplyClientFiltering / Find
    ask [MACByIP] for the request's address when no ClientID, exact address or
    CIDR matched.  The DHCPv4 lease table, its static-lease API (accepted AND
    rejected calls) and FindMACbyIP are Model/Dhcp4.v's (C10's model, as the
    code is now); the registry is Model/ClientIndex.v's.  No proofs here.

    A hardware address is C10's number 256^len + (bytes big-endian);
    [mac_bytes] gives the byte string the registry keys its MAC map with.  An
    address is asked of the DHCPv4 server when it is IPv4 (netip.Addr.Is4: 4
    bytes, no zone); everything else goes to the DHCPv6 server, which holds no
    lease here. *)
From Coq Require Import ZArith List.
From AGH Require Import Base.Run Model.ClientIndex.
From AGH Require Model.Dhcp4.
Import ListNotations.
Local Open Scope N_scope.

Fixpoint be_bytes (k : nat) (v : N) : bytes :=
  match k with
  | O => []
  | S k' => be_bytes k' (v / 256) ++ [v mod 256]
  end.

Definition mac_bytes (m : N) : bytes :=
  be_bytes (N.to_nat (Dhcp4.mac_len m)) (m - Dhcp4.zero_mac (Dhcp4.mac_len m)).

Definition ip_of_addr (a : addr) : option N :=
  match a with
  | ([b0; b1; b2; b3], []) => Some (((b0 * 256 + b1) * 256 + b2) * 256 + b3)
  | _ => None
  end.

(** dhcpd.server.MACByIP at instant [now] *)
Definition lease_oracle (now : Z) (s : Dhcp4.state) : addr -> option bytes :=
  fun a =>
    match ip_of_addr a with
    | Some ip => let m := Dhcp4.mac_by_ip now s ip in if m =? 0 then None else Some (mac_bytes m)
    | None => None
    end.

(** The client a request is attributed to, the DHCP server in state [s]. *)
Definition lease_attr (ix : index) (now : Z) (s : Dhcp4.state) (id : bytes) (a : addr) : option uid :=
  acf_find ix (lease_oracle now s) id a.

(** Storage.Find of the address' text *)
Definition lease_find (ix : index) (now : Z) (s : Dhcp4.state) (a : addr) : option uid :=
  storage_find ix (lease_oracle now s) [] (Some a) None.

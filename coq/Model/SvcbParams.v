(** C05, round 9: the parameter handlers of HTTPS / SVCB answers synthesised
    from $dnsrewrite rule text (internal/dnsforward/svcbmsg.go, svcbKeyHandlers
    and the guard of genAnswerSVCB), as the code is now.  No proofs here.

    The value of a parameter arrives as text.  What matters of an address text
    is what net.ParseIP makes of it: nothing ([PNone]), an address that has a
    4-byte form ([PFour]: dotted IPv4 and IPv4-mapped IPv6, ip.To4() != nil),
    or an IPv6 address proper ([PSix]). *)
From Coq Require Import ZArith Bool List.
Import ListNotations.
Local Open Scope Z_scope.

Inductive ipclass := PNone | PFour | PSix.

(** what a handler returns: a dns.SVCBIPv4Hint or dns.SVCBIPv6Hint carrying
    the parsed address *)
Inductive hint := Hint4 (c : ipclass) | Hint6 (c : ipclass).

Definition ipclass_eqb (a b : ipclass) : bool :=
  match a, b with PNone, PNone | PFour, PFour | PSix, PSix => true | _, _ => false end.

Definition hint_eqb (a b : hint) : bool :=
  match a, b with
  | Hint4 x, Hint4 y | Hint6 x, Hint6 y => ipclass_eqb x y
  | _, _ => false
  end.

(** "ipv4hint": ip == nil || ip.To4() == nil => ignored *)
Definition ipv4hint (p : ipclass) : option hint :=
  match p with PFour => Some (Hint4 p) | _ => None end.

(** "ipv6hint": ip == nil || ip.To4() != nil => ignored *)
Definition ipv6hint (p : ipclass) : option hint :=
  match p with PSix => Some (Hint6 p) | _ => None end.

(** the handler of a hint key ([true] = ipv6hint) *)
Definition hint_handler (v6key : bool) (p : ipclass) : option hint :=
  if v6key then ipv6hint p else ipv4hint p.

(** miekg/dns: SVCBIPv4Hint packs only addresses with a 4-byte form,
    SVCBIPv6Hint only 16-byte addresses without one *)
Definition hint_packs (h : hint) : bool :=
  match h with Hint4 PFour | Hint6 PSix => true | _ => false end.

(** "port": strconv.ParseUint(valStr, 10, 16); [None] = no decimal integer *)
Definition port_handler (n : option Z) : option Z :=
  match n with
  | Some z => if (0 <=? z) && (z <=? 65535) then Some z else None
  | None => None
  end.

(** "alpn": the handler takes any text as the single alpn-id; genAnswerSVCB
    keeps a parameter only if a record with it can be packed, which for an
    alpn-id means 1..255 octets *)
Definition alpn_kept (len : Z) : bool := (1 <=? len) && (len <=? 255).

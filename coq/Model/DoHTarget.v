(** C16 (round 6): the percent-encoding layers between the request line of a
    DoH request and the ClientID.

    The client sends  GET <target> HTTP/1.1.  net/http (http.ReadRequest, also
    inside the running server) hands the target to url.ParseRequestURI; for a
    target in origin form (it begins with a slash) that is, in go1.24:

      - a control byte (< 0x20 or 0x7f) anywhere: "invalid control character
        in URL"; a space cannot be inside a target at all (the request line is
        cut at the spaces): the request is rejected before any handler runs;
      - no scheme (getScheme stops at the slash), no authority (viaRequest,
        also for a leading double slash);
      - the target is cut at the first question mark;
      - URL.setPath: the path is percent-decoded ONCE by url.unescape in mode
        encodePath: every percent sign must be followed by two hex digits
        (either case), otherwise the request is rejected; a plus sign stays.

    clientIDFromDNSContextHTTPS then reads URL.Path and applies NO further
    decoding: [doh_of_target] is [from_doh_path] of the once-decoded path.
    url.PathUnescape (mode encodePathSegment) is the same function on the
    strings concerned; the harness compares [unescape] with both.

    Targets in another form (asterisk, absolute URI, authority, relative) are
    [TOther]: outside this model (the harness keeps them in the round-1 stream,
    which reads URL.Path as the server saw it).  No proofs in this file. *)
From Coq Require Import List NArith Bool Arith.
From AGH Require Import Base.Run Base.Bytes Base.Dom Base.PathClean Model.GoLower Model.ClientID.
Import ListNotations.
Local Open Scope N_scope.

Definition percent : N := 37.
Definition qmark : N := 63.
Definition space : N := 32.

(** ishex / unhex *)
Definition hex_val (b : N) : option N :=
  if is_digit b then Some (b - 48)
  else if (97 <=? b) && (b <=? 102) then Some (b - 87)
  else if (65 <=? b) && (b <=? 70) then Some (b - 55)
  else None.

(** url.unescape in the path modes; [None]: EscapeError. *)
Fixpoint unescape (s : bytes) : option bytes :=
  match s with
  | [] => Some []
  | c :: r =>
      if c =? percent then
        match r with
        | a :: b :: r' =>
            match hex_val a, hex_val b with
            | Some x, Some y =>
                match unescape r' with
                | Some t => Some (16 * x + y :: t)
                | None => None
                end
            | _, _ => None
            end
        | _ => None
        end
      else
        match unescape r with
        | Some t => Some (c :: t)
        | None => None
        end
  end.

(** stringContainsCTLByte, and the space that ends the target. *)
Definition bad_target_byte (b : N) : bool := (b <? 32) || (b =? 127) || (b =? space).

Definition cut_query (t : bytes) : bytes :=
  match index_byte qmark t with
  | Some i => firstn i t
  | None => t
  end.

Inductive target_res :=
  | TRejected               (* net/http answers 400 itself *)
  | TOther                  (* not in origin form: outside this model *)
  | TPath (path : bytes).   (* URL.Path *)

Definition parse_target (t : bytes) : target_res :=
  if existsb bad_target_byte t then TRejected
  else match t with
       | [] => TRejected                    (* "GET  HTTP/1.1": empty url *)
       | c :: _ =>
           if negb (c =? slash) then TOther
           else match unescape (cut_query t) with
                | Some p => TPath p
                | None => TRejected
                end
       end.

(** What the DoH request with this target, TLS state and Host header is
    answered by Server.clientIDFromDNSContext ([None]: the request never
    reaches it, or the target is outside the model). *)
Definition doh_of_target (host : bytes) (strict : bool) (t : bytes) (tls : option bytes)
    (hh : bytes) : option (bytes * cid_res) :=
  match parse_target t with
  | TPath p =>
      Some (p, client_id_of DoH host strict None
                 (Some {| d_path := p; d_tls_sni := tls; d_host_hdr := hh |}))
  | _ => None
  end.

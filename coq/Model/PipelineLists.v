(** Rule lists that are switched on and off while the server runs
    (filtering/filter.go filterSetProperties + enableFiltersLocked,
    filtering/filtering.go initFiltering): the configuration holds block
    lists and allow lists, each with a URL (its identity in the set_url API)
    and an enabled flag; after every change the engines are rebuilt from the
    user rules and the lists that are enabled *now*:

      block engine = user rules ++ rules of the enabled block lists,
      allow engine =               rules of the enabled allow lists

    (in configuration order).  A query is then processed by Model/Pipeline.v
    with these two engines.  No proofs here. *)
From Coq Require Import List NArith Bool.
From AGH Require Import Base.Run Base.NetAddr Base.RuleEngine Model.Pipeline.
From AGH Require Model.Rewrites.
Import ListNotations.
Local Open Scope N_scope.

Record flist := mkFList {
  fl_url : N;                 (* the list's URL, abstracted to a number *)
  fl_on : bool;               (* FilterYAML.Enabled *)
  fl_rules : list rule        (* the rules its source serves *)
}.

(** enableFiltersLocked: the rules of the lists that are enabled. *)
Definition active (ls : list flist) : list rule :=
  flat_map (fun f => if fl_on f then fl_rules f else []) ls.

(** filterSetProperties with a changed Enabled flag (same URL, the source
    serves the same rules). *)
Definition set_on (u : N) (en : bool) (ls : list flist) : list flist :=
  map (fun f => if fl_url f =? u then mkFList (fl_url f) en (fl_rules f) else f) ls.

Record lstate := mkLState {
  ls_user : list rule;        (* user rules (list id 0) *)
  ls_block : list flist;
  ls_allow : list flist
}.

(** One call of POST /control/filtering/set_url that changes the flag. *)
Inductive lchange := LSet (whitelist : bool) (u : N) (en : bool).

Definition apply_change (st : lstate) (ch : lchange) : lstate :=
  match ch with
  | LSet true u en => mkLState (ls_user st) (ls_block st) (set_on u en (ls_allow st))
  | LSet false u en => mkLState (ls_user st) (set_on u en (ls_block st)) (ls_allow st)
  end.

Definition apply_changes (st : lstate) (chs : list lchange) : lstate := fold_left apply_change chs st.

Definition allow_rules (st : lstate) : list rule := active (ls_allow st).
Definition block_rules (st : lstate) : list rule := ls_user st ++ active (ls_block st).

Section Ask.
  Variable sb_oracle par_oracle : bytes -> bool.
  Variable ss_oracle : bytes -> N -> option ssverdict.
  Variable rw_sort : list Rewrites.entry -> list Rewrites.entry.

  (** A query in a state: the pipeline with the engines of that state. *)
  Definition ask (st : lstate) (c : cfg) (up : upstream) (q : request) : outcome :=
    process (match_request (allow_rules st)) (match_request (block_rules st))
            sb_oracle par_oracle ss_oracle rw_sort c up q.

  (** A query after a sequence of changes. *)
  Definition ask_after (st : lstate) (chs : list lchange) (c : cfg) (up : upstream) (q : request) : outcome :=
    ask (apply_changes st chs) c up q.
End Ask.

(** Executable model of internal/dhcpd/bitset.go as the code is now: a sparse
    bit set, a Go map from word index to a 64-bit word; bit n lives in word
    n / 64 at position n mod 64.  A nil *bitSet is an empty set that ignores
    writes.  No proofs here.

    Words are [N]; every word the code stores is below 2^64 (Proofs), so no
    truncation appears: [1 << bitIdx] with bitIdx < 64 fits a uint64, [|=]
    and [&^=] do not grow a word. *)
From Coq Require Import NArith Bool.
Local Open Scope N_scope.

Definition bits_per_word : N := 64.

(** map[uint64]uint64 *)
Definition words := N -> option N.

(** *bitSet: [None] is the nil pointer. *)
Definition bitset := option words.

(** newBitSet *)
Definition new_bitset : bitset := Some (fun _ => None).

(** isSet *)
Definition is_set (s : bitset) (n : N) : bool :=
  match s with
  | None => false
  | Some ws =>
      let word_idx := n / bits_per_word in
      let bit_idx := n mod bits_per_word in
      match ws word_idx with
      | Some word => negb (N.land word (N.shiftl 1 bit_idx) =? 0)
      | None => false
      end
  end.

(** set *)
Definition set (s : bitset) (n : N) (ok : bool) : bitset :=
  match s with
  | None => None
  | Some ws =>
      let word_idx := n / bits_per_word in
      let bit_idx := n mod bits_per_word in
      let word := match ws word_idx with Some w => w | None => 0 end in
      let word' := if ok then N.lor word (N.shiftl 1 bit_idx)
                   else N.ldiff word (N.shiftl 1 bit_idx) in
      Some (fun i => if i =? word_idx then Some word' else ws i)
  end.

(** Model of the HTTP API that edits the legacy rewrite table (C06):
    internal/filtering/rewritehttp.go handleRewriteList, handleRewriteAdd,
    handleRewriteDelete, handleRewriteUpdate, and LegacyRewrite.equal of
    rewrites.go.  No proofs here.

    The stored table is [DNSFilter.conf.Rewrites]: a list of entries that went
    through [normalize] (Model/Rewrites.v).  A request carries the two texts
    of [rewriteEntryJSON] (domain, answer); netip.ParseAddr is a function
    parameter [parse] (the evaluator builds it from the parse results the
    harness recorded for every answer text of the history).

    Semantics read from the code as it is:
    - add: a NEW entry object {Domain, Answer} is normalised and appended;
      duplicates are accepted; normalize cannot fail for a non-nil entry, so
      the only failure is a body that does not decode (400, no change);
    - delete: every stored entry whose (Domain, Answer) is bytewise equal to
      the target AS SENT (the target is not normalised: no lower-casing) is
      removed, the others keep their order; the reply is 200 also when
      nothing was removed;
    - update: the first stored entry bytewise equal to the target as sent is
      replaced, in its place, by a NEW normalised entry object; no such
      entry: 400 "target rule not found" and no change; the new entry is
      normalised before the lookup, which cannot fail either;
    - list: (Domain, Answer) of every stored entry, in order. *)
From Coq Require Import ZArith NArith List Bool.
From AGH Require Import Base.Run Model.Rewrites.
Import ListNotations.
Local Open Scope N_scope.

(** One request of an edit history.  [EBad]: a body that is not the JSON the
    handler decodes (any of the three endpoints). *)
Inductive eop :=
  | EAdd (d a : bytes)
  | EDel (d a : bytes)
  | EUpd (td ta nd na : bytes)
  | EBad.

Inductive status := StOK | StBad.       (* 200 / 400 *)

(** LegacyRewrite.equal between a stored entry and a target as sent. *)
Definition stored_equal (d a : bytes) (s : entry) : bool :=
  eqb_bytes (e_dom s) d && eqb_bytes (e_ans s) a.

(** handleRewriteList *)
Definition reported (tbl : list entry) : list (bytes * bytes) :=
  map (fun e => (e_dom e, e_ans e)) tbl.

(** slices.IndexFunc + slices.Replace(index, index+1, n) *)
Fixpoint update_first (d a : bytes) (n : entry) (tbl : list entry) : option (list entry) :=
  match tbl with
  | [] => None
  | s :: rest =>
      if stored_equal d a s then Some (n :: rest)
      else match update_first d a n rest with
           | Some rest' => Some (s :: rest')
           | None => None
           end
  end.

Section Edit.
  Variable parse : bytes -> option ip.

  (** A freshly decoded entry: zero IP and type, the parse result is what
      normalize will obtain from netip.ParseAddr on the answer text. *)
  Definition fresh (d a : bytes) : raw := {| w_dom := d; w_ans := a; w_parse := parse a |}.

  (** The table as New builds it from the configuration (prepareRewrites). *)
  Definition load (cfg : list (bytes * bytes)) : list entry :=
    map (fun p => normalize (fresh (fst p) (snd p))) cfg.

  Definition apply_op (tbl : list entry) (o : eop) : list entry * status :=
    match o with
    | EAdd d a => (tbl ++ [normalize (fresh d a)], StOK)
    | EDel d a => (filter (fun s => negb (stored_equal d a s)) tbl, StOK)
    | EUpd td ta nd na =>
        match update_first td ta (normalize (fresh nd na)) tbl with
        | Some tbl' => (tbl', StOK)
        | None => (tbl, StBad)
        end
    | EBad => (tbl, StBad)
    end.

  (** A whole history: the final table and the status of every request. *)
  Fixpoint run_edits (tbl : list entry) (ops : list eop) : list entry * list status :=
    match ops with
    | [] => (tbl, [])
    | o :: rest =>
        let '(tbl', st) := apply_op tbl o in
        let '(tbl'', sts) := run_edits tbl' rest in
        (tbl'', st :: sts)
    end.
End Edit.

(** index.subnetToUID as the registry uses it (C04, round 4): the
    aghalg.SortedMap of Model/SortedMap.v instantiated at netip.Prefix keys,
    UID values and persistent.go's subnetCompare, with the four places of
    internal/client/index.go that call it:

      index.add            for _, pref := range c.Subnets { Set(pref, c.UID) }
      index.remove         for _, pref := range c.Subnets { Del(pref) }
      index.clashesSubnet  per subnet s: Range until s == p; ok && existing != c.UID
      index.findByIP       Range until pref.Contains(ipWithoutZone)

    and the sequence of Set / Del calls a whole registry history makes.
    Model/ClientIndex.v keeps the fused sorted association list ([sm_set] /
    [sm_get] / [sm_del]); Proofs/SubnetMap.v shows that list to be exactly what
    Range of this structure shows, after every history.  No proofs here. *)
From Coq Require Import ZArith.
From AGH Require Import Base.Run Base.Bytes.
From AGH Require Import Model.ClientIndex Model.SortedMap.
Local Open Scope N_scope.

Definition pmap := smap prefix uid.
Definition pres := sres prefix uid.
Definition pmop := smop prefix uid.

Definition pm_new : pmap := smap_new.
Definition pm_set : prefix -> uid -> pmap -> pres := smap_set subnet_compare prefix_eqb.
Definition pm_del : prefix -> pmap -> pres := smap_del subnet_compare prefix_eqb.
Definition pm_get : prefix -> pmap -> option uid := smap_get prefix_eqb.
(** everything Range shows; the zero UID for a key the map does not hold *)
Definition pm_all : pmap -> list (prefix * uid) := smap_all prefix_eqb 0.
Definition pm_run : list pmop -> pmap -> pres := smap_run subnet_compare prefix_eqb.

(** index.add / index.remove, the subnet part *)
Fixpoint pm_add_keys (ks : list prefix) (u : uid) (m : pmap) : pres :=
  match ks with
  | [] => SOk m
  | k :: ks' => match pm_set k u m with SOk m' => pm_add_keys ks' u m' | r => r end
  end.
Fixpoint pm_del_keys (ks : list prefix) (m : pmap) : pres :=
  match ks with
  | [] => SOk m
  | k :: ks' => match pm_del k m with SOk m' => pm_del_keys ks' m' | r => r end
  end.

(** The first pair Range shows that the callback stops at. *)
Definition pm_first (p : prefix -> uid -> bool) (m : pmap) : option (prefix * uid) :=
  smap_range prefix_eqb 0
    (fun k v (a : option (prefix * uid)) => if p k v then (Some (k, v), false) else (a, true)) m None.

(** index.clashesSubnet *)
Fixpoint pm_clash (ks : list prefix) (u : uid) (m : pmap) : option uid :=
  match ks with
  | [] => None
  | s :: ks' =>
      match pm_first (fun p _ => prefix_eqb s p) m with
      | Some (_, u') => if u' =? u then pm_clash ks' u m else Some u'
      | None => pm_clash ks' u m
      end
  end.

(** the Range of index.findByIP ([ip]: the address without its zone) *)
Definition pm_find_ip (ip : bytes) (m : pmap) : option uid :=
  match pm_first (fun p _ => contains p ip) m with
  | Some (_, u) => Some u
  | None => None
  end.

(** * The calls a registry operation makes on subnetToUID *)
Definition set_calls (c : client) : list pmop := map (fun k => MSet k (c_uid c)) (c_subnets c).
Definition del_calls (c : client) : list pmop := map (fun k => MDel k) (c_subnets c).

(** Same case analysis as [add] / [update] / [remove_by_name]. *)
Definition sub_calls (cfg : config) (ix : index) (o : op) : list pmop :=
  match o with
  | OAdd c =>
      match validate cfg c with
      | EOk =>
          let c := normalize c in
          match deref ix (c_uid c) with
          | Some _ => []
          | None => match clashes c ix with EOk => set_calls c | _ => [] end
          end
      | _ => []
      end
  | OUpdate name c =>
      match validate cfg c with
      | EOk =>
          let c := normalize c in
          match bget name (name_to ix) with
          | None => []
          | Some u =>
              match deref ix u with
              | None => []
              | Some stored =>
                  let p := set_uid (c_uid stored) c in
                  match clashes p ix with
                  | EOk => del_calls stored ++ set_calls p
                  | _ => []
                  end
              end
          end
      | _ => []
      end
  | ORemove name =>
      match bget name (name_to ix) with
      | None => []
      | Some u => match deref ix u with None => [] | Some stored => del_calls stored end
      end
  end.

Fixpoint history_calls (cfg : config) (ops : list op) (ix : index) : list pmop :=
  match ops with
  | [] => []
  | o :: ops' => sub_calls cfg ix o ++ history_calls cfg ops' (fst (step cfg ix o))
  end.

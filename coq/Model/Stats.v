(** Model of internal/stats/{stats.go,unit.go,http.go} (C09).  No proofs here.

    Unit ids are hours since the Unix epoch ([uint32] in Go; [Z] here, with the
    three places where the code does unsigned arithmetic on ids wrapped by
    [u32]).  Counters are [uint64] in Go and unbounded here (2^64 updates are
    out of reach).  The bbolt file is an association list id -> stored unit:
    one bucket per hour, named by the big-endian id, holding the gob of the
    unit (gob/bbolt are trusted: what is put under an id is what is read back).

    Names of domains, clients and upstreams are small integers chosen by the
    harness (0 is the empty string).  The per-name maps are kept as key-sorted
    association lists.  What is written to the file and what the readers see
    is the *serialised* unit ([ser], unit.serialize): every per-name map cut
    to its 100 largest counts ([cut100]; Go sorts a map's pairs with an
    unstable sort, so which of several names tied at the 100th count survive
    is not determined there: the model breaks ties by key and the evaluator
    compares the part of a full list above its smallest count), and the time
    sum replaced by [TimeAvg * NTotal] with [TimeAvg = uint32 (timeSum /
    nTotal)] in whole microseconds (unit.deserialize).

    The reset handler's clear() is not atomic with respect to the hourly flush
    (it does not hold confMu): besides the atomic [OClear] (the legacy interval
    handler, which does hold it) there are its three steps [OClearClose]
    (db pointer swapped to nil, file closed), [OClearReopen] (file removed, new
    database opened and stored) and [OClearFinish id] (current unit replaced),
    between which updates and flushes may land.

    Upstream statistics (round 4): per upstream address the unit keeps the
    number of responses ([u_up], upstreamsResponses) and the SUM of their
    durations in whole microseconds ([u_upt], upstreamsTimeSum; uint64 in Go,
    exact here); both maps are cut to their 100 largest values independently
    when the unit is serialised, so an upstream may keep its count and lose its
    time sum or the other way round.  The API divides the merged sum by the
    merged count in float64 and multiplies by 1e-6: the model stops at the two
    integers ([d_up_avg]: one entry per upstream of the merged responses whose
    merged time sum is not zero), the harness compares those exactly and checks
    the one floating-point expression in Go.

    Not modelled: [Entry.Result < 0],
    which passes [validate] and then panics in [unit.add] (index out of range)
    before anything is changed: [update_panics] says when, the state is
    unchanged. *)
From Coq Require Import ZArith List Bool.
Import ListNotations.
Local Open Scope Z_scope.

Definition u32 (x : Z) : Z := x mod 4294967296.

(** * Units *)

Inductive cat := NF | F | SB | SS | P.   (* RNotFiltered .. RParental = 1 .. 5 *)

Definition amap := list (Z * Z).          (* key-sorted, name -> count *)

Record unit := {
  u_total : Z;
  u_nf : Z; u_f : Z; u_sb : Z; u_ss : Z; u_p : Z;     (* nResult[1..5] *)
  u_dom : amap; u_blk : amap; u_cli : amap; u_up : amap;
  u_tsum : Z;                                            (* timeSum, microseconds *)
  u_upt : amap                                           (* upstreamsTimeSum, microseconds *)
}.

Definition empty_unit : unit :=
  {| u_total := 0; u_nf := 0; u_f := 0; u_sb := 0; u_ss := 0; u_p := 0;
     u_dom := []; u_blk := []; u_cli := []; u_up := []; u_tsum := 0; u_upt := [] |}.

Definition u_cat (c : cat) (u : unit) : Z :=
  match c with NF => u_nf u | F => u_f u | SB => u_sb u | SS => u_ss u | P => u_p u end.

Fixpoint bump_by (k n : Z) (m : amap) : amap :=
  match m with
  | [] => [(k, n)]
  | (k', v) :: m' =>
      if k <? k' then (k, n) :: m
      else if k =? k' then (k', v + n) :: m'
      else (k', v) :: bump_by k n m'
  end.

Definition merge (a b : amap) : amap :=
  fold_left (fun acc kv => bump_by (fst kv) (snd kv) acc) b a.

(** * Entries *)

Record entry := {
  e_res : Z;                    (* Entry.Result as given *)
  e_dom : Z;                    (* 0 = "" *)
  e_cli : Z;                    (* 0 = "" *)
  e_ups : list (Z * bool * Z);  (* upstream address, counted = !IsCached && Error == nil,
                                   QueryDuration.Microseconds() *)
  e_time : Z                    (* ProcessingTime.Microseconds(), >= 0 *)
}.

(** Entry.validate *)
Definition validate (e : entry) : bool :=
  negb (e_res e =? 0) && negb (6 <=? e_res e) && negb (e_dom e =? 0) && negb (e_cli e =? 0).

Definition cat_of (r : Z) : option cat :=
  if r =? 1 then Some NF else if r =? 2 then Some F else if r =? 3 then Some SB
  else if r =? 4 then Some SS else if r =? 5 then Some P else None.

Definition incr_cat (c : cat) (u : unit) : unit :=
  match c with
  | NF => {| u_total := u_total u; u_nf := u_nf u + 1; u_f := u_f u; u_sb := u_sb u;
             u_ss := u_ss u; u_p := u_p u; u_dom := u_dom u; u_blk := u_blk u;
             u_cli := u_cli u; u_up := u_up u; u_tsum := u_tsum u; u_upt := u_upt u |}
  | F  => {| u_total := u_total u; u_nf := u_nf u; u_f := u_f u + 1; u_sb := u_sb u;
             u_ss := u_ss u; u_p := u_p u; u_dom := u_dom u; u_blk := u_blk u;
             u_cli := u_cli u; u_up := u_up u; u_tsum := u_tsum u; u_upt := u_upt u |}
  | SB => {| u_total := u_total u; u_nf := u_nf u; u_f := u_f u; u_sb := u_sb u + 1;
             u_ss := u_ss u; u_p := u_p u; u_dom := u_dom u; u_blk := u_blk u;
             u_cli := u_cli u; u_up := u_up u; u_tsum := u_tsum u; u_upt := u_upt u |}
  | SS => {| u_total := u_total u; u_nf := u_nf u; u_f := u_f u; u_sb := u_sb u;
             u_ss := u_ss u + 1; u_p := u_p u; u_dom := u_dom u; u_blk := u_blk u;
             u_cli := u_cli u; u_up := u_up u; u_tsum := u_tsum u; u_upt := u_upt u |}
  | P  => {| u_total := u_total u; u_nf := u_nf u; u_f := u_f u; u_sb := u_sb u;
             u_ss := u_ss u; u_p := u_p u + 1; u_dom := u_dom u; u_blk := u_blk u;
             u_cli := u_cli u; u_up := u_up u; u_tsum := u_tsum u; u_upt := u_upt u |}
  end.

(** unit.add for a result code in 1..5 *)
Definition add_cat (c : cat) (e : entry) (u : unit) : unit :=
  let u1 := incr_cat c u in
  let ups := fold_left (fun (m : amap) (a : Z * bool * Z) =>
                          if snd (fst a) then bump_by (fst (fst a)) 1 m else m) (e_ups e) (u_up u1) in
  let upt := fold_left (fun (m : amap) (a : Z * bool * Z) =>
                          if snd (fst a) then bump_by (fst (fst a)) (snd a) m else m) (e_ups e) (u_upt u1) in
  {| u_total := u_total u1 + 1;
     u_nf := u_nf u1; u_f := u_f u1; u_sb := u_sb u1; u_ss := u_ss u1; u_p := u_p u1;
     u_dom := match c with NF => bump_by (e_dom e) 1 (u_dom u1) | _ => u_dom u1 end;
     u_blk := match c with NF => u_blk u1 | _ => bump_by (e_dom e) 1 (u_blk u1) end;
     u_cli := bump_by (e_cli e) 1 (u_cli u1);
     u_up := ups;
     u_tsum := u_tsum u1 + e_time e;
     u_upt := upt |}.

(** * Serialisation: unit.serialize / unit.deserialize *)

(** convertMapToSlice(m, 100): the pairs with the 100 largest counts.  A pair
    is kept when fewer than 100 pairs come before it in the order "larger
    count first, smaller key first among equal counts". *)
Definition before (a b : Z * Z) : bool :=
  (snd b <? snd a) || ((snd a =? snd b) && (fst a <? fst b)).

Definition rank (m : amap) (b : Z * Z) : Z := Z.of_nat (length (filter (fun a => before a b) m)).

Definition max_top := 100.

Definition cut100 (m : amap) : amap :=
  if Z.of_nat (length m) <=? max_top then m else filter (fun b => rank m b <? max_top) m.

(** TimeAvg of a unit: uint32(timeSum / nTotal), 0 for an empty unit. *)
Definition time_avg (u : unit) : Z :=
  if u_total u =? 0 then 0 else u32 (u_tsum u / u_total u).

(** serialize followed by deserialize: what a stored unit is, and what a
    reader is handed for the current unit. *)
Definition ser (u : unit) : unit :=
  {| u_total := u_total u;
     u_nf := u_nf u; u_f := u_f u; u_sb := u_sb u; u_ss := u_ss u; u_p := u_p u;
     u_dom := cut100 (u_dom u); u_blk := cut100 (u_blk u);
     u_cli := cut100 (u_cli u); u_up := cut100 (u_up u);
     u_tsum := time_avg u * u_total u;
     u_upt := cut100 (u_upt u) |}.

(** * The database: id -> stored unit *)

Definition db_t := list (Z * unit).

Fixpoint db_get (i : Z) (d : db_t) : option unit :=
  match d with
  | [] => None
  | (j, u) :: d' => if i =? j then Some u else db_get i d'
  end.

Definition db_del (i : Z) (d : db_t) : db_t := filter (fun p => negb (fst p =? i)) d.
Definition db_put (i : Z) (u : unit) (d : db_t) : db_t := (i, u) :: db_del i d.
(** deleteOldUnits: buckets are walked in key order and deleted until the
    first id >= first (all bucket names are 8-byte ids). *)
Definition db_del_below (first : Z) (d : db_t) : db_t := filter (fun p => first <=? fst p) d.

(** * State *)

Record state := {
  cur_id : Z;        (* s.curr.id *)
  cur : unit;        (* s.curr *)
  db : db_t;         (* stats.db *)
  lim_ms : Z;        (* s.limit in milliseconds *)
  enabled : bool;    (* s.enabled *)
  dbnil : bool       (* s.db holds nil: clear() has closed the file and not yet reopened it *)
}.

Definition ms_hour := 3600000.
Definition ms_day := 24 * ms_hour.

(** uint32(s.limit.Hours()) *)
Definition lim (s : state) : Z := lim_ms s / ms_hour.

(** validateIvl *)
Definition valid_ivl (ms : Z) : bool := (ms_hour <=? ms) && (ms <=? 365 * ms_day).

Definition with_cur (s : state) (i : Z) (u : unit) (d : db_t) : state :=
  {| cur_id := i; cur := u; db := d; lim_ms := lim_ms s; enabled := enabled s; dbnil := dbnil s |}.

Definition with_conf (s : state) (ms : Z) (en : bool) : state :=
  {| cur_id := cur_id s; cur := cur s; db := db s; lim_ms := ms; enabled := en; dbnil := dbnil s |}.

Definition with_nil (s : state) (b : bool) : state :=
  {| cur_id := cur_id s; cur := cur s; db := db s; lim_ms := lim_ms s; enabled := enabled s; dbnil := b |}.

(** New on a database [d] with the clock at [id]: delete the buckets below
    [id - limit - 1], load the bucket of the current hour if there is one. *)
Definition open_db (d : db_t) (ms : Z) (en : bool) (id : Z) : state :=
  let l := ms / ms_hour in
  let d' := db_del_below (u32 (id - l - 1)) d in
  {| cur_id := id;
     cur := match db_get id d' with Some u => u | None => empty_unit end;
     db := d'; lim_ms := ms; enabled := en; dbnil := false |}.

(** New on a fresh file. *)
Definition init (id ms : Z) (en : bool) : state := open_db [] ms en id.

(** Update accepted: enabled, limit non-zero, entry valid. *)
Definition accepts (s : state) (e : entry) : bool :=
  enabled s && negb (lim_ms s =? 0) && validate e.

Definition update (s : state) (e : entry) : state :=
  if accepts s e then
    match cat_of (e_res e) with
    | Some c => with_cur s (cur_id s) (add_cat c e (cur s)) (db s)
    | None => s                           (* negative result code: panic, nothing changed *)
    end
  else s.

Definition update_panics (s : state) (e : entry) : bool :=
  accepts s e && match cat_of (e_res e) with None => true | Some _ => false end.

(** flush / flushDB with unitIDGen() = id *)
Definition flush (s : state) (id : Z) : state :=
  let l := lim s in
  if (l =? 0) || (cur_id s =? id) then s
  else if dbnil s then s                  (* flushDB: db == nil, try again later *)
  else with_cur s id empty_unit
         (db_del (u32 (id - l)) (db_put (cur_id s) (ser (cur s)) (db s))).

(** flush's first result: does the periodic flusher go on?  It stops only
    when there is no current unit, which does not happen after New. *)
Definition flush_cont (s : state) (id : Z) : bool := true.

(** Close *)
Definition close_db (s : state) : db_t := db_put (cur_id s) (ser (cur s)) (db s).

(** Close, then New with the same configuration and the clock at [id]. *)
Definition restart (s : state) (id : Z) : state :=
  open_db (close_db s) (lim_ms s) (enabled s) id.

(** clear with unitIDGen() = id *)
Definition clear (s : state) (id : Z) : state := with_nil (with_cur s id empty_unit []) false.

(** The three steps of clear() as run by POST /control/stats_reset, which
    does not hold confMu: other operations may run between them. *)
Definition clear_close (s : state) : state := with_nil s true.
Definition clear_reopen (s : state) : state := with_nil (with_cur s (cur_id s) (cur s) []) false.
Definition clear_finish (s : state) (id : Z) : state := with_cur s id empty_unit (db s).

(** setLimit (POST /control/stats_config after checkInterval) *)
Definition checked_days (d : Z) : bool :=
  (d =? 0) || (d =? 1) || (d =? 7) || (d =? 30) || (d =? 90).

Definition set_limit_days (s : state) (d id : Z) : state :=
  if negb (checked_days d) then s
  else if d =? 0 then clear (with_conf s (lim_ms s) false) id
  else with_conf s (d * ms_day) true.

(** PUT /control/stats/config/update *)
Definition put_config (s : state) (ms : Z) (en : bool) : state :=
  if valid_ivl ms then with_conf s ms en else s.

Inductive op :=
  | OUpdate (e : entry)
  | OFlush (id : Z)
  | ORestart (id : Z)
  | OClear (id : Z)
  | OSetDays (d id : Z)
  | OPutConfig (ms : Z) (en : bool)
  | OClearClose
  | OClearReopen
  | OClearFinish (id : Z).

Definition step (s : state) (o : op) : state :=
  match o with
  | OUpdate e => update s e
  | OFlush id => flush s id
  | ORestart id => restart s id
  | OClear id => clear s id
  | OSetDays d id => set_limit_days s d id
  | OPutConfig ms en => put_config s ms en
  | OClearClose => clear_close s
  | OClearReopen => clear_reopen s
  | OClearFinish id => clear_finish s id
  end.

Definition run (s : state) (h : list op) : state := fold_left step h s.

(** * Reading: loadUnits, dataFromUnits, fillCollectedStats *)

(** The ids read from the file: firstID = curID - limit + 1, up to curID. *)
Fixpoint zseq (start : Z) (n : nat) : list Z :=
  match n with O => [] | S n' => start :: zseq (start + 1) n' end.

Definition window_ids (s : state) : list Z :=
  map u32 (zseq (cur_id s - lim s + 1) (Z.to_nat (lim s - 1))).

Definition stored (s : state) (i : Z) : unit :=
  match db_get i (db s) with Some u => u | None => empty_unit end.

Definition load_units (s : state) : list unit :=
  map (stored s) (window_ids s) ++ [ser (cur s)].

Definition zsum (l : list Z) : Z := fold_right Z.add 0 l.

Fixpoint chunk_sums (n : nat) (l : list Z) : list Z :=
  match n with
  | O => []
  | S n' => zsum (firstn 24 l) :: chunk_sums n' (skipn 24 l)
  end.

(** countHours *)
Definition count_hours (cur_hour : Z) (days : Z) : Z :=
  let h := cur_hour mod 24 in
  (days - 1) * 24 + (if h =? 0 then 24 else h).

Record data := {
  d_days : bool;                 (* time_units = "days" *)
  d_dns : list Z; d_blocked : list Z; d_sb : list Z; d_par : list Z;
  d_num : Z; d_num_f : Z; d_num_sb : Z; d_num_ss : Z; d_num_p : Z;
  d_top_dom : amap; d_top_blk : amap; d_top_cli : amap; d_top_up : amap;
  d_avg : Z;                     (* avg_processing_time in whole microseconds *)
  d_up_avg : list (Z * (Z * Z))  (* top_upstreams_avg_time before the division: upstream,
                                    (merged time sum in microseconds, merged responses) *)
}.

(** lookup in a key-sorted association list, 0 when absent (Go: m[k]) *)
Fixpoint mget (k : Z) (m : amap) : Z :=
  match m with
  | [] => 0
  | (k', v) :: m' => if k =? k' then v else mget k m'
  end.

(** topUpstreamsPairs: the responses and the time sums of all units merged;
    an average for every upstream that has responses and a non-zero time sum
    (keys in order; the API sorts by the quotient). *)
Definition up_avg (us : list unit) : list (Z * (Z * Z)) :=
  let resp := fold_left merge (map u_up us) [] in
  let tsum := fold_left merge (map u_upt us) [] in
  fold_right (fun kv acc =>
                let t := mget (fst kv) tsum in
                if t =? 0 then acc else (fst kv, (t, snd kv)) :: acc) [] resp.

(** dataFromUnits: sum.TimeAvg (uint32) over all units, divided by the number
    of units with a non-zero TimeAvg. *)
Definition avg_time (us : list unit) : Z :=
  let n := Z.of_nat (length (filter (fun u => negb (time_avg u =? 0)) us)) in
  if n =? 0 then 0 else u32 (zsum (map time_avg us)) / n.

Definition series (days : bool) (cur_hour ndays : Z) (l : list Z) : list Z :=
  if days then
    let hours := count_hours cur_hour ndays in
    chunk_sums (Z.to_nat ndays) (skipn (length l - Z.to_nat hours) l)
  else l.

(** getData(limit) for limit = lim s (handleStats); limit = 0 cannot occur
    (validateIvl), the code answers with empty lists and "days" then. *)
Definition get_data (s : state) : data :=
  let us := load_units s in
  let size := Z.of_nat (length us) in
  let ndays := size / 24 in
  let days := 7 <? ndays in
  let ser f := series days (cur_id s) ndays (map f us) in
  {| d_days := days;
     d_dns := ser u_total; d_blocked := ser u_f; d_sb := ser u_sb; d_par := ser u_p;
     d_num := zsum (map u_total us);
     d_num_f := zsum (map u_f us); d_num_sb := zsum (map u_sb us);
     d_num_ss := zsum (map u_ss us); d_num_p := zsum (map u_p us);
     d_top_dom := cut100 (fold_left merge (map u_dom us) []);
     d_top_blk := cut100 (fold_left merge (map u_blk us) []);
     d_top_cli := cut100 (fold_left merge (map u_cli us) []);
     d_top_up := cut100 (fold_left merge (map u_up us) []);
     d_avg := avg_time us;
     d_up_avg := up_avg us |}.

(** GET /control/stats: 500 "Couldn't get statistics data" while the database
    pointer is nil. *)
Definition api_stats (s : state) : option data := if dbnil s then None else Some (get_data s).

(** Sum of nResult[RNotFiltered] over the loaded units (not in the API answer;
    read by the harness through loadUnits). *)
Definition num_nf (s : state) : Z := zsum (map u_nf (load_units s)).

(** GET /control/stats_info (deprecated): the interval in days; a custom
    interval, or less than a day while enabled, is shown as 90; disabled as 0. *)
Definition stats_info (s : state) : Z :=
  if negb (enabled s) then 0
  else
    let d := u32 (lim_ms s / ms_day) in
    if negb (checked_days d) || (d =? 0) then 90 else d.

(** TopClientsIP(maxCount) for a [maxCount] above the number of clients: the
    clients of the loaded units (every name of the harness is an address);
    nothing while disabled. *)
Definition top_clients_ip (s : state) : list Z :=
  if enabled s && negb (lim s =? 0) then map fst (fold_left merge (map u_cli (load_units s)) []) else [].

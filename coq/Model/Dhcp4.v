(** Executable model of the DHCPv4 lease table of internal/dhcpd
    (v4_unix.go, db.go, iprange.go, bitset.go, config.go) as the code is now.
    No proofs here.

    Conventions.  Addresses are [N]; a hardware address of k bytes b1..bk is
    the number 256^k + (b1..bk read big-endian) (so the length is part of the
    value and equality of numbers is bytes.Equal); hostnames are [bytes]
    (ASCII); instants are [Z] nanoseconds on the logical clock
    (wall clock plus every shift of the deadlines); the clock is an input of
    every operation.  The lease list, the hostname index, the address index
    and the leased-offset set are kept explicit as in the code.  Index entries
    are pointers in Go; a lease object never changes its address, so an entry
    is modelled by the address of the lease it points to and dereferenced by
    looking that address up in the list.  The ICMP probe (addrAvailable) is
    an oracle: every step carries the list [busy] of addresses that answer an
    echo request at that moment (empty when ICMPTimeout = 0).  [disk] is the
    content of leases.json, written where the code notifies
    LeaseChangedDBStore. *)
From Coq Require Import List ZArith NArith Bool.
From AGH Require Import Base.Run.
Import ListNotations.
Local Open Scope N_scope.

Record conf := Conf {
  c_start : N; c_end : N;        (* pool, both ends included *)
  c_sub_lo : N; c_sub_hi : N;    (* the subnet as an interval *)
  c_gw : N;
  c_lease : Z;                   (* lease time, ns *)
  c_self : N                     (* server identifier *)
}.

Record lease := Lease {
  l_ip : N; l_mac : N; l_host : bytes; l_static : bool; l_exp : Z
}.

Record index := Index {
  hidx : bytes -> option N;   (* hostsIndex: name -> (address of) lease *)
  iidx : N -> bool;           (* ipIndex: addresses that have an entry *)
  offs : N -> bool            (* leasedOffsets *)
}.

Record state := State {
  leases : list lease;
  ix : index;
  disk : list lease
}.

Definition empty_index : index :=
  Index (fun _ => None) (fun _ => false) (fun _ => false).
Definition empty_state : state := State [] empty_index [].

(** The zero time.Time (year 1), in Unix nanoseconds. *)
Definition exp_zero : Z := (-62135596800000000000)%Z.

(** * Hardware addresses *)

Definition mac_len (m : N) : N := N.log2 m / 8.
Definition zero_mac (k : N) : N := 2 ^ (8 * k).

(** isBlocklisted: at least one byte and every byte zero. *)
Definition is_blocklisted (m : N) : bool := (0 <? mac_len m) && (m =? zero_mac (mac_len m)).

(** make(net.HardwareAddr, defaultHwAddrLen) *)
Definition blocklist_mac : N := zero_mac 6.

(** netutil.ValidateMAC, and what net.ParseMAC reads back from the file. *)
Definition valid_mac (m : N) : bool :=
  let k := mac_len m in (k =? 6) || (k =? 8) || (k =? 20).

(** * Hostnames (ASCII) *)

Definition is_nil {A} (l : list A) : bool := match l with [] => true | _ => false end.
Definition is_some {A} (o : option A) : bool := match o with Some _ => true | None => false end.

Definition is_digit (c : N) : bool := (48 <=? c) && (c <=? 57).
Definition is_alnum (c : N) : bool :=
  is_digit c || ((65 <=? c) && (c <=? 90)) || ((97 <=? c) && (c <=? 122)).
Definition to_lower (c : N) : N := if (65 <=? c) && (c <=? 90) then c + 32 else c.
Definition host_char (c : N) : bool := (c =? 46) || is_alnum c.

(** strings.FieldsFunc with separator = not ('.' or alphanumeric). *)
Fixpoint fields (cur : bytes) (s : bytes) : list bytes :=
  match s with
  | [] => if is_nil cur then [] else [rev cur]
  | c :: s' =>
      if host_char c then fields (c :: cur) s'
      else if is_nil cur then fields [] s' else rev cur :: fields [] s'
  end.

Definition join_dash (ps : list bytes) : bytes :=
  match ps with [] => [] | p :: ps => p ++ flat_map (fun q => 45 :: q) ps end.

Definition trim_dash (s : bytes) : bytes :=
  match rev s with c :: r => if c =? 45 then rev r else s | [] => s end.

(** normalizeHostname; [None] is the error. *)
Definition normalize (h : bytes) : option bytes :=
  if is_nil h then Some [] else
  let ps := fields [] (map to_lower h) in
  if is_nil ps then None else Some (trim_dash (join_dash ps)).

Fixpoint split_dot (cur : bytes) (s : bytes) : list bytes :=
  match s with
  | [] => [rev cur]
  | c :: s' => if c =? 46 then rev cur :: split_dot [] s' else split_dot (c :: cur) s'
  end.

Definition valid_label (l : bytes) : bool :=
  match l with
  | [] => false
  | c :: _ =>
      (length l <=? 63)%nat && is_alnum c && is_alnum (last l 0)
      && forallb (fun c => (c =? 45) || is_alnum c) l
  end.

(** netutil.ValidateHostname on ASCII names without "xn--" labels. *)
Definition valid_hostname (h : bytes) : bool :=
  negb (is_nil h) && (length h <=? 253)%nat &&
  let ls := split_dot [] h in
  forallb valid_label ls && negb (forallb is_digit (last ls [])).

Definition dec_octet (n : N) : bytes :=
  if n <? 10 then [48 + n]
  else if n <? 100 then [48 + n / 10; 48 + n mod 10]
  else [48 + n / 100; 48 + (n / 10) mod 10; 48 + n mod 10].

(** aghnet.GenerateHostname for an IPv4 address. *)
Definition gen_hostname (ip : N) : bytes :=
  dec_octet ((ip / 16777216) mod 256) ++ 45 :: dec_octet ((ip / 65536) mod 256)
  ++ 45 :: dec_octet ((ip / 256) mod 256) ++ 45 :: dec_octet (ip mod 256).

(** validHostnameForClient *)
Definition valid_hostname_for_client (h : bytes) (ip : N) : bytes :=
  let n := match normalize h with Some n => n | None => [] end in
  let n := if is_nil n then gen_hostname ip else n in
  if valid_hostname n then n else [].

(** * Configuration *)

Definition in_pool (c : conf) (ip : N) : bool := (c_start c <=? ip) && (ip <=? c_end c).
Definition in_subnet (c : conf) (ip : N) : bool := (c_sub_lo c <=? ip) && (ip <=? c_sub_hi c).

(** What V4ServerConf.Validate enforces. *)
Definition valid_conf (c : conf) : Prop :=
  c_start c < c_end c /\ in_pool c (c_gw c) = false /\
  in_subnet c (c_start c) = true /\ in_subnet c (c_end c) = true.

(** V4ServerConf.Validate as a test: newIPRange wants start < end, the
    gateway must lie outside the pool, both ends of the pool inside the
    subnet. *)
Definition valid_conf_b (c : conf) : bool :=
  (c_start c <? c_end c) && negb (in_pool c (c_gw c)) &&
  in_subnet c (c_start c) && in_subnet c (c_end c).

(** net.IPMask.Size: the number of leading ones of a canonical mask, 0 for
    any other mask. *)
Definition mask_len (m : N) : N :=
  match find (fun k => m =? 4294967296 - 2 ^ (32 - k)) (map N.of_nat (seq 0 33)) with
  | Some k => k
  | None => 0
  end.

(** The configuration Validate derives from the four addresses of the
    configuration file / the set_config request: the subnet is the prefix of
    the gateway. *)
Definition conf_of (start end_ gw mask : N) (lease : Z) (self : N) : conf :=
  let size := 2 ^ (32 - mask_len mask) in
  let lo := gw / size * size in
  Conf start end_ lo (lo + size - 1) gw lease self.

(** * Maps *)

Definition upd {A} (f : N -> A) (k : N) (v : A) : N -> A :=
  fun x => if x =? k then v else f x.
Definition hupd {A} (f : bytes -> A) (k : bytes) (v : A) : bytes -> A :=
  fun x => if eqb_bytes x k then v else f x.

Definition set_off (c : conf) (ip : N) (v : bool) (o : N -> bool) : N -> bool :=
  if in_pool c ip then upd o (ip - c_start c) v else o.

Definition set_host (l : lease) (h : bytes) : lease :=
  Lease (l_ip l) (l_mac l) h (l_static l) (l_exp l).
Definition set_mac (l : lease) (m : N) : lease :=
  Lease (l_ip l) m (l_host l) (l_static l) (l_exp l).
Definition set_exp (l : lease) (e : Z) : lease :=
  Lease (l_ip l) (l_mac l) (l_host l) (l_static l) e.

Definition remove_nth {A} (i : nat) (l : list A) : list A := firstn i l ++ skipn (S i) l.

Fixpoint update_nth {A} (i : nat) (f : A -> A) (l : list A) : list A :=
  match l, i with
  | [], _ => []
  | a :: l', O => f a :: l'
  | a :: l', S i' => a :: update_nth i' f l'
  end.

Fixpoint find_index {A} (p : A -> bool) (l : list A) : option (nat * A) :=
  match l with
  | [] => None
  | a :: l' => if p a then Some (O, a)
               else match find_index p l' with Some (i, x) => Some (S i, x) | None => None end
  end.

(** * Primitives *)

(** addLease; [None] is an error (nothing changed). *)
Definition add_lease (c : conf) (l : lease) (s : state) : option state :=
  if (if l_static l then negb (in_subnet c (l_ip l)) else negb (in_pool c (l_ip l))) then None
  else if negb (is_nil (l_host l)) && is_some (hidx (ix s) (l_host l)) then None
  else Some (State (leases s ++ [l])
               (Index (if is_nil (l_host l) then hidx (ix s)
                       else hupd (hidx (ix s)) (l_host l) (Some (l_ip l)))
                      (upd (iidx (ix s)) (l_ip l) true)
                      (set_off c (l_ip l) true (offs (ix s))))
               (disk s)).

(** What rmLeaseByIndex does to the indexes for the removed lease. *)
Definition unindex (c : conf) (l : lease) (x : index) : index :=
  Index (hupd (hidx x) (l_host l) None) (upd (iidx x) (l_ip l) false)
        (set_off c (l_ip l) false (offs x)).

Definition rm_lease_by_index (c : conf) (i : nat) (s : state) : state :=
  match nth_error (leases s) i with
  | None => s
  | Some l => State (remove_nth i (leases s)) (unindex c l (ix s)) (disk s)
  end.

(** rmDynamicLease: walks the list once; a lease with the same hardware
    address or the same address is removed, unless it is static, which is an
    error (what was done before stays done); another dynamic lease with the
    same non-empty hostname loses its name and its host index entry. *)
Fixpoint rm_dyn (c : conf) (mac ip : N) (host : bytes) (ls : list lease) (x : index)
  : list lease * index * bool :=
  match ls with
  | [] => ([], x, false)
  | l :: r =>
      if (l_mac l =? mac) || (l_ip l =? ip) then
        if l_static l then (l :: r, x, true)
        else rm_dyn c mac ip host r (unindex c l x)
      else if negb (l_static l) && negb (is_nil (l_host l)) && eqb_bytes (l_host l) host then
        let '(r', x', e) :=
          rm_dyn c mac ip host r (Index (hupd (hidx x) (l_host l) None) (iidx x) (offs x)) in
        (set_host l [] :: r', x', e)
      else
        let '(r', x', e) := rm_dyn c mac ip host r x in (l :: r', x', e)
  end.

Definition rm_dynamic_lease (c : conf) (mac ip : N) (host : bytes) (s : state) : state * bool :=
  let '(ls, x, e) := rm_dyn c mac ip host (leases s) (ix s) in (State ls x (disk s), e).

(** rmLease; [None] is an error. *)
Definition rm_lease (c : conf) (ip mac : N) (host : bytes) (s : state) : option state :=
  if is_nil (leases s) then Some s else
  match find_index (fun l => l_ip l =? ip) (leases s) with
  | None => None
  | Some (i, l) =>
      if (l_mac l =? mac) && eqb_bytes (l_host l) host then Some (rm_lease_by_index c i s)
      else None
  end.

Definition find_lease (mac : N) (ls : list lease) : option (nat * lease) :=
  find_index (fun l => l_mac l =? mac) ls.

Definition pool_offsets (c : conf) : list N :=
  if c_end c <? c_start c then []
  else map N.of_nat (seq 0 (N.to_nat (c_end c - c_start c + 1))).

(** nextIP: the first pool address whose offset bit is clear. *)
Definition next_ip (c : conf) (s : state) : option N :=
  option_map (fun o => c_start c + o)
    (find (fun o => negb (offs (ix s) o)) (pool_offsets c)).

Definition expired (now : Z) (l : lease) : bool := negb (l_static l) && (l_exp l <? now)%Z.

Definition find_expired (now : Z) (ls : list lease) : option (nat * lease) :=
  find_index (expired now) ls.

Inductive reserved := RsErr | RsNone | RsAt (i : nat) | RsFuel.

Definition set_leases (s : state) (ls : list lease) : state := State ls (ix s) (disk s).

(** reserveLease *)
Definition reserve (c : conf) (now : Z) (mac : N) (s : state) : state * reserved :=
  match next_ip c s with
  | None =>
      match find_expired now (leases s) with
      | None => (s, RsNone)
      | Some (i, _) => (set_leases s (update_nth i (fun l => set_mac l mac) (leases s)), RsAt i)
      end
  | Some ip =>
      match add_lease c (Lease ip mac [] false exp_zero) s with
      | None => (s, RsErr)
      | Some s' => (s', RsAt (length (leases s)))
      end
  end.

(** commitLease on the lease at position [i]. *)
Definition commit (c : conf) (now : Z) (i : nat) (hostname : bytes) (s : state) : state :=
  match nth_error (leases s) i with
  | None => s
  | Some l =>
      let prev := l_host l in
      let h0 := valid_hostname_for_client hostname (l_ip l) in
      let h := if is_some (hidx (ix s) h0)
               then (if is_nil prev
                     then (let g := gen_hostname (l_ip l) in
                           if is_some (hidx (ix s) g) then [] else g)
                     else prev)
               else h0 in
      let hi1 := if negb (is_nil prev) && negb (eqb_bytes prev h)
                 then hupd (hidx (ix s)) prev None else hidx (ix s) in
      let hi2 := if is_nil h then hi1 else hupd hi1 h (Some (l_ip l)) in
      State (update_nth i (fun l => set_exp (set_host l h) (now + c_lease c)%Z) (leases s))
            (Index hi2 (upd (iidx (ix s)) (l_ip l) true) (offs (ix s)))
            (disk s)
  end.

Definition ip_at (s : state) (i : nat) : N :=
  match nth_error (leases s) i with Some l => l_ip l | None => 0 end.

(** blocklistLease on the lease at position [i] (with the repair: the
    hostname index entry of the name that is cleared is deleted). *)
Definition blocklist (c : conf) (now : Z) (i : nat) (s : state) : state :=
  match nth_error (leases s) i with
  | None => s
  | Some l =>
      State (update_nth i (fun l => Lease (l_ip l) blocklist_mac [] (l_static l) (now + c_lease c)%Z)
                        (leases s))
            (Index (if negb (is_nil (l_host l)) && negb (eqb_bytes (l_host l) [])
                    then hupd (hidx (ix s)) (l_host l) None else hidx (ix s))
                   (iidx (ix s)) (offs (ix s)))
            (disk s)
  end.

Definition mem_ip (ip : N) (l : list N) : bool := existsb (N.eqb ip) l.

(** allocateLease: reserve, probe, block-list the address if it answers and
    try again.  [busy] lists the addresses that answer the probe.  The loop
    runs at most once per free pool offset and once per expired lease;
    [RsFuel] marks running out of [fuel] (never, see Proofs). *)
Fixpoint allocate (fuel : nat) (c : conf) (now : Z) (busy : list N) (mac : N) (s : state)
  : state * reserved :=
  match fuel with
  | O => (s, RsFuel)
  | S f =>
      match reserve c now mac s with
      | (s1, RsAt i) =>
          if mem_ip (ip_at s1 i) busy then allocate f c now busy mac (blocklist c now i s1)
          else (s1, RsAt i)
      | r => r
      end
  end.

Definition alloc_fuel (c : conf) (s : state) : nat :=
  S (length (pool_offsets c) + length (leases s)).

(** * The database file *)

Definition ns_per_s : Z := 1000000000%Z.
Definition trunc_s (e : Z) : Z := (e / ns_per_s * ns_per_s)%Z.

(** fromLease / toLease: RFC 3339 keeps whole seconds; static leases carry no
    expiry. *)
Definition db_lease (l : lease) : lease :=
  set_exp l (if l_static l then exp_zero else trunc_s (l_exp l)).

Fixpoint bytes_ltb (a b : bytes) : bool :=
  match a, b with
  | _, [] => false
  | [], _ :: _ => true
  | x :: a', y :: b' => (x <? y) || ((x =? y) && bytes_ltb a' b')
  end.

(** Stable insertion by hostname (slices.SortFunc is an insertion sort, hence
    stable, up to 12 elements). *)
Fixpoint insert_by_host (l : lease) (sorted : list lease) : list lease :=
  match sorted with
  | [] => [l]
  | y :: r => if bytes_ltb (l_host y) (l_host l) then y :: insert_by_host l r else l :: sorted
  end.

Definition sort_by_host (ls : list lease) : list lease := fold_right insert_by_host [] ls.

Definition store_list (ls : list lease) : list lease := sort_by_host (map db_lease ls).

(** dbStore *)
Definition store (s : state) : state := State (leases s) (ix s) (store_list (leases s)).

(** What ResetLeases does with one stored lease. *)
Definition reload_lease (l : lease) : lease :=
  if negb (l_static l) && negb (is_nil (l_host l))
  then set_host l (valid_hostname_for_client (l_host l) (l_ip l)) else l.

(** One entry of the file: toLease fails (entry skipped) when net.ParseMAC
    does not read the hardware address back; addLease may refuse. *)
Definition load_step (c : conf) (s : state) (l : lease) : state :=
  if valid_mac (l_mac l) then
    match add_lease c (reload_lease l) s with Some s' => s' | None => s end
  else s.

(** dbLoad + ResetLeases into a fresh server. *)
Definition load (c : conf) (d : list lease) : state :=
  fold_left (load_step c) d (State [] empty_index d).

(** * Message handlers and the static-lease API *)

Inductive reply :=
  | RDrop                     (* -1: no reply *)
  | RNak                      (* 0 *)
  | ROk (mt : N) (yiaddr : N) (* 1: message type option (0 none, 2 OFFER, 5 ACK), yiaddr (0 unset) *)
  | RApi (ok : bool)          (* static-lease API: accepted / rejected *)
  | RNone
  | RFuel.                    (* the model ran out of fuel: never *)

(** handleDiscover; the database is stored on return in every case. *)
Definition discover (c : conf) (now : Z) (busy : list N) (mac : N) (s : state) : state * reply :=
  match find_lease mac (leases s) with
  | Some (_, l) => (store s, ROk 2 (l_ip l))
  | None =>
      match allocate (alloc_fuel c s) c now busy mac s with
      | (s', RsAt i) => (store s', ROk 2 (ip_at s' i))
      | (s', RsFuel) => (store s', RFuel)
      | (s', _) => (store s', RNak)
      end
  end.

Inductive checked := ClAt (i : nat) (l : lease) | ClMismatch | ClNone.

(** checkLease *)
Definition check_lease (mac ip : N) (ls : list lease) : checked :=
  match find_lease mac ls with
  | Some (i, l) => if l_ip l =? ip then ClAt i l else ClMismatch
  | None => ClNone
  end.

(** handleByRequestType: [inl r] is the answer without a lease. *)
Definition request_lease (c : conf) (mac : N) (sid reqip : option N) (ciaddr : N) (s : state)
  : reply + (nat * lease) :=
  let selecting :=
    match sid with Some x => negb (x =? 0) | None => false end in
  let reboot :=
    match reqip with Some x => negb (x =? 0) | None => false end in
  if selecting then
    if negb (match sid with Some x => x =? c_self c | None => false end) then inl RDrop
    else if negb (ciaddr =? 0) then inl RDrop
    else match reqip with
         | None => inl RDrop
         | Some ip =>
             match check_lease mac ip (leases s) with
             | ClAt i l => inr (i, l)
             | _ => inl RNak
             end
         end
  else if reboot then
    match reqip with
    | None => inl RDrop
    | Some ip =>
        if negb (ciaddr =? 0) then inl RDrop
        else if negb (in_subnet c ip) then inl RNak
        else match check_lease mac ip (leases s) with
             | ClAt i l => inr (i, l)
             | ClMismatch => inl RNak
             | ClNone => inl RDrop
             end
    end
  else
    if ciaddr =? 0 then inl RDrop
    else match check_lease mac ciaddr (leases s) with
         | ClAt i l => inr (i, l)
         | ClMismatch => inl RNak
         | ClNone => inl RDrop
         end.

(** handleRequest; stored only when a lease was found. *)
Definition request (c : conf) (now : Z) (mac : N) (sid reqip : option N) (ciaddr : N)
    (host : bytes) (s : state) : state * reply :=
  match request_lease c mac sid reqip ciaddr s with
  | inl r => (s, r)
  | inr (i, l) =>
      if l_static l then (store s, ROk 5 (l_ip l))
      else (store (commit c now i host s), ROk 5 (l_ip l))
  end.

Definition msg_ip (reqip : option N) (ciaddr : N) : N :=
  match reqip with Some ip => ip | None => ciaddr end.

(** handleDecline; stored on return in every case. *)
Definition decline (c : conf) (now : Z) (busy : list N) (mac : N) (reqip : option N) (ciaddr : N)
    (s : state) : state * reply :=
  let ip := msg_ip reqip ciaddr in
  match find_index (fun l => (l_mac l =? mac) && (l_ip l =? ip)) (leases s) with
  | None => (store s, ROk 0 0)
  | Some (_, old) =>
      match rm_dynamic_lease c (l_mac old) (l_ip old) (l_host old) s with
      | (s1, true) => (store s1, RNak)
      | (s1, false) =>
          match allocate (alloc_fuel c s1) c now busy mac s1 with
          | (s2, RsErr) => (store s2, RNak)
          | (s2, RsFuel) => (store s2, RFuel)
          | (s2, RsNone) => (store s2, ROk 5 0)
          | (s2, RsAt i) => (store (commit c now i (l_host old) s2), ROk 5 (ip_at s2 i))
          end
      end
  end.

(** handleRelease; stored on return in every case. *)
Definition release (c : conf) (mac : N) (reqip : option N) (ciaddr : N) (s : state)
  : state * reply :=
  let ip := msg_ip reqip ciaddr in
  match find_index (fun l => (l_mac l =? mac) && (l_ip l =? ip)) (leases s) with
  | None => (store s, ROk 5 0)
  | Some (_, l) =>
      match rm_dynamic_lease c (l_mac l) (l_ip l) (l_host l) s with
      | (s1, true) => (store s1, RNak)
      | (s1, false) => (store s1, ROk 5 0)
      end
  end.

(** AddStaticLease; stored on success and when it fails after the dynamic
    leases in the way may already have been removed. *)
Definition static_add (c : conf) (mac ip : N) (host : bytes) (s : state) : state * reply :=
  if ip =? c_gw c then (s, RApi false) else
  if negb (valid_mac mac) then (s, RApi false) else
  match (if is_nil host then Some []
         else match normalize host with
              | Some n => if valid_hostname n then Some n else None
              | None => None
              end) with
  | None => (s, RApi false)
  | Some h =>
      match rm_dynamic_lease c mac ip h s with
      | (s1, true) => (store s1, RApi false)
      | (s1, false) =>
          match add_lease c (Lease ip mac h true exp_zero) s1 with
          | None => (store s1, RApi false)
          | Some s2 => (store s2, RApi true)
          end
      end
  end.

Definition lease_by_ip (ip : N) (ls : list lease) : option lease :=
  match find_index (fun l => l_ip l =? ip) ls with Some (_, l) => Some l | None => None end.

(** validateStaticLease: [Some h] is the normalised hostname of an accepted lease. *)
Definition validate_static (c : conf) (mac ip : N) (host : bytes) (s : state) : option bytes :=
  match normalize host with
  | None => None
  | Some h =>
      if negb (valid_hostname h) then None
      else if match hidx (ix s) h with
              | Some dip => match lease_by_ip dip (leases s) with
                            | Some d => negb (l_mac d =? mac) | None => true end
              | None => false end then None
      else if iidx (ix s) ip &&
              match lease_by_ip ip (leases s) with
              | Some d => negb (l_mac d =? mac) | None => true end then None
      else if ip =? c_gw c then None
      else if negb (in_subnet c ip) then None
      else Some h
  end.

(** UpdateStaticLease; stored only on success. *)
Definition static_update (c : conf) (mac ip : N) (host : bytes) (s : state) : state * reply :=
  match find_lease mac (leases s) with
  | None => (s, RApi false)
  | Some (_, found) =>
      match validate_static c mac ip host s with
      | None => (s, RApi false)
      | Some h =>
          match rm_lease c (l_ip found) (l_mac found) (l_host found) s with
          | None => (s, RApi false)
          | Some s1 =>
              match add_lease c (Lease ip mac h true exp_zero) s1 with
              | None => (s1, RApi false)
              | Some s2 => (store s2, RApi true)
              end
          end
      end
  end.

(** RemoveStaticLease; stored only on success. *)
Definition static_remove (c : conf) (mac ip : N) (host : bytes) (s : state) : state * reply :=
  if negb (valid_mac mac) then (s, RApi false) else
  match rm_lease c ip mac host s with
  | None => (s, RApi false)
  | Some s1 => (store s1, RApi true)
  end.

(** A restart: a fresh server loads the file. *)
Definition restart (c : conf) (s : state) : state := load c (disk s).

(** handleDHCPSetConfig with the configuration [c'] (already accepted by
    Validate): new, empty servers are created and the table is reloaded from
    the file.  With [c' = c] this is [restart]. *)
Definition set_config (c' : conf) (s : state) : state := load c' (disk s).

Definition with_pool (c : conf) (a b : N) : conf :=
  Conf a b (c_sub_lo c) (c_sub_hi c) (c_gw c) (c_lease c) (c_self c).

(** The request as a whole, for a new pool in the same network: rejected
    (nothing changes) when Validate rejects the configuration. *)
Definition set_config_pool (c : conf) (a b : N) (s : state) : conf * state * bool :=
  let c' := with_pool c a b in
  if valid_conf_b c' then (c', set_config c' s, true) else (c, s, false).

Inductive op :=
  | ODiscover (mac : N)
  | ORequest (mac : N) (sid reqip : option N) (ciaddr : N) (host : bytes)
  | ODecline (mac : N) (reqip : option N) (ciaddr : N)
  | ORelease (mac : N) (reqip : option N) (ciaddr : N)
  | OStaticAdd (mac ip : N) (host : bytes)
  | OStaticUpdate (mac ip : N) (host : bytes)
  | OStaticRemove (mac ip : N) (host : bytes)
  | OTick                      (* time passes: only the clock input moves *)
  | ORestart.

Definition step (c : conf) (s : state) (now : Z) (busy : list N) (o : op) : state * reply :=
  match o with
  | ODiscover mac => discover c now busy mac s
  | ORequest mac sid reqip ci host => request c now mac sid reqip ci host s
  | ODecline mac reqip ci => decline c now busy mac reqip ci s
  | ORelease mac reqip ci => release c mac reqip ci s
  | OStaticAdd mac ip host => static_add c mac ip host s
  | OStaticUpdate mac ip host => static_update c mac ip host s
  | OStaticRemove mac ip host => static_remove c mac ip host s
  | OTick => (s, RNone)
  | ORestart => (restart c s, RNone)
  end.

(** A history is a list of (clock reading, addresses that answer the probe,
    operation). *)
Definition event : Type := Z * list N * op.
Definition run (c : conf) (h : list event) (s : state) : state :=
  fold_left (fun s (p : event) => fst (step c s (fst (fst p)) (snd (fst p)) (snd p))) h s.

(** * Views *)

(** HostByIP *)
Definition host_by_ip (s : state) (ip : N) : bytes :=
  if iidx (ix s) ip then
    match lease_by_ip ip (leases s) with Some l => l_host l | None => [] end
  else [].

(** IPByHost; 0 = no answer. *)
Definition ip_by_host (s : state) (h : bytes) : N :=
  match hidx (ix s) h with Some ip => ip | None => 0 end.

(** FindMACbyIP at instant [now]; 0 = no answer. *)
Definition mac_by_ip (now : Z) (s : state) (ip : N) : N :=
  if iidx (ix s) ip then
    match lease_by_ip ip (leases s) with
    | Some l => if l_static l || (now <? l_exp l)%Z then l_mac l else 0
    | None => 0
    end
  else 0.

(** GetLeases(LeasesAll) at instant [now]: static leases and dynamic ones
    that are neither expired nor block-listed. *)
Definition active (now : Z) (s : state) : list lease :=
  filter (fun l => l_static l || ((now <? l_exp l)%Z && negb (is_blocklisted (l_mac l)))) (leases s).

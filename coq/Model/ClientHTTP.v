(** Model of the clients HTTP API as an entry point of registry histories
    (C04, round 5): internal/home/clientshttp.go

      clientJSON                         the JSON object of the API
      initPrev / copyBlockedServices     (called with prev = nil by BOTH handlers)
      copySafeSearch                     current [safe_search] object, else the
                                         deprecated [safesearch_enabled] flag
      jsonToClient                       body -> client.Persistent, incl. the
                                         guard that builds the client's own
                                         safe-search engine
      clientToJSON                       client.Persistent -> JSON object
      handleAddClient / handleUpdateClient / handleDelClient
      handleGetClients / handleFindClient (persistent part)

    and the consumer of the engine, filtering/safesearch.go
    [DNSFilter.checkSafeSearch] with safesearch.Default.CheckHost as far as
    "is a host of service [v] rewritten".  No proofs here.

    A safe-search engine ([*safesearch.Default]) is represented by the
    configuration it was built from ([engine := ssconf]): resetEngine loads the
    rules of exactly the services switched on in it, and none when [enabled]
    is false.  [None] is a nil [Persistent.SafeSearch] / [Settings.ClientSafeSearch].

    The decoded body is the input ([cjson]; encoding/json, Weekly.UnmarshalJSON
    and aghalg.NullBool are trusted, validated by the harness, which posts the
    JSON text): an absent or null [safe_search] is [None], a NullBool is
    [option bool], absent booleans / lists / numbers are the Go zero values.
    Identifiers are handed over parsed ([pid], as in Model/ClientConfig.v). *)
From Coq Require Import ZArith.
From AGH Require Import Base.Run Base.Bytes.
From AGH Require Model.Schedule.
From AGH Require Import Model.ClientIndex Model.ClientConfig.
Local Open Scope N_scope.

(** * Safe search: services and engines *)
Inductive service := SBing | SDdg | SEcosia | SGoogle | SPixabay | SYandex | SYoutube.
Definition all_services : list service := [SBing; SDdg; SEcosia; SGoogle; SPixabay; SYandex; SYoutube].

(** safesearch.isServiceProtected *)
Definition protected (s : ssconf) (v : service) : bool :=
  match v with
  | SBing => ss_bing s | SDdg => ss_ddg s | SEcosia => ss_ecosia s | SGoogle => ss_google s
  | SPixabay => ss_pixabay s | SYandex => ss_yandex s | SYoutube => ss_youtube s
  end.

Definition engine := ssconf.

(** safesearch.Default.CheckHost on a host of service [v] (qtype A): resetEngine
    leaves the rule engine nil when the configuration is disabled (searchHost
    then finds nothing), else it holds the rules of the protected services. *)
Definition engine_rewrites (e : engine) (v : service) : bool := ss_enabled e && protected e v.

(** The guard of jsonToClient / toPersistent as the code has it now: an engine
    is built exactly when the client's STORED configuration is enabled, from
    that configuration. *)
Definition engine_of (s : ssconf) : option engine := if ss_enabled s then Some s else None.

(** * clientJSON (the fields a request can set) *)
Record cjson := {
  j_name : bytes;
  j_ids : list pid;
  j_tags : list bytes;
  j_upstreams : list bytes;
  j_ss : option ssconf;                          (* "safe_search" *)
  j_ss_dep : bool;                               (* "safesearch_enabled", deprecated *)
  j_sched : option (Schedule.weekly * N);        (* "blocked_services_schedule" *)
  j_blocked : list bytes;                        (* "blocked_services" *)
  j_use_global_settings : bool;
  j_filtering : bool;
  j_parental : bool;
  j_safebrowsing : bool;
  j_use_global_blocked : bool;
  j_ignore_qlog : option bool;                   (* aghalg.NullBool *)
  j_ignore_stats : option bool;
  j_cache_enabled : option bool;
  j_cache_size : N
}.

(** copySafeSearch: the current object wins whenever it is present; only
    without it the deprecated flag counts (all services on). *)
Definition all_on_ss : ssconf :=
  {| ss_enabled := true; ss_bing := true; ss_ddg := true; ss_ecosia := true;
     ss_google := true; ss_pixabay := true; ss_yandex := true; ss_youtube := true |}.
Definition copy_safe_search (o : option ssconf) (dep : bool) : ssconf :=
  match o with
  | Some s => s
  | None => if dep then all_on_ss else zero_ss
  end.
Definition body_ss (cj : cjson) : ssconf := copy_safe_search (j_ss cj) (j_ss_dep cj).

(** copyBlockedServices with prev = nil: the schedule of the body, else the
    empty one in time.Local; the ids as listed. *)
Definition copy_blocked (sched : option (Schedule.weekly * N)) (ids : list bytes) : blocked :=
  match sched with
  | Some (w, z) => {| b_ids := ids; b_sched := w; b_zone := z |}
  | None => {| b_ids := ids; b_sched := empty_weekly; b_zone := 0 |}
  end.

(** The fields of client.Persistent outside ClientIndex's [client], plus the
    client's own safe-search engine. *)
Record hextra := { hx_extra : extra; hx_engine : option engine }.

Definition nb (o : option bool) : bool := match o with Some b => b | None => false end.

Inductive jconv := JErr (e : conv_err) | JOk (c : client) (x : hextra).

(** jsonToClient (prev = nil): initPrev validates the blocked services FIRST,
    then SetIDs; [gen] is the value client.NewUID returns. *)
Definition json_to_client (known : list bytes) (gen : uid) (cj : cjson) : jconv :=
  let b := copy_blocked (j_sched cj) (j_blocked cj) in
  if negb (forallb (fun i => existsb (eqb_bytes i) known) (b_ids b)) then JErr CErrService else
  if existsb is_bad (j_ids cj) then JErr CErrIds else
  let ss := copy_safe_search (j_ss cj) (j_ss_dep cj) in
  JOk {| c_uid := gen;
         c_name := j_name cj;
         c_cids := sort_by cmp_bytes (cids_of (j_ids cj));
         c_ips := sort_by addr_z_compare (ips_of (j_ids cj));
         c_subnets := sort_by subnet_compare (nets_of (j_ids cj));
         c_macs := sort_by cmp_bytes (macs_of (j_ids cj));
         c_own_settings := negb (j_use_global_settings cj);
         c_filtering := j_filtering cj;
         c_safesearch := ss_enabled ss;
         c_safebrowsing := j_safebrowsing cj;
         c_parental := j_parental cj;
         c_own_blocked := negb (j_use_global_blocked cj);
         c_blocked := Some b;
         c_ignore_qlog := nb (j_ignore_qlog cj);
         c_ignore_stats := nb (j_ignore_stats cj);
         c_tags := j_tags cj;
         c_upstreams := j_upstreams cj |}
      {| hx_extra := {| x_ss := ss;
                        x_cache_enabled := nb (j_cache_enabled cj);
                        x_cache_size := match j_cache_enabled cj with Some _ => j_cache_size cj | None => 0 end;
                        x_nil_sched := false |};
         hx_engine := if ss_enabled ss then Some ss else None |}.

(** clientToJSON.  [c_blocked = None] would be a nil dereference in Go
    ([c.BlockedServices.Schedule]); no client that came through Init or the
    handlers has one (Proofs/ClientHTTP.v, [hgood_blocked]). *)
Definition client_to_json (c : client) (x : extra) : cjson :=
  {| j_name := c_name c;
     j_ids := ids_of c;
     j_tags := c_tags c;
     j_upstreams := c_upstreams c;
     j_ss := Some (x_ss x);
     j_ss_dep := ss_enabled (x_ss x);
     j_sched := match c_blocked c with
                | Some b => if x_nil_sched x then None else Some (b_sched b, b_zone b)
                | None => None
                end;
     j_blocked := match c_blocked c with Some b => b_ids b | None => [] end;
     j_use_global_settings := negb (c_own_settings c);
     j_filtering := c_filtering c;
     j_parental := c_parental c;
     j_safebrowsing := c_safebrowsing c;
     j_use_global_blocked := negb (c_own_blocked c);
     j_ignore_qlog := Some (c_ignore_qlog c);
     j_ignore_stats := Some (c_ignore_stats c);
     j_cache_enabled := Some (x_cache_enabled x);
     j_cache_size := x_cache_size x |}.

(** * The container behind the handlers *)
Definition hreg := (index * list (uid * hextra))%type.
Definition empty_hreg : hreg := (empty_index, []).

Definition zero_hextra : hextra := {| hx_extra := zero_extra; hx_engine := None |}.
Definition hextra_of (r : hreg) (u : uid) : hextra :=
  match al_get N.eqb u (snd r) with Some x => x | None => zero_hextra end.

(** The registry as Model/ClientConfig.v sees it (forConfig reads this part). *)
Definition reg_of (r : hreg) : registry :=
  (fst r, map (fun p => (fst p, hx_extra (snd p))) (snd r)).

(** A registry loaded by Init: toPersistent builds the engine under the same
    guard. *)
Definition to_hreg (r : registry) : hreg :=
  (fst r, map (fun p => (fst p, {| hx_extra := snd p; hx_engine := engine_of (x_ss (snd p)) |})) (snd r)).

(** One request.  [None] body: the body does not decode (400 before anything
    else happens).  [gen]: what client.NewUID returns inside jsonToClient. *)
Inductive hop :=
  | HAdd (body : option cjson) (gen : uid)
  | HUpdate (body : option (bytes * cjson)) (gen : uid)
  | HDelete (body : option bytes).

Inductive herr :=
  | HOk
  | HBadBody                    (* "failed to process request body" *)
  | HNoName                     (* update / delete with an empty name *)
  | HConv (e : conv_err)        (* jsonToClient *)
  | HStore (e : err).           (* Storage.Add / Update / RemoveByName *)

Definition is_empty (b : bytes) : bool := match b with [] => true | _ => false end.

Definition http_step (cfg : config) (known : list bytes) (r : hreg) (o : hop) : hreg * herr :=
  match o with
  | HAdd None _ => (r, HBadBody)
  | HAdd (Some cj) g =>
      match json_to_client known g cj with
      | JErr e => (r, HConv e)
      | JOk c x =>
          match add cfg c (fst r) with
          | (ix', EOk) => ((ix', (c_uid c, x) :: snd r), HOk)
          | (_, e) => (r, HStore e)
          end
      end
  | HUpdate None _ => (r, HBadBody)
  | HUpdate (Some (n, cj)) g =>
      if is_empty n then (r, HNoName) else
      match json_to_client known g cj with
      | JErr e => (r, HConv e)
      | JOk c x =>
          match update cfg n c (fst r) with
          | (ix', EOk) =>
              (* Storage.Update keeps the stored uid *)
              match bget n (name_to (fst r)) with
              | Some u => ((ix', (u, x) :: snd r), HOk)
              | None => (r, HStore ENotFound)
              end
          | (_, e) => (r, HStore e)
          end
      end
  | HDelete None => (r, HBadBody)
  | HDelete (Some n) =>
      if is_empty n then (r, HNoName) else
      match remove_by_name n (fst r) with
      | (ix', EOk) => ((ix', snd r), HOk)
      | (_, e) => (r, HStore e)
      end
  end.

Definition hrun (cfg : config) (known : list bytes) (ops : list hop) (r : hreg) : hreg :=
  fold_left (fun r o => fst (http_step cfg known r o)) ops r.

(** GET /control/clients, the persistent part: RangeByName + clientToJSON. *)
Definition http_get (r : hreg) : list cjson :=
  map (fun c => client_to_json c (hx_extra (hextra_of r (c_uid c)))) (clients_by_name (fst r)).

(** GET /control/clients/find?ip0=...: Storage.Find on the string (ClientID,
    address incl. containing CIDR, MAC spelling, then the lease's MAC), then
    clientToJSON.  [None]: not a persistent client (the runtime answer). *)
Definition http_find (r : hreg) (dhcp : addr -> option bytes)
    (id : bytes) (ip : option addr) (mac : option bytes) : option cjson :=
  match storage_find (fst r) dhcp id ip mac with
  | Some u =>
      match deref (fst r) u with
      | Some c => Some (client_to_json c (hx_extra (hextra_of r u)))
      | None => None
      end
  | None => None
  end.

(** * What a request gets: Storage.ApplyClientFiltering with the engine *)
Record esettings := { es_settings : settings; es_client_ss : option engine }.

Definition h_acf (r : hreg) (dhcp : addr -> option bytes) (id : bytes) (a : addr) (g : settings)
    : option esettings :=
  match acf_find (fst r) dhcp id a with
  | None => Some {| es_settings := g; es_client_ss := None |}
  | Some u =>
      match deref (fst r) u with
      | Some c =>
          Some {| es_settings := apply_client c g;
                  es_client_ss := if c_own_settings c then hx_engine (hextra_of r u) else None |}
      | None => None
      end
  end.

(** DNSFilter.checkSafeSearch for a host of service [v]; [global] is the
    filter's own engine (home always installs one, built from the global
    configuration), [protection] is Settings.ProtectionEnabled. *)
Definition check_safe_search (global : engine) (protection : bool) (es : esettings) (v : service) : bool :=
  protection && s_safesearch (es_settings es) &&
  engine_rewrites (match es_client_ss es with Some e => e | None => global end) v.

(** The verdicts of one request for the seven services. *)
Definition verdicts (global : engine) (es : esettings) : list bool :=
  map (check_safe_search global true es) all_services.

(** * Save and restart: forConfig, then Init of a fresh container *)
Definition restart (cfg : config) (known : list bytes) (r : hreg) : option hreg :=
  match reload cfg known 0 (reg_of r) with
  | LOk r' => Some (to_hreg r')
  | _ => None
  end.

(** Model of internal/filtering/rulelist/parser.go (C15), including the parts
    of bufio.Scanner / bufio.ScanLines and bytes.TrimSpace it relies on.
    No proofs here.

    The source is a byte string plus a flag: did the reader end with an error
    other than io.EOF (connection cut, short body)?  The destination always
    accepts writes in [process] / [parse]; [process_w] / [parse_w] are the
    same code against a destination that takes [cap] bytes in all and then
    fails (full disk, quota, file-size limit).  CRC-32 is a parameter of the
    parser functions; [crc32_update] is the bit-exact IEEE CRC the evaluator
    uses. *)
From Coq Require Import NArith List Bool.
From AGH Require Import Base.Run.
Import ListNotations.
Local Open Scope N_scope.

(** ** bufio.Scanner with ScanLines, buffer limit [bufio.MaxScanTokenSize] *)
Definition max_token : N := 65536.

(** List reversal, tail recursive (equal to [rev], see [rv_rev] in the proofs). *)
Definition rv {A} (l : list A) : list A := rev_append l [].

(** [dropCR] *)
Definition drop_cr (t : bytes) : bytes :=
  match rv t with
  | 13 :: r => rv r
  | _ => t
  end.

(** [cur] is the current line reversed, [n] its length.  A line is too long
    when the buffer (64 KiB at most) is full and holds no newline.  Result:
    the tokens produced, and whether the scan stopped with [ErrTooLong]. *)
Fixpoint scan (x : bytes) (cur : bytes) (n : N) : list bytes * bool :=
  match x with
  | [] => if n =? 0 then ([], false) else ([drop_cr (rv cur)], false)
  | b :: x' =>
      if b =? 10 then let '(ts, e) := scan x' [] 0 in (drop_cr (rv cur) :: ts, e)
      else if max_token <=? n + 1 then ([], true)
      else scan x' (b :: cur) (n + 1)
  end.

(** ** bytes.TrimSpace *)

(** UTF-8 encodings of the runes for which [unicode.IsSpace] holds. *)
Definition space_runes : list bytes :=
  [[9]; [10]; [11]; [12]; [13]; [32];
   [194; 133]; [194; 160]; [225; 154; 128];
   [226; 128; 128]; [226; 128; 129]; [226; 128; 130]; [226; 128; 131]; [226; 128; 132];
   [226; 128; 133]; [226; 128; 134]; [226; 128; 135]; [226; 128; 136]; [226; 128; 137];
   [226; 128; 138]; [226; 128; 168]; [226; 128; 169]; [226; 128; 175]; [226; 129; 159];
   [227; 128; 128]].

Fixpoint starts_with (p s : bytes) : option bytes :=
  match p, s with
  | [], _ => Some s
  | a :: p', b :: s' => if a =? b then starts_with p' s' else None
  | _ :: _, [] => None
  end.

(** Removes one leading pattern, if one matches. *)
Fixpoint strip_with (pats : list bytes) (s : bytes) : option bytes :=
  match pats with
  | [] => None
  | p :: ps => match starts_with p s with Some r => Some r | None => strip_with ps s end
  end.

Fixpoint trim_with_f (pats : list bytes) (fuel : nat) (s : bytes) : bytes :=
  match fuel with
  | O => s
  | S f => match strip_with pats s with Some r => trim_with_f pats f r | None => s end
  end.
Definition trim_with (pats : list bytes) (s : bytes) : bytes := trim_with_f pats (length s) s.

Definition trim_left (s : bytes) : bytes := trim_with space_runes s.
Definition trim_right (s : bytes) : bytes := rv (trim_with (map (@rev N) space_runes) (rv s)).
(** [TrimFunc] = [TrimRightFunc (TrimLeftFunc s)] *)
Definition trim_space (s : bytes) : bytes := trim_right (trim_left s).

(** ** Line classification *)
Definition lower_ascii (b : N) : N := if (65 <=? b) && (b <=? 90) then b + 32 else b.

(** [hasPrefixFold] for an ASCII lower-case prefix without letters whose
    simple folding leaves ASCII ('k', 's'). *)
Fixpoint has_prefix_fold (p s : bytes) : bool :=
  match p, s with
  | [], _ => true
  | a :: p', b :: s' => (a =? lower_ascii b) && has_prefix_fold p' s'
  | _ :: _, [] => false
  end.

Definition html_tag : bytes := [60; 104; 116; 109; 108].                       (* <html *)
Definition doctype_tag : bytes := [60; 33; 100; 111; 99; 116; 121; 112; 101].  (* <!doctype *)
Definition is_html_line (t : bytes) : bool := has_prefix_fold html_tag t || has_prefix_fold doctype_tag t.

Definition likely_binary (b : N) : bool :=
  ((b <? 32) || (b =? 127)) && negb (b =? 10) && negb (b =? 13) && negb (b =? 9).

Inductive line_class := LSkip | LRule | LBinary.

(** [parseLine] / [parseLineTitle] without the title side effect. *)
Definition classify (t : bytes) : line_class :=
  match t with
  | [] => LSkip
  | c :: _ =>
      if (c =? 35) || (c =? 33) then LSkip
      else if existsb likely_binary t then LBinary else LRule
  end.

Definition title_pattern : bytes := [33; 32; 84; 105; 116; 108; 101; 58; 32].   (* "! Title: " *)

(** The title a line sets, if it is a title line. *)
Definition title_of (t : bytes) : option bytes :=
  match starts_with title_pattern t with
  | Some r => Some (trim_space r)
  | None => None
  end.

(** ** The parser *)
Inductive perr := EHtml | EBinary | ETooLong | ERead | EWrite.

Record pstate := {
  p_title : bytes;
  p_title_found : bool;
  p_count : N;
  p_written : N;
  p_sum : N;
  p_lines : list bytes;     (* lines written to dst, newest first, without the newline *)
}.

Definition p_init : pstate :=
  {| p_title := []; p_title_found := false; p_count := 0; p_written := 0; p_sum := 0; p_lines := [] |}.

Definition lenN (s : bytes) : N := N.of_nat (length s).

Section Parser.
  Variable crc : N -> bytes -> N.      (* crc32.Update with the IEEE table *)

  (** [processLine] on all tokens. *)
  Fixpoint process (toks : list bytes) (st : pstate) : pstate * option perr :=
    match toks with
    | [] => (st, None)
    | l :: r =>
        let t := trim_space l in
        if (p_written st =? 0) && is_html_line t then (st, Some EHtml)
        else
          let st :=
            if p_title_found st then st
            else match title_of t with
                 | Some ti => {| p_title := ti; p_title_found := true; p_count := p_count st;
                                 p_written := p_written st; p_sum := p_sum st; p_lines := p_lines st |}
                 | None => st
                 end in
          match classify t with
          | LSkip => process r st
          | LBinary => (st, Some EBinary)
          | LRule =>
              process r {| p_title := p_title st; p_title_found := p_title_found st;
                           p_count := p_count st + 1;
                           p_written := p_written st + lenN t + 1;
                           p_sum := crc (p_sum st) t;
                           p_lines := t :: p_lines st |}
          end
    end.

  (** [Parser.Parse]: the error of a line comes first, then the scanner's. *)
  Definition parse (x : bytes) (read_err : bool) : pstate * option perr :=
    let '(toks, too_long) := scan x [] 0 in
    match process toks p_init with
    | (st, Some e) => (st, Some e)
    | (st, None) =>
        (st, if too_long then Some ETooLong else if read_err then Some ERead else None)
    end.
  (** ** The same against a destination whose writes fail

      [dst] takes [cap] bytes in all: the write that crosses the limit is
      short (what fits is taken), and it returns an error, as a file under a
      file-size limit, on a full disk or over quota does through
      [os.File.Write].  [processLine] has counted the rule and updated the
      checksum before it writes; [Parse] adds the short count to [written] and
      returns the error ("writing rule line").  Third component: the part of
      the failing line that reached [dst]. *)
  Definition take (n : N) (s : bytes) : bytes := firstn (N.to_nat n) s.

  Fixpoint process_w (cap : N) (toks : list bytes) (st : pstate) : pstate * option perr * bytes :=
    match toks with
    | [] => (st, None, [])
    | l :: r =>
        let t := trim_space l in
        if (p_written st =? 0) && is_html_line t then (st, Some EHtml, [])
        else
          let st :=
            if p_title_found st then st
            else match title_of t with
                 | Some ti => {| p_title := ti; p_title_found := true; p_count := p_count st;
                                 p_written := p_written st; p_sum := p_sum st; p_lines := p_lines st |}
                 | None => st
                 end in
          match classify t with
          | LSkip => process_w cap r st
          | LBinary => (st, Some EBinary, [])
          | LRule =>
              let room := cap - p_written st in
              if room <? lenN t + 1 then
                ({| p_title := p_title st; p_title_found := p_title_found st;
                    p_count := p_count st + 1;
                    p_written := p_written st + room;
                    p_sum := crc (p_sum st) t;
                    p_lines := p_lines st |}, Some EWrite, take room (t ++ [10]))
              else
                process_w cap r {| p_title := p_title st; p_title_found := p_title_found st;
                                   p_count := p_count st + 1;
                                   p_written := p_written st + lenN t + 1;
                                   p_sum := crc (p_sum st) t;
                                   p_lines := t :: p_lines st |}
          end
    end.

  Definition parse_w (cap : N) (x : bytes) (read_err : bool) : pstate * option perr * bytes :=
    let '(toks, too_long) := scan x [] 0 in
    match process_w cap toks p_init with
    | (st, Some e, part) => (st, Some e, part)
    | (st, None, part) =>
        (st, if too_long then Some ETooLong else if read_err then Some ERead else None, part)
    end.
End Parser.

(** What was written to dst. *)
Definition output (st : pstate) : bytes := flat_map (fun t => t ++ [10]) (rv (p_lines st)).

(** ** hash/crc32, IEEE polynomial, bit by bit *)
Definition crc_poly : N := 3988292384.        (* 0xEDB88320 *)
Definition mask32 : N := 4294967295.

Definition crc_bit (c : N) : N :=
  if N.testbit c 0 then N.lxor (N.shiftr c 1) crc_poly else N.shiftr c 1.
Definition crc_byte (c b : N) : N :=
  let c := N.lxor c b in
  crc_bit (crc_bit (crc_bit (crc_bit (crc_bit (crc_bit (crc_bit (crc_bit c))))))).
Definition crc32_update (c : N) (p : bytes) : N :=
  N.lxor (fold_left crc_byte p (N.lxor c mask32)) mask32.

(** C11, round 6: WHICH registrations answer on a server, and how net/http's
    ServeMux picks among them.  No proofs here.

    The route table (Gen/Routes.v) lists the registrations the module makes.
    A request is answered by what is registered on the mux OBJECT behind the
    server's handler.  A mux made by [http.NewServeMux()] inside the module
    carries exactly what the module registers on it; [http.DefaultServeMux]
    (also what net/http serves when a Server has a nil Handler) carries, in
    front of that, whatever linked packages hung on it in their init
    functions (net/http/pprof, expvar, x/net/trace ...).  tools/routes
    establishes the identity of the mux behind every server
    (Gen/RoutesMux.v [mux_rows]).

    ServeMux (Go 1.22+, patterns without method, host or wildcard, which is
    what C11_routes_methods_canonical pins): a pattern ending in "/" matches
    every path it is a prefix of, any other pattern matches exactly itself;
    the longest matching pattern wins; a path that matches nothing exactly
    while path+"/" is a registered subtree is redirected there; nothing
    matches: 404.  Paths are taken as already clean (the mux redirects an
    unclean path to its clean form first; the harness sends clean ones). *)
From AGH Require Import Base.Run Model.AuthHttp.

Inductive mux_kind :=
  | MuxFresh       (* every write to the variable is http.NewServeMux(), made in the module *)
  | MuxDefault     (* http.DefaultServeMux *)
  | MuxNil         (* no / nil Handler: net/http serves http.DefaultServeMux *)
  | MuxUnknown.    (* the translator could not tell *)

Record mux_row := {
  mr_pos : bytes;      (* where the server is made *)
  mr_func : bytes;     (* enclosing function *)
  mr_addr : bytes;     (* the listen address, as written *)
  mr_mux : bytes;      (* the mux expression(s) in its handler *)
  mr_kind : mux_kind;
}.

(** * Pattern matching *)

Fixpoint ends_slash (s : bytes) : bool :=
  match s with
  | [] => false
  | [c] => (c =? 47)%N
  | _ :: s' => ends_slash s'
  end.

Definition is_subtree (pat : bytes) : bool := ends_slash pat.

Definition pat_matches (pat path : bytes) : bool :=
  if is_subtree pat then has_prefix pat path else eqb_bytes pat path.

Section Mux.
Context {X : Type}.

(** The most specific registration that matches: the longest pattern. *)
Fixpoint mux_best (regs : list (bytes * X)) (path : bytes) : option (bytes * X) :=
  match regs with
  | [] => None
  | (p, x) :: rs =>
      let b := mux_best rs path in
      if pat_matches p path then
        match b with
        | Some (q, _) => if Nat.ltb (length q) (length p) then Some (p, x) else b
        | None => Some (p, x)
        end
      else b
  end.

(** net/http [exactMatch]: an exact pattern, or a subtree pattern that is the
    whole path. *)
Definition mux_exact (b : option (bytes * X)) (path : bytes) : bool :=
  match b with
  | Some (p, _) => if is_subtree p then eqb_bytes p path else true
  | None => false
  end.

Inductive mux_found :=
  | FServe (pat : bytes) (x : X)
  | FRedirect (to : bytes)       (* 301 to path + "/" *)
  | FNone.                       (* NotFoundHandler *)

(** [ServeMux.findHandler] on a clean path. *)
Definition mux_find (regs : list (bytes * X)) (path : bytes) : mux_found :=
  let b := mux_best regs path in
  let p2 := path ++ [47%N] in
  if negb (mux_exact b path) && negb (ends_slash path) && mux_exact (mux_best regs p2) p2
  then FRedirect p2
  else match b with Some (p, x) => FServe p x | None => FNone end.

(** What the mux behind a server carries: [declared] is what the module
    registers on it, [foreign] what the init functions of linked packages
    have put on the process-global default mux before [main] runs. *)
Definition mux_content (k : mux_kind) (declared foreign : list (bytes * X)) : option (list (bytes * X)) :=
  match k with
  | MuxFresh => Some declared
  | MuxDefault | MuxNil => Some (foreign ++ declared)
  | MuxUnknown => None
  end.

End Mux.
Arguments mux_found : clear implicits.

(** A mux in front of handlers: default-deny. *)
Definition mux_serve {A R} (regs : list (bytes * handler A R)) : handler A R := fun e w r =>
  match mux_find regs (r_path r) with
  | FServe _ h => h e w r
  | FRedirect to => (w, ARedirect 301 to)
  | FNone => (w, AStatus 404)
  end.

Definition str_root : bytes := [47%N].

(** A path that no pattern of the list other than "/" matches, and that is
    not a registered subtree minus its slash. *)
Definition undeclared (pats : list bytes) (path : bytes) : bool :=
  forallb (fun p => negb (pat_matches p path) || eqb_bytes p str_root) pats &&
  forallb (fun p => negb (eqb_bytes p (path ++ [47%N]))) pats.

(** The table check of Gen/RoutesMux.v. *)
Definition kind_fresh (k : mux_kind) : bool := match k with MuxFresh => true | _ => false end.

Definition str_RoutePprof : bytes :=   (* github.com/AdguardTeam/golibs/netutil/httputil.RoutePprof *)
  [103;105;116;104;117;98;46;99;111;109;47;65;100;103;117;97;114;100;84;101;97;109;47;103;111;108;105;98;115;47;110;101;116;117;116;105;108;47;104;116;116;112;117;116;105;108;46;82;111;117;116;101;80;112;114;111;102]%N.
Definition str_home_startPprof : bytes :=   (* github.com/AdguardTeam/AdGuardHome/internal/home.startPprof *)
  [103;105;116;104;117;98;46;99;111;109;47;65;100;103;117;97;114;100;84;101;97;109;47;65;100;71;117;97;114;100;72;111;109;101;47;105;110;116;101;114;110;97;108;47;104;111;109;101;46;115;116;97;114;116;80;112;114;111;102]%N.
Definition str_mux_global : bytes :=    (* globalContext.mux *)
  [103;108;111;98;97;108;67;111;110;116;101;120;116;46;109;117;120]%N.
Definition str_IPv4Localhost : bytes := [73;80;118;52;76;111;99;97;108;104;111;115;116]%N.

Fixpoint contains_sub (x s : bytes) : bool :=
  has_prefix x s || match s with [] => false | _ :: s' => contains_sub x s' end.

(** A row is the admin mux served by a server of package home, or the
    profiling server: its own fresh mux, on the loopback address. *)
Definition row_private (r : mux_row) : bool :=
  kind_fresh (mr_kind r) &&
  (eqb_bytes (mr_mux r) str_mux_global ||
   (eqb_bytes (mr_func r) str_home_startPprof && contains_sub str_IPv4Localhost (mr_addr r))).

(** The only mux handed to foreign code is the profiling server's. *)
Definition escape_ok (e : bytes * bytes * bytes * bytes) : bool :=
  let '(m, callee, _, fn) := e in
  eqb_bytes callee str_RoutePprof && eqb_bytes fn str_home_startPprof && negb (eqb_bytes m str_mux_global).

Definition mux_table_ok (rows : list mux_row) (escapes : list (bytes * bytes * bytes * bytes))
    (mentions : list bytes) (pprof_guarded : bool) : bool :=
  forallb row_private rows &&
  existsb (fun r => eqb_bytes (mr_mux r) str_mux_global) rows &&
  forallb escape_ok escapes &&
  match mentions with [] => true | _ => false end &&
  (pprof_guarded || negb (existsb (fun r => eqb_bytes (mr_func r) str_home_startPprof) rows)).

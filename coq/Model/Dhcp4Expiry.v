(** The expiry of a dynamic lease in leases.json (db.go fromLease / toLease)
    as the code is now: fromLease formats the expiry with time.RFC3339 IN THE
    LOCATION THE TIME VALUE CARRIES (time.Local for a deadline computed from
    time.Now()): the local wall-clock reading at whole seconds together with
    its offset from UTC; toLease parses it back: wall clock minus offset.
    Instants are nanoseconds (Z) as in Model/Dhcp4.v; [zone] is the offset of
    the process's time zone from UTC in seconds.  No proofs here. *)
From Coq Require Import ZArith.
From AGH Require Import Model.Dhcp4.
Local Open Scope Z_scope.

(** The text as (wall-clock seconds since the epoch as if it were UTC, offset
    label in seconds: 0 is "Z"). *)
Definition stamp : Type := (Z * Z)%type.

(** Expiry.Format(time.RFC3339) *)
Definition write_expiry (zone : Z) (e : Z) : stamp := (e / ns_per_s + zone, zone).

(** time.Parse(time.RFC3339, text) *)
Definition read_expiry (t : stamp) : Z := (fst t - snd t) * ns_per_s.

(** The variant that is NOT the code: the local wall clock labelled "Z". *)
Definition write_expiry_local_as_z (zone : Z) (e : Z) : stamp := (e / ns_per_s + zone, 0).

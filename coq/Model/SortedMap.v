(** Model of aghalg.SortedMap (internal/aghalg/sortedmap.go) AS THE GO CODE
    IMPLEMENTS IT (C04, round 4): a slice of keys kept in [cmp] order next to a
    Go map from keys to values.  No proofs here.

      type SortedMap[K comparable, V any] struct {
          vals map[K]V; cmp func(a, b K) int; keys []K }

      Set    m.vals[key] = val; i, has := slices.BinarySearchFunc(keys, key, cmp);
             has: keys[i] = key, else keys = slices.Insert(keys, i, key)
      Get    m.vals[key]
      Del    absent from vals: nothing; else delete(vals, key);
             i, _ := BinarySearchFunc(...); keys = slices.Delete(keys, i, i+1)
      Clear  keys = nil; clear(vals)
      Range  for _, k := range keys { if !cb(k, vals[k]) { return } }

    The Go map is an association list read through [vget] (first binding;
    [vset] / [vdel] remove every older binding, as ClientIndex's [al_set] /
    [al_del] do).  The binary search is slices.BinarySearchFunc statement by
    statement ([bs_loop]: i, j := 0, n; h := (i+j)>>1; cmp(x[h], target) < 0 ?
    i = h+1 : j = h), with explicit fuel and its own out-of-fuel outcome.
    Nothing in this file assumes that the key slice is sorted or free of
    duplicates: on a slice that is not, the functions compute what the Go code
    computes on it (the search lands where the probes lead it, Del removes ONE
    position, Range visits every position and reads the zero value for a key
    that the map no longer holds).  That the slice IS strictly sorted after
    every sequence of operations is a theorem (Proofs/SortedMap.v). *)
From Coq Require Import ZArith.
From AGH Require Import Base.Run.

Section SortedMap.
  Context {K V : Type}.
  Variable cmp : K -> K -> comparison.   (* m.cmp: Lt negative, Eq zero, Gt positive *)
  Variable keq : K -> K -> bool.         (* == of the comparable key type *)
  Variable zero : V.                     (* the zero value of V *)

  Record smap := { sm_keys : list K; sm_vals : list (K * V) }.

  (** NewSortedMap *)
  Definition smap_new : smap := {| sm_keys := []; sm_vals := [] |}.

  (** * The Go map [vals] *)
  Fixpoint vget (k : K) (m : list (K * V)) : option V :=
    match m with
    | [] => None
    | (k', v) :: m' => if keq k k' then Some v else vget k m'
    end.
  Definition vdel (k : K) (m : list (K * V)) : list (K * V) :=
    filter (fun p => negb (keq k (fst p))) m.
  Definition vset (k : K) (v : V) (m : list (K * V)) : list (K * V) := (k, v) :: vdel k m.
  (** vals[k] in an expression: the zero value when absent *)
  Definition vgetd (k : K) (m : list (K * V)) : V :=
    match vget k m with Some v => v | None => zero end.

  (** * slices.BinarySearchFunc

      [None]: out of fuel (never, [bsearch_total]) or an index outside the
      slice (Go would panic; never, h < j <= n). *)
  Fixpoint bs_loop (fuel : nat) (keys : list K) (t : K) (i j : nat) : option nat :=
    if Nat.ltb i j then
      match fuel with
      | O => None
      | S f =>
          let h := Nat.div2 (i + j) in
          match nth_error keys h with
          | None => None
          | Some x =>
              match cmp x t with
              | Lt => bs_loop f keys t (S h) j
              | _ => bs_loop f keys t i h
              end
          end
      end
    else Some i.

  (** [return i, i < n && cmp(x[i], target) == 0] *)
  Definition bsearch (keys : list K) (t : K) : option (nat * bool) :=
    match bs_loop (S (length keys)) keys t 0 (length keys) with
    | None => None
    | Some i =>
        Some (i, match nth_error keys i with
                 | Some x => match cmp x t with Eq => true | _ => false end
                 | None => false
                 end)
    end.

  (** slices.Insert(s, i, k); s[i] = k; slices.Delete(s, i, i+1) *)
  Definition insert_at (i : nat) (k : K) (l : list K) : list K := firstn i l ++ k :: skipn i l.
  Definition replace_at (i : nat) (k : K) (l : list K) : list K := firstn i l ++ k :: skipn (S i) l.
  Definition delete_at (i : nat) (l : list K) : list K := firstn i l ++ skipn (S i) l.

  (** Outcome of a mutating call: the new map, a Go panic (slices.Delete with
      i+1 beyond the slice), or the model's search running out of fuel. *)
  Inductive sres := SOk (m : smap) | SPanic | SFuel.

  (** Set *)
  Definition smap_set (k : K) (v : V) (m : smap) : sres :=
    let vals := vset k v (sm_vals m) in
    match bsearch (sm_keys m) k with
    | None => SFuel
    | Some (i, true) => SOk {| sm_keys := replace_at i k (sm_keys m); sm_vals := vals |}
    | Some (i, false) => SOk {| sm_keys := insert_at i k (sm_keys m); sm_vals := vals |}
    end.

  (** Get *)
  Definition smap_get (k : K) (m : smap) : option V := vget k (sm_vals m).

  (** Del *)
  Definition smap_del (k : K) (m : smap) : sres :=
    match vget k (sm_vals m) with
    | None => SOk m
    | Some _ =>
        match bsearch (sm_keys m) k with
        | None => SFuel
        | Some (i, _) =>
            if Nat.ltb i (length (sm_keys m))
            then SOk {| sm_keys := delete_at i (sm_keys m); sm_vals := vdel k (sm_vals m) |}
            else SPanic
        end
    end.

  (** Clear *)
  Definition smap_clear (m : smap) : smap := smap_new.

  (** Range with a callback that threads a state and says whether to go on. *)
  Fixpoint range_keys {A} (cb : K -> V -> A -> A * bool) (vals : list (K * V)) (keys : list K) (acc : A) : A :=
    match keys with
    | [] => acc
    | k :: keys' =>
        match cb k (vgetd k vals) acc with
        | (acc', true) => range_keys cb vals keys' acc'
        | (acc', false) => acc'
        end
    end.
  Definition smap_range {A} (cb : K -> V -> A -> A * bool) (m : smap) (acc : A) : A :=
    range_keys cb (sm_vals m) (sm_keys m) acc.

  (** Everything a callback that never stops is shown, in order. *)
  Definition smap_all (m : smap) : list (K * V) :=
    map (fun k => (k, vgetd k (sm_vals m))) (sm_keys m).

  (** * Sequences of calls *)
  Inductive smop := MSet (k : K) (v : V) | MDel (k : K) | MClear.

  Definition smap_step (m : smap) (o : smop) : sres :=
    match o with
    | MSet k v => smap_set k v m
    | MDel k => smap_del k m
    | MClear => SOk (smap_clear m)
    end.

  Fixpoint smap_run (ops : list smop) (m : smap) : sres :=
    match ops with
    | [] => SOk m
    | o :: ops' =>
        match smap_step m o with
        | SOk m' => smap_run ops' m'
        | r => r
        end
    end.
End SortedMap.

Arguments smap : clear implicits.
Arguments sres : clear implicits.
Arguments smop : clear implicits.

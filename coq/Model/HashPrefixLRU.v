(** C19, round 4: the cache of the Checker as the library implements it, and
    histories in which the lookup service's database changes.  No proofs here.

    github.com/AdguardTeam/golibs v0.32.8, cache/data.go + list.go, as
    configured by [hashprefix.New]: [EnableLRU = true], [MaxSize =
    Config.CacheSize] (0 becomes the largest uint), [MaxCount] unlimited,
    [MaxElementSize = MaxSize], no [OnDelete].

    The cache is the usage list, least recently used element first (the list
    between the two sentinels of [cache.usage]), each element with its key and
    value ([items] is the index of that list by key), and the byte counter
    [cache.size].  A value is modelled decoded ([citem]; its bytes are
    [encode_item], Model/HashPrefixBytes.v), so the size of an element is
    [entry_bytes] = len(key) + 8 + 32 * hashes. *)
From Coq Require Import ZArith NArith List Bool.
From AGH Require Import Base.Run Base.Bytes Model.HashPrefix Model.HashPrefixBytes.
Import ListNotations.
Local Open Scope Z_scope.

Record lru := { l_size : Z; l_items : cache }.

Definition lru_empty : lru := {| l_size := 0; l_items := [] |}.

(** [newCache]: [MaxSize == 0] becomes [maxUint] (64-bit). *)
Definition max_uint : Z := 18446744073709551615.
Definition eff_max (max : Z) : Z := if max =? 0 then max_uint else max.

(** [Get]: the element is unlinked and appended at the hot end. *)
Definition lru_get (p : prefix) (l : lru) : lru * option citem :=
  match cget p (l_items l) with
  | Some it => ({| l_size := l_size l; l_items := cdel p (l_items l) ++ [(p, it)] |}, Some it)
  | None => (l, None)
  end.

(** [Del] *)
Definition lru_del (p : prefix) (l : lru) : lru :=
  match cget p (l_items l) with
  | Some it => {| l_size := l_size l - entry_bytes p it; l_items := cdel p (l_items l) |}
  | None => l
  end.

(** The [for] loop of [Set]: while the new element does not fit beside what is
    there ([c.size+addSize > c.conf.MaxSize]; an element with the same key is
    still counted), the first element of the usage list is deleted.  Returns
    the counter, the list and the keys deleted, in that order.  (On an empty
    list the Go loop would follow the sentinel; with [size] = the sum of the
    elements and [add <= max] its condition is false there:
    Proofs/HashPrefixLRU.v, [lru_evict_stops].) *)
Fixpoint lru_evict (emax add size : Z) (items : cache) : Z * cache * list prefix :=
  match items with
  | [] => (size, [], [])
  | (k, v) :: r =>
      if size + add >? emax then
        let '(s', items', ev) := lru_evict emax add (size - entry_bytes k v) r in
        (s', items', k :: ev)
      else (size, items, [])
  end.

(** [Set] on a cache of [max] bytes.  The event says what it did in the terms
    of Model/HashPrefix.v ([set_ev]: keys deleted, element kept). *)
Definition lru_set (max : Z) (p : prefix) (it : citem) (l : lru) : lru * set_ev :=
  let add := entry_bytes p it in
  let emax := eff_max max in
  if add >? emax then (l, ([], false))      (* "too large data" *)
  else
    let '(size1, items1, ev) := lru_evict emax add (l_size l) (l_items l) in
    (* the new element is appended at the hot end; one with the same key is
       unlinked and no longer counted *)
    let size2 := match cget p items1 with
                 | Some old => size1 - entry_bytes p old
                 | None => size1
                 end in
    ({| l_size := size2 + add; l_items := cdel p items1 ++ [(p, it)] |}, (ev, true)).

(** ** [findInCache] / [storeInCache] / [Check] on that cache

    The same code as [fic_loop], [store_pos], [store_neg], [check] of
    Model/HashPrefix.v with every [c.cache.Get] and [c.cache.Set] as the
    library does it; what each [Set] deleted is computed, not given. *)
Fixpoint fic_loop_lru (now : Z) (n idx : nat) (arr : list hash) (i : nat) (l : lru)
    : lru * find_res :=
  match n with
  | O => (l, if Nat.eqb i 0 then FoundClean else ToRequest (firstn i arr))
  | S n' =>
      let h := nth idx arr [] in
      let '(l1, r) := lru_get (prefix_of h) l in
      match r with
      | None => fic_loop_lru now n' (S idx) (upd i h arr) (S i) l1
      | Some it =>
          if expired now it then fic_loop_lru now n' (S idx) (upd i h arr) (S i) l1
          else if find_match arr (c_hashes it) then (l1, FoundBlocked)
          else fic_loop_lru now n' (S idx) arr i l1
      end
  end.
Definition find_in_cache_lru (now : Z) (hashes : list hash) (l : lru) : lru * find_res :=
  fic_loop_lru now (length hashes) 0 hashes 0 l.

Fixpoint store_pos_lru (max exp : Z) (resp : list hash) (ps : list prefix) (l : lru)
    : lru * list set_ev :=
  match ps with
  | [] => (l, [])
  | p :: r =>
      let '(l1, e) := lru_set max p {| c_expiry := exp;
                                       c_hashes := filter (fun h => eqb_bytes (prefix_of h) p) resp |} l in
      let '(l2, es) := store_pos_lru max exp resp r l1 in
      (l2, e :: es)
  end.

(** The second loop: [c.cache.Get] is called for every requested hash (and
    refreshes the element's position) before the decision. *)
Fixpoint store_neg_lru (max exp : Z) (keys : list prefix) (to_req : list hash) (l : lru)
    : lru * list set_ev :=
  match to_req with
  | [] => (l, [])
  | h :: r =>
      let p := prefix_of h in
      let '(l1, v) := lru_get p l in
      match v with
      | None =>
          if mem_hash p keys then store_neg_lru max exp keys r l1
          else let '(l2, e) := lru_set max p {| c_expiry := exp; c_hashes := [] |} l1 in
               let '(l3, es) := store_neg_lru max exp keys r l2 in
               (l3, e :: es)
      | Some _ => store_neg_lru max exp keys r l1
      end
  end.

Definition store_in_cache_lru (max exp : Z) (to_req resp : list hash) (order : list prefix)
    (l : lru) : lru * list set_ev :=
  let keys := dedup (map prefix_of resp) in
  let '(l1, es1) := store_pos_lru max exp resp (filter (fun p => mem_hash p keys) order) l in
  let '(l2, es2) := store_neg_lru max exp keys to_req l1 in
  (l2, es1 ++ es2).

Section LRU.
  Variable sha : bytes -> hash.
  Variable pubsuf : bytes -> bytes * bool.
  Variable suffix : bytes.
  Variable cache_time : Z.
  Variable max : Z.                               (* Config.CacheSize *)

  (** [Checker.Check]; also returns what every [Set] it made did. *)
  Definition check_lru (svc : list prefix -> option (list bytes)) (order : list prefix)
      (now : Z) (host : bytes) (l : lru) : lru * check_out * list set_ev :=
    let hashes := hostname_to_hashes sha pubsuf host in
    let '(l0, fr) := find_in_cache_lru now hashes l in
    match fr with
    | FoundBlocked => (l0, {| o_blocked := true; o_err := false; o_question := None;
                              o_sets_left := 0 |}, [])
    | FoundClean => (l0, {| o_blocked := false; o_err := false; o_question := None;
                            o_sets_left := 0 |}, [])
    | ToRequest hs =>
        let q := question suffix hs in
        match svc (map prefix_of hs) with
        | None => (l0, {| o_blocked := false; o_err := true; o_question := Some q;
                          o_sets_left := 0 |}, [])
        | Some strs =>
            let received := parse_txt strs in
            let matched := find_match hs received in
            let '(l', es) :=
              store_in_cache_lru max ((now + cache_time) / ns_sec)%Z hs received order l0 in
            (l', {| o_blocked := matched; o_err := false; o_question := Some q;
                    o_sets_left := 0 |}, es)
        end
    end.

  (** One step of a history; the [evs] of an [OCheck] are not read. *)
  Definition step_lru (o : op) (st : Z * lru) : (Z * lru) * option check_out * list set_ev :=
    let '(now, l) := st in
    match o with
    | OCheck host svc order _ =>
        let '(l', out, es) := check_lru svc order now host l in ((now, l'), Some out, es)
    | OAdvance d => ((now + d)%Z, l, None, [])
    | OEvict ps => ((now, fold_left (fun l p => lru_del p l) ps l), None, [])
    end.

  Fixpoint run_lru (ops : list op) (st : Z * lru)
      : list ((Z * lru) * option check_out * list set_ev) :=
    match ops with
    | [] => []
    | o :: r => let res := step_lru o st in res :: run_lru r (fst (fst res))
    end.

  (** The same history for the map model of Model/HashPrefix.v: every check
      gets the events the library cache produces at that point. *)
  Fixpoint with_lru_events (ops : list op) (st : Z * lru) : list op :=
    match ops with
    | [] => []
    | o :: r =>
        let res := step_lru o st in
        match o with
        | OCheck host svc order _ => OCheck host svc order (snd res)
        | _ => o
        end :: with_lru_events r (fst (fst res))
    end.
End LRU.

(** ** Histories with a changing database

    The database of the lookup service is part of the state: [HDb db'] replaces
    it (adding and removing full hashes are instances).  A check's service is
    still a parameter of the check (it may fail, add malformed strings); the
    theorems ask it to be a service for the database as it is then. *)
Inductive hop :=
  | HOp (o : op)
  | HDb (db' : list hash).

Section Hist.
  Variable sha : bytes -> hash.
  Variable pubsuf : bytes -> bytes * bool.
  Variable suffix : bytes.
  Variable cache_time : Z.

  Definition hstep (o : hop) (st : list hash * (Z * cache))
      : (list hash * (Z * cache)) * option check_out :=
    match o with
    | HOp o' => let res := step sha pubsuf suffix cache_time o' (snd st) in
                ((fst st, fst res), snd res)
    | HDb db' => ((db', snd st), None)
    end.

  Fixpoint hrun (ops : list hop) (st : list hash * (Z * cache))
      : list ((list hash * (Z * cache)) * option check_out) :=
    match ops with
    | [] => []
    | o :: r => let res := hstep o st in res :: hrun r (fst res)
    end.

  (** ... and on the library cache. *)
  Variable max : Z.

  Definition hstep_lru (o : hop) (st : list hash * (Z * lru))
      : (list hash * (Z * lru)) * option check_out * list set_ev :=
    match o with
    | HOp o' => let res := step_lru sha pubsuf suffix cache_time max o' (snd st) in
                ((fst st, fst (fst res)), snd (fst res), snd res)
    | HDb db' => ((db', snd st), None, [])
    end.

  Fixpoint hrun_lru (ops : list hop) (st : list hash * (Z * lru))
      : list ((list hash * (Z * lru)) * option check_out * list set_ev) :=
    match ops with
    | [] => []
    | o :: r => let res := hstep_lru o st in res :: hrun_lru r (fst (fst res))
    end.
End Hist.

(** [a] with the hashes [del] removed and [add] added: what the harness does
    to the scripted service between two checks. *)
Definition db_change (add del : list hash) (db : list hash) : list hash :=
  filter (fun h => negb (mem_hash h del)) db ++ add.

(** C19, round 3: what the Checker hands to the golibs cache, in bytes
    (internal/filtering/hashprefix/cache.go: fromCacheItem, toCacheItem, the
    2-byte key).  The golibs cache is configured with a size in bytes
    ([Config.CacheSize] -> [cache.Config.MaxSize]) and counts
    [len(key) + len(value)] per element.  No proofs here. *)
From Coq Require Import ZArith NArith List Bool.
From AGH Require Import Base.Run Base.Bytes Model.HashPrefix.
Import ListNotations.

Definition expiry_size : nat := 8.
Definition hash_size : nat := 32.

(** [binary.BigEndian.AppendUint64(data, uint64(z))]: [n] bytes, most
    significant first, of [z] modulo [256^n]. *)
Fixpoint be_bytes (n : nat) (z : Z) : bytes :=
  match n with
  | O => []
  | S n' => be_bytes n' (z / 256) ++ [Z.to_N (z mod 256)]
  end.

(** [binary.BigEndian.Uint64] *)
Definition be_value (bs : bytes) : Z := fold_left (fun a b => (a * 256 + Z.of_N b)%Z) bs 0%Z.

(** [fromCacheItem] *)
Definition encode_item (it : citem) : bytes :=
  be_bytes expiry_size (c_expiry it) ++ concat (c_hashes it).

(** The loop of [toCacheItem]: consecutive slices of 32 bytes ([fuel] = the
    length of the data is enough). *)
Fixpoint chunks (fuel : nat) (data : bytes) : list hash :=
  match fuel, data with
  | O, _ => []
  | _, [] => []
  | S f, _ => firstn hash_size data :: chunks f (skipn hash_size data)
  end.

(** [toCacheItem] ([int64(uint64)] for expiries below 2^63). *)
Definition decode_item (data : bytes) : citem :=
  {| c_expiry := be_value (firstn expiry_size data);
     c_hashes := chunks (length data) (skipn expiry_size data) |}.

(** Bytes of a stored value, of an element, of the whole cache, as the golibs
    cache counts them. *)
Definition item_bytes (it : citem) : Z := 8 + 32 * Z.of_nat (length (c_hashes it)).
Definition entry_bytes (p : prefix) (it : citem) : Z := Z.of_nat (length p) + item_bytes it.
Definition cache_bytes (c : cache) : Z :=
  fold_right (fun e a => (entry_bytes (fst e) (snd e) + a)%Z) 0%Z c.

(** One [Set] of a cache of [max] bytes (0 = unlimited) as the golibs cache
    does it: an element larger than the cache is refused; otherwise elements
    are deleted until the new one fits beside what is left (the element it
    replaces still counted), then it is stored.  [set_fits] is that condition
    on an observed event: which elements go is the event's. *)
Definition set_fits (max : Z) (e : set_ev) (p : prefix) (it : citem) (c : cache) : bool :=
  if (max =? 0)%Z then snd e
  else
    let c1 := fold_left (fun c q => cdel q c) (fst e) c in
    if (entry_bytes p it >? max)%Z then negb (snd e)
    else snd e && (cache_bytes c1 + entry_bytes p it <=? max)%Z.

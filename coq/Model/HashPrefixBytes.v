(** C19, round 3: what the Checker hands to the golibs cache, in bytes
    (internal/filtering/hashprefix/cache.go: fromCacheItem, toCacheItem, the
    2-byte key).  The golibs cache is configured with a size in bytes
    ([Config.CacheSize] -> [cache.Config.MaxSize]) and counts
    [len(key) + len(value)] per element.  No proofs here. *)
From Coq Require Import ZArith NArith List Bool.
From AGH Require Import Base.Run Base.Bytes Model.HashPrefix.
Import ListNotations.

Definition expiry_size : nat := 8.
Definition hash_size : nat := 32.

(** [binary.BigEndian.AppendUint64(data, uint64(z))]: [n] bytes, most
    significant first, of [z] modulo [256^n]. *)
Fixpoint be_bytes (n : nat) (z : Z) : bytes :=
  match n with
  | O => []
  | S n' => be_bytes n' (z / 256) ++ [Z.to_N (z mod 256)]
  end.

(** [binary.BigEndian.Uint64] *)
Definition be_value (bs : bytes) : Z := fold_left (fun a b => (a * 256 + Z.of_N b)%Z) bs 0%Z.

(** [fromCacheItem] *)
Definition encode_item (it : citem) : bytes :=
  be_bytes expiry_size (c_expiry it) ++ concat (c_hashes it).

(** The loop of [toCacheItem]: consecutive slices of 32 bytes ([fuel] = the
    length of the data is enough). *)
Fixpoint chunks (fuel : nat) (data : bytes) : list hash :=
  match fuel, data with
  | O, _ => []
  | _, [] => []
  | S f, _ => firstn hash_size data :: chunks f (skipn hash_size data)
  end.

(** [toCacheItem] ([int64(uint64)] for expiries below 2^63). *)
Definition decode_item (data : bytes) : citem :=
  {| c_expiry := be_value (firstn expiry_size data);
     c_hashes := chunks (length data) (skipn expiry_size data) |}.

(** Bytes of a stored value, of an element, of the whole cache, as the golibs
    cache counts them. *)
Definition item_bytes (it : citem) : Z := 8 + 32 * Z.of_nat (length (c_hashes it)).
Definition entry_bytes (p : prefix) (it : citem) : Z := Z.of_nat (length p) + item_bytes it.
Definition cache_bytes (c : cache) : Z :=
  fold_right (fun e a => (entry_bytes (fst e) (snd e) + a)%Z) 0%Z c.

Definition evict (ps : list prefix) (c : cache) : cache := fold_left (fun c q => cdel q c) ps c.

(** One [Set] of a cache of [max] bytes (0 = unlimited) as the golibs cache
    does it: an element larger than the cache is refused and nothing is
    deleted; otherwise elements are deleted as long as the new one does not
    fit beside what is left (the element it replaces still counted), then it
    is stored.  [set_fits] is that condition on an observed event: the element
    is kept iff it is not larger than the cache, the deletions make it fit, and
    without the last deletion it did not fit.  WHICH elements go (the LRU
    order) is the event's. *)
Definition set_fits (max : Z) (e : set_ev) (p : prefix) (it : citem) (c : cache) : bool :=
  let nodel := match fst e with [] => true | _ => false end in
  let eb := entry_bytes p it in
  if (max =? 0)%Z then snd e && nodel
  else if (eb >? max)%Z then negb (snd e) && nodel
  else snd e && (cache_bytes (evict (fst e) c) + eb <=? max)%Z
       && (nodel || negb (cache_bytes (evict (removelast (fst e)) c) + eb <=? max)%Z).

(** The same traversal as [store_pos] / [store_neg] / [store_in_cache] /
    [check], asking [set_fits] of every [Set] on the cache as it is then. *)
Fixpoint store_pos_fits (max exp : Z) (resp : list hash) (ps : list prefix) (evs : list set_ev)
    (c : cache) : bool :=
  match ps with
  | [] => true
  | p :: r =>
      let '(e, evs') := pop evs in
      let it := {| c_expiry := exp; c_hashes := filter (fun h => eqb_bytes (prefix_of h) p) resp |} in
      set_fits max e p it c && store_pos_fits max exp resp r evs' (cset_o e p it c)
  end.

Fixpoint store_neg_fits (max exp : Z) (keys : list prefix) (to_req : list hash) (evs : list set_ev)
    (c : cache) : bool :=
  match to_req with
  | [] => true
  | h :: r =>
      let p := prefix_of h in
      match cget p c with
      | None =>
          if mem_hash p keys then store_neg_fits max exp keys r evs c
          else let '(e, evs') := pop evs in
               let it := {| c_expiry := exp; c_hashes := [] |} in
               set_fits max e p it c && store_neg_fits max exp keys r evs' (cset_o e p it c)
      | Some _ => store_neg_fits max exp keys r evs c
      end
  end.

Definition store_fits (max exp : Z) (to_req resp : list hash) (order : list prefix)
    (evs : list set_ev) (c : cache) : bool :=
  let keys := dedup (map prefix_of resp) in
  let ps := filter (fun p => mem_hash p keys) order in
  store_pos_fits max exp resp ps evs c &&
  let '(c1, evs1) := store_pos exp resp ps evs c in
  store_neg_fits max exp keys to_req evs1 c1.

Section Fits.
  Variable sha : bytes -> hash.
  Variable pubsuf : bytes -> bytes * bool.
  Variable suffix : bytes.
  Variable cache_time : Z.
  Variable max : Z.

  Definition check_fits (svc : list prefix -> option (list bytes)) (order : list prefix)
      (evs : list set_ev) (now : Z) (host : bytes) (c : cache) : bool :=
    match find_in_cache now c (hostname_to_hashes sha pubsuf host) with
    | ToRequest hs =>
        match svc (map prefix_of hs) with
        | Some strs =>
            store_fits max ((now + cache_time) / ns_sec)%Z hs (parse_txt strs) order evs c
        | None => true
        end
    | _ => true
    end.

  Fixpoint run_fits (ops : list op) (st : Z * cache) : bool :=
    match ops with
    | [] => true
    | o :: r =>
        match o with
        | OCheck host svc order evs => check_fits svc order evs (fst st) host (snd st)
        | _ => true
        end && run_fits r (fst (step sha pubsuf suffix cache_time o st))
    end.
End Fits.

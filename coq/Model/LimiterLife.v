(** The limiter over the life of an installation (C12, round 8).  No proofs.

    [InitAuth] stores the limiter [initUsers] built in the [Auth] object it
    creates, whatever the user list it is given; nothing writes
    [Auth.rateLimiter] afterwards.  On a fresh installation the object is
    created with NO users (first run) and the install wizard adds the first
    account to the SAME object ([handleInstallConfigure] -> [Auth.addUser]):
    the limiter of that object is the one decided at boot.  [keep_empty] says
    whether an object created without users keeps the limiter ([true]: the
    code; [false]: seeded change C12-O).

    The life histories are C11's ([Model/AuthLife.v]: boot from no file / from
    a file, configure, write, stop); [limiter_life] follows the limiter of the
    running process along such a history. *)
From AGH Require Import Base.Run Model.RateLimit Model.Session Model.AuthHttp Model.AuthLife.

(** [InitAuth(.., users, .., rateLimiter, ..)] as far as the limiter goes. *)
Definition init_limiter (keep_empty : bool) (cfg : auth_cfg) (users_present : bool) : option rl_conf :=
  if keep_empty || users_present then mk_limiter cfg else None.

Section LimLife.
Variable ul : list account -> list account.
Variable k : boot_code.
Variable keep_empty : bool.
Variable cfg : auth_cfg.

(** One operation: the installation and the limiter of the running process
    ([None] also when nothing runs). *)
Definition lim_step (sl : life * option rl_conf) (o : op) : life * option rl_conf :=
  let '(st, lim) := sl in
  let st' := step ul k st o in
  let lim' :=
    match o with
    | OBoot _ _ =>
        match l_proc st, l_proc st' with
        | None, Some p =>
            (* this boot created the process: initUsers ran with the users the process now has *)
            if proc_auth_present p then init_limiter keep_empty cfg (non_empty (proc_users p)) else None
        | _, _ => lim
        end
    | OStop => None
    | _ => lim          (* configure (addUser), write: Auth.rateLimiter is not touched *)
    end in
  (st', lim').

Definition limiter_life (st : life) (ops : list op) : life * option rl_conf :=
  fold_left lim_step ops (st, None).
End LimLife.

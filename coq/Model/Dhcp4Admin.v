(** Executable model of the DHCP service object of internal/dhcpd
    ([server] in dhcpd.go: srv4, conf with dbFilePath) and of the HTTP admin
    operations that replace the DHCPv4 server or the configuration
    (http_unix.go: handleReset, handleDHCPSetConfig, handleResetLeases,
    handleDHCPStatus; the static-lease handlers end in the methods modelled in
    Model/Dhcp4.v), with the lease files as a map from paths to contents.
    As the code is now.  No proofs here.

    The lease table and the handlers of messages are those of Model/Dhcp4.v;
    a [world] carries, beside the table, the service's private configuration
    ([sconf]: Enabled, DataDir, dbFilePath), the configuration of srv4
    ([None]: the server is unconfigured, as after a reset or a Create without
    a usable DHCPv4 section), every lease file by path, and the DHCP section
    of the configuration file as the service last wrote it (WriteDiskConfig,
    called by the owner of the configuration file on ConfigModified), which is
    what the next process start reads.

    A file that does not exist and a file that lists no lease are the same
    content [[]]: dbLoad returns without touching the (fresh, empty) servers
    when the file is absent. *)
From Coq Require Import List ZArith NArith Bool.
From AGH Require Import Base.Run Model.Dhcp4.
Import ListNotations.
Local Open Scope N_scope.

Definition path := bytes.
Definition files := path -> list lease.

(** dataFilename = "leases.json" *)
Definition data_filename : bytes := [108; 101; 97; 115; 101; 115; 46; 106; 115; 111; 110].

(** filepath.Join(dir, name) for a clean directory name without a trailing
    separator: the empty directory gives the bare (relative) name. *)
Definition join_path (dir name : bytes) : path :=
  if is_nil dir then name else dir ++ 47 :: name.

(** The fields of the service's private ServerConfig that matter here. *)
Record sconf := SConf {
  sc_enabled : bool;
  sc_data_dir : bytes;   (* DataDir *)
  sc_db_path : path      (* dbFilePath *)
}.

(** The DHCP section of the configuration file: the DHCPv4 settings ([None]:
    none that Validate accepts) and the enabled flag. *)
Definition yaml : Type := option conf * bool.

Record world := World {
  w_sc : sconf;
  w_v4 : option conf;
  w_leases : list lease;
  w_ix : index;
  w_fs : files;
  w_yaml : yaml
}.

(** The table of Model/Dhcp4.v as the DHCPv4 server sees it: its [disk] is
    the file at the service's database path. *)
Definition st_of (w : world) : state :=
  State (w_leases w) (w_ix w) (w_fs w (sc_db_path (w_sc w))).

(** Back: the table, and the file at the database path (writeDB). *)
Definition put_st (w : world) (s : state) : world :=
  World (w_sc w) (w_v4 w) (leases s) (ix s)
        (hupd (w_fs w) (sc_db_path (w_sc w)) (disk s)) (w_yaml w).

(** Create for a process whose data directory is [dir], with the DHCP section
    [y] of the configuration file: the private configuration gets dbFilePath
    = Join(DataDir, dataFilename) and NOT DataDir itself; srv4 is configured
    when Validate accepts the settings; the table is loaded from the file. *)
(** The DHCPv4 settings of the configuration file, when Validate accepts them. *)
Definition yaml_conf (y : yaml) : option conf :=
  match fst y with
  | Some c => if valid_conf_b c then Some c else None
  | None => None
  end.

Definition create (dir : bytes) (y : yaml) (fs : files) : world :=
  let p := join_path dir data_filename in
  let sc := SConf (snd y) [] p in
  match yaml_conf y with
  | Some c => let s := load c (fs p) in World sc (Some c) (leases s) (ix s) fs y
  | None => World sc None [] empty_index fs y
  end.

(** handleReset: the file at dbFilePath is removed; the private
    configuration is rebuilt keeping ConfigModified, HTTPRegister,
    LocalDomainName, DataDir and dbFilePath (Enabled, InterfaceName, Conf4,
    Conf6 fall back to their zero values); srv4 becomes a new server created
    from settings without addresses, which Validate rejects: unconfigured,
    empty table.  ConfigModified: the configuration file gets Enabled = false;
    WriteDiskConfig4 of an unconfigured server leaves the DHCPv4 section as
    it was. *)
Definition reset (w : world) : world :=
  let sc := w_sc w in
  World (SConf false (sc_data_dir sc) (sc_db_path sc))
        None [] empty_index
        (hupd (w_fs w) (sc_db_path sc) [])
        (fst (w_yaml w), false).

(** handleDHCPSetConfig with "enabled": false and DHCPv4 settings [c']:
    rejected (nothing changes) when Validate rejects them; otherwise srv4 is
    a new, empty server with these settings, the configuration file is
    written, and the table is loaded from the file at dbFilePath. *)
Definition wset_config (c' : conf) (w : world) : world * bool :=
  if valid_conf_b c' then
    let sc := w_sc w in
    let s := load c' (w_fs w (sc_db_path sc)) in
    (World (SConf false (sc_data_dir sc) (sc_db_path sc)) (Some c') (leases s) (ix s)
           (w_fs w) (Some c', false), true)
  else (w, false).

(** handleResetLeases: srv4.ResetLeases(nil) (which does nothing on an
    unconfigured server), then dbStore. *)
Definition wreset_leases (w : world) : world :=
  match w_v4 w with
  | Some _ => put_st w (store (State [] empty_index []))
  | None => put_st w (store (st_of w))
  end.

Inductive wop :=
  | WOp (o : op)      (* a message, a static-lease request, time; not ORestart *)
  | WRestart          (* the process is started again *)
  | WSetConfig (c' : conf)
  | WReset
  | WResetLeases
  | WStatus.          (* GET /control/dhcp/status: changes nothing *)

Definition is_static_op (o : op) : bool :=
  match o with OStaticAdd _ _ _ | OStaticUpdate _ _ _ | OStaticRemove _ _ _ => true | _ => false end.

(** One operation on the service of a process with data directory [dir].
    On an unconfigured server the static-lease requests are refused
    (ErrUnconfigured; UpdateStaticLease finds no lease) and no message is
    ever handled (the server has no socket: Start returns at once). *)
Definition wstep (dir : bytes) (w : world) (now : Z) (busy : list N) (o : wop) : world * reply :=
  match o with
  | WOp ORestart | WRestart => (create dir (w_yaml w) (w_fs w), RNone)
  | WOp o =>
      match w_v4 w with
      | Some c => let '(s', r) := step c (st_of w) now busy o in (put_st w s', r)
      | None => (w, if is_static_op o then RApi false
                    else match o with OTick => RNone | _ => RDrop end)
      end
  | WSetConfig c' => let '(w', ok) := wset_config c' w in (w', RApi ok)
  | WReset => (reset w, RApi true)
  | WResetLeases => (wreset_leases w, RApi true)
  | WStatus => (w, RNone)
  end.

Definition wevent : Type := Z * list N * wop.

Definition wrun (dir : bytes) (h : list wevent) (w : world) : world :=
  fold_left (fun w (p : wevent) => fst (wstep dir w (fst (fst p)) (snd (fst p)) (snd p))) h w.

(** What GET /control/dhcp/status reports of the configuration: enabled, and
    the pool of srv4 (0, 0 when it is unconfigured). *)
Definition status (w : world) : bool * N * N :=
  match w_v4 w with
  | Some c => (sc_enabled (w_sc w), c_start c, c_end c)
  | None => (sc_enabled (w_sc w), 0, 0)
  end.

(** The lease file of the data directory: what the next process start loads. *)
Definition data_file (dir : bytes) (w : world) : list lease :=
  w_fs w (join_path dir data_filename).

(** The life cycle of the access settings across persistence and restart
    (internal/dnsforward/access.go validateAccessSet, handleAccessSet,
    handleAccessList; config.go configModified, initDefaultSettings;
    dnsforward.go WriteDiskConfig, Prepare).  The order of the steps inside
    handleAccessSet is the order of the Go code as it is now.  No proofs
    here. *)
From Coq Require Import List NArith Bool.
From AGH Require Import Base.Run Base.NetAddr Base.RuleEngine Model.Access.
From AGH Require Base.Dom.
Import ListNotations.
Local Open Scope N_scope.

(** One client string of the API / the configuration file, with what
    netip.ParseAddr and netip.ParsePrefix make of it (trusted; the harness
    supplies it). *)
Inductive parsed := PAddr (a : addr) | PPrefix (p : prefix) | POther.
Record cstr := mkCStr { cs_text : bytes; cs_parsed : parsed }.

(** One blocked-host line with the rule urlfilter parses from it. *)
Record hline := mkHLine { hl_text : bytes; hl_rule : rule }.

(** The three lists of accessListJSON / Config.AllowedClients,
    DisallowedClients, BlockedHosts. *)
Record lists := mkLists {
  ls_allowed : list cstr;
  ls_blocked : list cstr;
  ls_hosts : list hline
}.

(** processAccessClients on one string: address, else CIDR, else a valid
    ClientID (netutil.ValidateHostnameLabel), else an error. *)
Definition classify (c : cstr) : option entry :=
  match cs_parsed c with
  | PAddr a => Some (EIP a)
  | PPrefix p => Some (ENet p)
  | POther =>
      match Base.Dom.validate_hostname_label (cs_text c) with
      | None => Some (ECid (cs_text c))
      | Some _ => None
      end
  end.

Fixpoint classify_all (l : list cstr) : option (list entry) :=
  match l with
  | [] => Some []
  | c :: r =>
      match classify c with
      | None => None
      | Some e => match classify_all r with None => None | Some es => Some (e :: es) end
      end
  end.

Inductive set_result :=
  | SetOK
  | ErrDecode          (* the body is not an accessListJSON *)
  | ErrDupAllowed | ErrDupBlocked | ErrDupHosts
  | ErrIntersect
  | ErrBadAllowed | ErrBadBlocked.

(** newAccessCtx on strings (the blocked-host storage of one list cannot
    fail). *)
Definition new_access_ctx (l : lists) : access + set_result :=
  match classify_all (ls_allowed l) with
  | None => inr ErrBadAllowed
  | Some al =>
      match classify_all (ls_blocked l) with
      | None => inr ErrBadBlocked
      | Some bl => inl (new_access al bl (map hl_rule (ls_hosts l)))
      end
  end.

(** aghalg.UniqChecker: the number of times [x] was added. *)
Fixpoint occ (x : bytes) (l : list bytes) : N :=
  match l with
  | [] => 0
  | y :: r => (if eqb_bytes x y then 1 else 0) + occ x r
  end.

(** validateStrUniq: UniqChecker.Validate fails on a count above one. *)
Definition uniq_ok (l : list bytes) : bool := forallb (fun x => occ x l <=? 1) l.

(** allowed.Merge(disallowed).Validate(): the counts are added. *)
Definition merged_ok (a b : list bytes) : bool :=
  forallb (fun x => occ x a + occ x b <=? 1) (a ++ b).

(** validateAccessSet, in the order of its checks; [None] = valid. *)
Definition validate_access_set (l : lists) : option set_result :=
  let al := map cs_text (ls_allowed l) in
  let bl := map cs_text (ls_blocked l) in
  if negb (uniq_ok al) then Some ErrDupAllowed
  else if negb (uniq_ok bl) then Some ErrDupBlocked
  else if negb (uniq_ok (map hl_text (ls_hosts l))) then Some ErrDupHosts
  else if negb (merged_ok al bl) then Some ErrIntersect
  else None.

(** The running server: the three lists of s.conf and the manager in
    s.access. *)
Record server := mkServer { sv_conf : lists; sv_access : access }.

(** The process and its configuration file: [w_disk] is what the
    ConfigModified callback of package home wrote last (it calls
    Server.WriteDiskConfig and writes the result as YAML). *)
Record world := mkWorld { w_srv : server; w_disk : lists }.

(** Server.WriteDiskConfig: a copy of the lists in s.conf. *)
Definition write_disk_config (s : server) : lists := sv_conf s.

(** Server.configModified with home's callback. *)
Definition config_modified (w : world) : world :=
  mkWorld (w_srv w) (write_disk_config (w_srv w)).

(** handleAccessSet.  The callback is deferred: it runs after s.conf's lists
    and s.access have been replaced.  A rejected request returns before the
    defer statement is reached: no callback. *)
Definition handle_access_set (w : world) (body : option lists) : world * set_result :=
  match body with
  | None => (w, ErrDecode)
  | Some l =>
      match validate_access_set l with
      | Some e => (w, e)
      | None =>
          match new_access_ctx l with
          | inr e => (w, e)
          | inl a =>
              let w1 := mkWorld (mkServer l a) (w_disk w) in   (* s.conf.… = list.…; s.access.Store(a) *)
              (config_modified w1, SetOK)                      (* deferred s.configModified() *)
          end
      end
  end.

(** handleAccessList. *)
Definition lists_texts (l : lists) : list bytes * list bytes * list bytes :=
  (map cs_text (ls_allowed l), map cs_text (ls_blocked l), map hl_text (ls_hosts l)).

Definition handle_access_list (w : world) := lists_texts (sv_conf (w_srv w)).

(** defaultBlockedHosts: version.bind, id.server, hostname.bind (bare
    names). *)
Definition bare_host (name : bytes) : hline :=
  mkHLine name (RHost (mkHRule 0 (mkAddr V4 0 []) [name])).

Definition version_bind : bytes := [118;101;114;115;105;111;110;46;98;105;110;100].
Definition id_server : bytes := [105;100;46;115;101;114;118;101;114].
Definition hostname_bind : bytes := [104;111;115;116;110;97;109;101;46;98;105;110;100].

Definition default_blocked_hosts : list hline :=
  [bare_host version_bind; bare_host id_server; bare_host hostname_bind].

(** initDefaultSettings: an empty blocked-hosts list is replaced by the
    default one. *)
Definition init_default_settings (l : lists) : lists :=
  match ls_hosts l with
  | [] => mkLists (ls_allowed l) (ls_blocked l) default_blocked_hosts
  | _ => l
  end.

(** Server.Prepare on the lists read from the file; [None]: "preparing
    access" failed, the server does not come up. *)
Definition prepare (disk : lists) : option server :=
  let conf := init_default_settings disk in
  match new_access_ctx conf with
  | inl a => Some (mkServer conf a)
  | inr _ => None
  end.

(** A restart of the process: a new server is prepared from the file. *)
Definition restart (w : world) : option world :=
  match prepare (w_disk w) with
  | Some s => Some (mkWorld s (w_disk w))
  | None => None
  end.

(** A DNS request through the pre-request hook of the running server. *)
Definition probe (t : tlsconf) (w : world) (x : dnsctx) : before :=
  handle_before_ctx (sv_access (w_srv w)) t x.

(** Histories. *)
Inductive pop :=
  | PSet (body : option lists)   (* POST access/set *)
  | PSave                        (* another settings handler calls configModified *)
  | PRestart
  | PList                        (* GET access/list *)
  | PProbe (x : dnsctx).

Inductive pobs :=
  | QSet (r : set_result)
  | QSave
  | QRestart (up : bool)
  | QList (l : list bytes * list bytes * list bytes)
  | QProbe (b : before).

Definition pstep (t : tlsconf) (w : world) (o : pop) : world * pobs :=
  match o with
  | PSet body => let '(w', r) := handle_access_set w body in (w', QSet r)
  | PSave => (config_modified w, QSave)
  | PRestart =>
      match restart w with
      | Some w' => (w', QRestart true)
      | None => (w, QRestart false)
      end
  | PList => (w, QList (handle_access_list w))
  | PProbe x => (w, QProbe (probe t w x))
  end.

(** Each step is observed together with the file's lists after it. *)
Fixpoint prun (t : tlsconf) (w : world) (ops : list pop)
    : world * list (pobs * (list bytes * list bytes * list bytes)) :=
  match ops with
  | [] => (w, [])
  | o :: rest =>
      let '(w1, ob) := pstep t w o in
      let '(w2, obs) := prun t w1 rest in
      (w2, (ob, lists_texts (w_disk w1)) :: obs)
  end.

(** The process started with the file holding [c0]. *)
Definition boot (c0 : lists) : option world :=
  match prepare c0 with
  | Some s => Some (mkWorld s c0)
  | None => None
  end.

(** The early-exit structure ("guard table") of the functions the pipeline
    model (Model/Pipeline.v) mirrors, written out by hand as the CURRENT source
    has it.  tools/ordertables extracts the same table from the source into
    Gen/PipelineTables.v ([guards]); Proofs/PipelineGuards.v proves the two
    equal, so a guard that is added, dropped, reordered or whose condition /
    returned value changes makes the C01 build fail until the model (and this
    table) have been looked at again.

    Entry format (shared with the generator, plain tuples of strings so that
    this file depends on nothing):
      (kind, path, text, term, sets_res, clauses)
    - kind "if": one arm of an if / else-if chain in which some arm ends in
      return / break / continue; text = "if [INIT; ]COND" | "else if …" |
      "else"; term = the arm's last statement ("return X, Y", "break",
      "continue", "" = falls through); sets_res = the arm assigns to ….Res.
    - kind "switch": text = "switch [INIT; ]TAG"; clauses = per case clause
      (case expressions in order, [] = default; last statement as above;
      sets_res).
    - kind "return": a return that is not the end of a recorded arm / clause.
    - kind "setres": an assignment to ….Res outside every arm and clause.
    path = the enclosing statements, " / "-separated; loops do not count as
    nesting, arms and clauses are entered one level deep.
    Each entry carries a comment naming the definition / branch of
    Model/Pipeline.v it corresponds to.  This file does not import
    Model/Pipeline.v.  No proofs here. *)
From Coq Require Import List String Bool Arith.
Import ListNotations.
Local Open Scope string_scope.

Definition clause := (list string * string * bool)%type.
Definition guard := (string * string * string * string * bool * list clause)%type.
Definition table := list (string * list guard).

Definition GIf (path text term : string) (sets_res : bool) : guard :=
  ("if", path, text, term, sets_res, []).
Definition GSwitch (path text : string) (cs : list clause) : guard :=
  ("switch", path, text, "", false, cs).
Definition GRet (path term : string) : guard :=
  ("return", path, "", term, false, []).
Definition GSetRes (path text : string) : guard :=
  ("setres", path, text, "", true, []).

Definition expected_guards_dnsforward : table :=
  [ ("dnsforward.Server.handleDNSRequest",
     [ (* run_stages: RcSuccess goes on, any other code stops with the state as it is *)
       GSwitch "for range mods" "switch r"
         [ (["resultCodeSuccess"], "", false);
           (["resultCodeFinish"], "return nil", false);
           (["resultCodeError"], "return dctx.err", false) ];
       (* run_stages [] => p / process *)
       GRet "" "return nil" ]);

    ("dnsforward.Server.processInitial",
     [ (* run_stage StInitial: c_aaaa_disabled && AAAA => (RcFinish, set_resp p nodata) *)
       GIf "" "if qt == dns.TypeAAAA && s.aaaaDisabled()" "return resultCodeFinish" true;
       (* run_stage StInitial: A/AAAA for mozilla_fqdn => (RcFinish, set_resp p nxdomain) *)
       GIf "" "if (qt == dns.TypeA || qt == dns.TypeAAAA) && q.Name == mozillaFQDN" "return resultCodeFinish" true;
       (* run_stage StInitial: healthcheck_fqdn => (RcFinish, set_resp p empty_ok) *)
       GIf "" "if q.Name == healthcheckFQDN" "return resultCodeFinish" true;
       (* run_stage StInitial: else (RcSuccess, p); the settings are request_settings *)
       GRet "" "return resultCodeSuccess" ]);

    ("dnsforward.Server.processDDRQuery",
     [ (* run_stage StDDR: c_ddr = None => (RcSuccess, p) *)
       GIf "" "if !s.conf.HandleDDR" "return resultCodeSuccess" false;
       (* run_stage StDDR: name = ddr_fqdn => (RcFinish, set_resp p (ddr_response …)) *)
       GIf "" "if q.Name == ddrHostFQDN" "return resultCodeFinish" true;
       (* run_stage StDDR: else (RcSuccess, p) *)
       GRet "" "return resultCodeSuccess" ]);

    ("dnsforward.Server.processDHCPHosts",
     [ (* run_stage StDHCPHosts: dhcp_host_from_request = None => (RcSuccess, p); otherwise ps_dhcp_host := true *)
       GIf "" "if dctx.isDHCPHost = dhcpHost != """"; !dctx.isDHCPHost" "return resultCodeSuccess" false;
       (* run_stage StDHCPHosts: negb q_private_client => (RcFinish, set_resp p' nxdomain) *)
       GIf "" "if !pctx.IsPrivateClient" "return resultCodeFinish" true;
       (* run_stage StDHCPHosts: assoc_bytes c_dhcp_hosts = None => (RcSuccess, p') *)
       GIf "" "if ip == (netip.Addr{})" "return resultCodeSuccess" false;
       (* run_stage StDHCPHosts: [ans]: A record, DNS64-mapped AAAA, or nothing *)
       GSwitch "" "switch q.Qtype"
         [ (["dns.TypeA"], "", false);
           (["dns.TypeAAAA"], "", false);
           ([], "", false) ];
       (* run_stage StDHCPHosts: set_resp p' (mkResp rcSuccess ans false) *)
       GSetRes "" "dctx.proxyCtx.Res = resp";
       (* run_stage StDHCPHosts: (RcSuccess, set_resp p' …) *)
       GRet "" "return resultCodeSuccess" ]);

    ("dnsforward.Server.processDHCPAddrs",
     [ (* run_stage StDHCPAddrs: ps_resp p = Some _ => (RcSuccess, p) *)
       GIf "" "if pctx.Res != nil" "return resultCodeSuccess" false;
       (* run_stage StDHCPAddrs: q_private_rdns = None, or not PTR => (RcSuccess, p) *)
       GIf "" "if pref == (netip.Prefix{}) || q.Qtype != dns.TypePTR" "return resultCodeSuccess" false;
       (* run_stage StDHCPAddrs: assoc_addr c_dhcp_addrs = None | Some [] => (RcSuccess, p) *)
       GIf "" "if host == """"" "return resultCodeSuccess" false;
       (* /repo c41b419 (C05, fix draft 26): a lease name that is no domain name once the
          local suffix is appended is treated as nameless.  Not a branch of run_stage
          StDHCPAddrs: the lease names of c_dhcp_addrs are valid domain names with the
          suffix (harness configuration; the guard itself is exercised by
          harness/dnsforward/zz_verif_C05lease_test.go) *)
       GIf "" "if err := netutil.ValidateDomainName(target); err != nil" "return resultCodeSuccess" false;
       (* run_stage StDHCPAddrs: set_resp p (PTR record) *)
       GSetRes "" "pctx.Res = resp";
       (* run_stage StDHCPAddrs: (RcSuccess, set_resp p …) *)
       GRet "" "return resultCodeSuccess" ]);

    ("dnsforward.Server.processFilteringBeforeRequest",
     [ (* run_stage StFilterBefore: ps_resp p = Some _ => (RcSuccess, p)
          (the settings change before it is request_settings / rdns_settings) *)
       GIf "" "if dctx.proxyCtx.Res != nil" "return resultCodeSuccess" false;
       (* run_stage StFilterBefore: check_host = None, or apply_request_verdict gives RcError *)
       GIf "" "if dctx.result, err = s.filterDNSRequest(dctx); err != nil" "return resultCodeError" false;
       (* run_stage StFilterBefore: apply_request_verdict … with RcSuccess *)
       GRet "" "return resultCodeSuccess" ]);

    ("dnsforward.Server.processUpstream",
     [ (* run_stage StUpstream: ps_resp p = Some _ => (RcSuccess, p): a set response is never sent upstream *)
       GIf "" "if pctx.Res != nil" "return resultCodeSuccess" false;
       (* run_stage StUpstream: ps_dhcp_host p => (RcFinish, set_resp p nxdomain) *)
       GIf "" "else if dctx.isDHCPHost" "return resultCodeFinish" true;
       (* not modelled: the server is never closed during a request in the harness *)
       GIf "" "if prx == nil" "return resultCodeError" false;
       (* run_stage StUpstream: up … = None => (RcError, … servfail …) *)
       GIf "" "if dctx.err = prx.Resolve(pctx); dctx.err != nil" "return resultCodeError" false;
       (* run_stage StUpstream: up … = Some r => (RcSuccess, … ps_from_upstream := true) *)
       GRet "" "return resultCodeSuccess" ]);

    ("dnsforward.Server.processFilteringAfterResponse",
     [ (* run_stage StFilterAfter: match r_reason (ps_result p): NotFilteredAllowList;
          RewrittenLegacy | RewrittenRule | FilteredSafeSearch; _ *)
       GSwitch "" "switch res := dctx.result; res.Reason"
         [ (["filtering.NotFilteredAllowList"], "return resultCodeSuccess", false);
           (["filtering.Rewritten"; "filtering.RewrittenRule"; "filtering.FilteredSafeSearch"],
            "return resultCodeSuccess", false);
           ([], "return s.filterAfterResponse(dctx)", false) ];
       (* run_stage StFilterAfter: ps_orig_q p = None => (RcSuccess, p) *)
       GIf "switch res := dctx.result; res.Reason / case filtering.Rewritten, filtering.RewrittenRule, filtering.FilteredSafeSearch"
           "if dctx.origQuestion.Name == """"" "return resultCodeSuccess" false ]);

    ("dnsforward.Server.filterAfterResponse",
     [ (* run_stage StFilterAfter, last branch: negb protection_on || negb ps_from_upstream => (RcSuccess, p) *)
       GIf "" "if !dctx.protectionEnabled || !dctx.responseFromUpstream" "return resultCodeSuccess" false;
       (* not modelled as an error: filter_answer is total (checkHostRules errors only for an invalid allow-list result) *)
       GIf "" "if err != nil" "return resultCodeError" false;
       (* run_stage StFilterAfter, last branch: (RcSuccess, …) *)
       GRet "" "return resultCodeSuccess" ]);

    ("dnsforward.Server.filterDNSRequest",
     [ (* run_stage StFilterBefore: check_host = None => (RcError, p) *)
       GIf "" "if err != nil" "return nil, fmt.Errorf(""checking host %q: %w"", host, err)" false;
       (* apply_request_verdict: is_rewritten_cname first, then r_filtered, then the reason
          (RewrittenLegacy | FilteredSafeSearch; RewrittenRule | RewrittenAutoHosts; _) *)
       GSwitch "" "switch"
         [ (["isRewrittenCNAME(res)"], "", false);
           (["res.IsFiltered"], "", true);
           (["res.Reason.In(filtering.Rewritten, filtering.FilteredSafeSearch)"], "", true);
           (["res.Reason.In(filtering.RewrittenRule, filtering.RewrittenAutoHosts)"], "", false) ];
       (* apply_request_verdict: dns_rewrite_response = None => RcError *)
       GIf "switch / case res.Reason.In(filtering.RewrittenRule, filtering.RewrittenAutoHosts)"
           "if err = s.filterDNSRewrite(req, res, pctx); err != nil" "return nil, err" false;
       (* apply_request_verdict: (RcSuccess, … res …) *)
       GRet "" "return res, err" ]);

    ("dnsforward.isRewrittenCNAME",
     [ (* is_rewritten_cname, with negb (r_canon_rewritten r) since /repo 2e58a5d (C06): a
          canonical name that the legacy rewrites cover themselves is not resolved upstream *)
       GRet "" "return res.Reason.In(filtering.Rewritten, filtering.RewrittenRule, filtering.FilteredSafeSearch) && res.CanonName != """" && len(res.IPList) == 0 && !res.CanonNameRewritten" ]);

    ("dnsforward.Server.filterDNSResponse",
     [ (* run_stage StFilterAfter, last branch: negb (st_filtering st) => (RcSuccess, p) *)
       GIf "" "if !setts.FilteringEnabled" "return nil" false;
       (* check_rr: DCNAME | DA | DAAAA | DHTTPS checked, anything else skipped *)
       GSwitch "for range pctx.Res.Answer" "switch a := a.(type)"
         [ (["*dns.CNAME"], "", false);
           (["*dns.A"], "", false);
           (["*dns.AAAA"], "", false);
           (["*dns.HTTPS"], "", false);
           ([], "continue", false) ];
       (* not modelled as an error: check_rr is total *)
       GIf "for range pctx.Res.Answer" "if err != nil"
           "return fmt.Errorf(""filtering answer at index %d: %w"", i, err)" false;
       (* filter_answer: check_rr = Some res => (r' :: rest, Some res): the walk stops at the
          first filtered record and the response is replaced (filter_message) *)
       GIf "for range pctx.Res.Answer" "else if res != nil && res.IsFiltered" "break" true;
       (* filter_answer [] => ([], None) *)
       GRet "" "return nil" ]);

    ("dnsforward.Server.genDNSFilterMessage",
     [ (* filter_message: qt not A / AAAA / HTTPS => … nodata *)
       GIf "" "if qt != dns.TypeA && qt != dns.TypeAAAA && qt != dns.TypeHTTPS" "return s.NewMsgNODATA(req)" false;
       (* filter_message: qt not A / AAAA / HTTPS, c_mode = MNullIP => empty_ok *)
       GIf "if qt != dns.TypeA && qt != dns.TypeAAAA && qt != dns.TypeHTTPS"
           "if m == filtering.BlockingModeNullIP" "return s.replyCompressed(req)" false;
       (* filter_message: match r_reason r: blocked_host_response c_sb_host | c_par_host;
          cname_with_ips; for_blocking_mode *)
       GSwitch "" "switch res.Reason"
         [ (["filtering.FilteredSafeBrowsing"],
            "return s.genBlockedHost(req, s.dnsFilter.SafeBrowsingBlockHost(), dctx)", false);
           (["filtering.FilteredParental"],
            "return s.genBlockedHost(req, s.dnsFilter.ParentalBlockHost(), dctx)", false);
           (["filtering.FilteredSafeSearch"],
            "return s.getCNAMEWithIPs(req, ipsFromRules(res.Rules), res.CanonName)", false);
           ([], "return s.genForBlockingMode(req, ipsFromRules(res.Rules))", false) ] ]);

    ("dnsforward.Server.genBlockedHost",
     [ (* blocked_host_response: BHEmpty => servfail *)
       GIf "" "if newAddr == """"" "return s.NewMsgSERVFAIL(request)" false;
       (* blocked_host_response: BHAddr a => response_with_ips … [a] *)
       GIf "" "if err == nil" "return s.genResponseWithIPs(request, []netip.Addr{ip})" false;
       (* not modelled: the server is never closed during a request in the harness *)
       GIf "" "if prx == nil" "return s.NewMsgSERVFAIL(request)" false;
       (* blocked_host_response: BHName n, up … = None => servfail *)
       GIf "" "if err != nil" "return s.NewMsgSERVFAIL(request)" false;
       (* blocked_host_response: BHName n, up … = Some r => the answers renamed *)
       GRet "" "return resp" ]) ].

Definition expected_guards_filtering : table :=
  [ ("filtering.DNSFilter.CheckHostRules",
     [ (* check_host_rules = match_host st (lower host) ty *)
       GRet "" "return d.matchHost(strings.ToLower(host), rrtype, setts)" ]);

    ("filtering.DNSFilter.CheckHost",
     [ (* check_host: host = [] => Some no_result *)
       GIf "" "if host == """"" "return Result{}, nil" false;
       (* check_host: st_filtering => legacy_rewrite; matched (reason RewrittenLegacy) => that result *)
       GIf "if setts.FilteringEnabled" "if res.Reason == Rewritten" "return res, nil" false;
       (* not modelled as an error: the model's checkers are total (safe-browsing / parental / safe-search
          failures are outside the oracle) *)
       GIf "for range d.hostCheckers" "if err != nil" "return Result{}, fmt.Errorf(""%s: %w"", hc.name, err)" false;
       (* first_match: matched r => r (first match wins, in checker_order) *)
       GIf "for range d.hostCheckers" "if res.Reason.Matched()" "return res, nil" false;
       (* first_match [] => no_result *)
       GRet "" "return Result{}, nil" ]);

    ("filtering.DNSFilter.matchHost",
     [ (* match_host: negb st_filtering => no_result *)
       GIf "" "if !setts.FilteringEnabled" "return Result{}, nil" false;
       (* match_host: allow engine only with st_protection; snd allow => allowlist_result *)
       GIf "if setts.ProtectionEnabled && d.filteringEngineAllow != nil" "if ok"
           "return d.matchHostProcessAllowList(host, dnsres)" false;
       (* not modelled: the harness always installs a block-list engine *)
       GIf "" "if d.filteringEngine == nil" "return Result{}, nil" false;
       (* match_host: matched rw => rw ($dnsrewrite before the protection gate) *)
       GIf "" "if dnsRWRes.Reason != NotFilteredNotFound" "return dnsRWRes, nil" false;
       (* match_host: negb (snd blk) => no_result *)
       GIf "" "else if !matchedEngine" "return Result{}, nil" false;
       (* match_host: negb st_protection => no_result (after the $dnsrewrite check) *)
       GIf "" "if !setts.ProtectionEnabled" "return Result{}, nil" false;
       (* match_host: blocklist_result qt (fst blk) *)
       GRet "" "return res, nil" ]);

    ("filtering.DNSFilter.processDNSResultRewrites",
     [ (* dnsrewrite_result: dns_rewrites dr = [] => no_result *)
       GIf "" "if len(dnsr) == 0" "return Result{}" false;
       (* dnsrewrite_result: r_canon res = host => no_result *)
       GIf "" "if res.Reason == RewrittenRule && res.CanonName == host" "return Result{}" false;
       (* dnsrewrite_result: res = process_dns_rewrites rs [] [] *)
       GRet "" "return res" ]);

    ("filtering.DNSFilter.matchSysHosts",
     [ (* match_sys_hosts: negb st_filtering || negb c_hosts_on => no_result *)
       GIf "" "if !setts.FilteringEnabled || d.conf.EtcHosts == nil" "return Result{}, nil" false;
       (* match_sys_hosts: no entry (or unsupported type) => no_result *)
       GIf "" "if !matched" "return Result{}, nil" false;
       (* match_sys_hosts: mkResult RewrittenAutoHosts false … (Some (mkDRW 0 …)) *)
       GRet "" "return Result{DNSRewriteResult: &DNSRewriteResult{Response: DNSRewriteResultResponse{qtype: vals}, RCode: dns.RcodeSuccess}, Rules: rs, Reason: RewrittenAutoHosts}, nil" ]);

    ("filtering.matchBlockedServicesRules",
     [ (* match_services: negb st_protection => no_result *)
       GIf "" "if !setts.ProtectionEnabled" "return Result{}, nil" false;
       (* match_services: first_service [] = None => no_result *)
       GIf "" "if len(svcs) == 0" "return Result{}, nil" false;
       (* first_service: the first service with a matching rule => FilteredBlockedService *)
       GIf "for range svcs / for range s.Rules" "if rule.Match(req)" "return res, nil" false;
       (* match_services: first_service = None => no_result *)
       GRet "" "return res, nil" ]);

    ("filtering.DNSFilter.checkSafeSearch",
     [ (* check_safesearch: negb st_protection || negb st_safesearch => no_result
          (d.safeSearch == nil: a filter is always installed in the harness) *)
       GIf "" "if d.safeSearch == nil || !setts.ProtectionEnabled || !setts.SafeSearchEnabled" "return Result{}, nil" false;
       (* not modelled: per-client safe-search engines (assumed absent, props/C01.json) *)
       GIf "" "if clientSafeSearch != nil" "return clientSafeSearch.CheckHost(ctx, host, qtype)" false;
       (* check_safesearch: ss_oracle host qt *)
       GRet "" "return d.safeSearch.CheckHost(ctx, host, qtype)" ]) ].

Definition expected_guards : table := (expected_guards_dnsforward ++ expected_guards_filtering)%list.

(** * Readable differences *)

Fixpoint strings_eqb (a b : list string) : bool :=
  match a, b with
  | [], [] => true
  | x :: a', y :: b' => String.eqb x y && strings_eqb a' b'
  | _, _ => false
  end.

Definition clause_eqb (a b : clause) : bool :=
  let '(ca, ta, sa) := a in
  let '(cb, tb, sb) := b in
  strings_eqb ca cb && String.eqb ta tb && Bool.eqb sa sb.

Fixpoint clauses_eqb (a b : list clause) : bool :=
  match a, b with
  | [], [] => true
  | x :: a', y :: b' => clause_eqb x y && clauses_eqb a' b'
  | _, _ => false
  end.

Definition guard_eqb (a b : guard) : bool :=
  let '(ka, pa, xa, ta, sa, ca) := a in
  let '(kb, pb, xb, tb, sb, cb) := b in
  String.eqb ka kb && String.eqb pa pb && String.eqb xa xb && String.eqb ta tb && Bool.eqb sa sb &&
  clauses_eqb ca cb.

(** A difference: (function, index of the entry, expected, found). *)
Definition difference := (string * nat * option guard * option guard)%type.

Fixpoint guards_extra (fn : string) (i : nat) (found : list guard) : list difference :=
  match found with
  | [] => []
  | g :: gs => (fn, i, None, Some g) :: guards_extra fn (S i) gs
  end.

Fixpoint guards_diff (fn : string) (i : nat) (expected found : list guard) {struct expected}
    : list difference :=
  match expected with
  | [] => guards_extra fn i found
  | e :: es =>
      match found with
      | [] => (fn, i, Some e, None) :: guards_diff fn (S i) es []
      | g :: gs =>
          ((if guard_eqb e g then [] else [(fn, i, Some e, Some g)]) ++ guards_diff fn (S i) es gs)%list
      end
  end.

Fixpoint table_extra_fns (found : table) : list difference :=
  match found with
  | [] => []
  | (fn, _) :: rest => ("<unexpected function> " ++ fn, 0, None, None) :: table_extra_fns rest
  end.

(** Positions where the guard tables differ; a function whose name differs is
    reported once ("<expected> / <found>"). *)
Fixpoint guard_table_diff (expected found : table) {struct expected} : list difference :=
  match expected with
  | [] => table_extra_fns found
  | (fn, gs) :: es =>
      match found with
      | [] => ("<missing function> " ++ fn, 0, None, None) :: guard_table_diff es []
      | (fn', gs') :: fs =>
          ((if String.eqb fn fn' then guards_diff fn 0 gs gs'
            else [((fn ++ " / " ++ fn')%string, 0, None, None)]) ++ guard_table_diff es fs)%list
      end
  end.

(** C20 model, round 6: the file as it lies on disk (content AND metadata),
    and two variants of the reader that the red team's wave 6 showed to be
    plausible edits.  They stand here, next to the model of the code as it is,
    so that the theorems can say what distinguishes them.

    A file on disk has a content and metadata (modification time, access time,
    permission bits).  qlogfile.go calls os.File.Stat in SeekStart and seekTS
    and uses Size() of the result, nothing else; every other access is
    Seek + Read.  So the reader on a disk file is the byte-level reader of
    Model/QLogBytes.v applied to the content: [d_seek_start], [d_seek_ts],
    [d_read_next].  That Stat reports the size of the content, and that
    Seek + Read return the content, is the trusted base (os.File on regular
    files).

    Variants (NOT the code):
      - [d_seek_ts_mtime]: seekTS with a shortcut "a stamp later than the
        file's modification time cannot be stored in it";
      - [b_read_next_from1]: readNextLine whose backward scan stops before the
        first byte of the window ([i > 0] for [i >= 0]).

    No proofs in this file. *)
From Coq Require Import ZArith NArith List Bool.
From AGH Require Import Base.Run Model.QLogFile Model.QLog Model.QLogBytes.
Import ListNotations.
Local Open Scope Z_scope.

Record fmeta := { m_mtime : Z; m_atime : Z; m_mode : Z }.

Record disk_file := { d_content : bytes; d_meta : fmeta }.

(** os.FileInfo of the file. *)
Record file_info := { fi_size : Z; fi_mtime : Z; fi_mode : Z }.

Definition stat (d : disk_file) : file_info :=
  {| fi_size := blen (d_content d); fi_mtime := m_mtime (d_meta d); fi_mode := m_mode (d_meta d) |}.

(** SeekStart: fileInfo.Size() - 1. *)
Definition d_seek_start (d : disk_file) (s : rstate) : rstate :=
  {| pos := Z.max 0 (fi_size (stat d) - 1); buf_start := buf_start s; buf_valid := false |}.

(** seekTS: end of the scope and the too-late test are fileInfo.Size(). *)
Definition d_seek_ts (o : bytes -> Z) (me : Z) (d : disk_file) (ts : Z) (s : rstate) : seek_res * rstate :=
  b_seek_ts_state o me (d_content d) ts s.

Definition d_read_next (me buf : Z) (d : disk_file) (s : rstate) : option (bytes * Z) * rstate :=
  b_read_next me buf (d_content d) s.

(** Variant: the modification time consulted before the search. *)
Definition d_seek_ts_mtime (o : bytes -> Z) (me : Z) (d : disk_file) (ts : Z) (s : rstate) : seek_res * rstate :=
  if ts >? fi_mtime (stat d)
  then (TooLate, {| pos := pos s; buf_start := buf_start s; buf_valid := false |})
  else d_seek_ts o me d ts s.

(** Variant: for i := rel - 1; i > 0; i-- (window byte 0 is not examined). *)
Fixpoint scan_back_from1 (rp : bytes) (i : Z) : Z :=
  match rp with
  | [] => 0
  | [_] => 0
  | b :: r => if (b =? nl)%N then i else scan_back_from1 r (i - 1)
  end.

Definition b_read_next_from1 (me buf : Z) (c : bytes) (s : rstate) : option (bytes * Z) * rstate :=
  if pos s =? 0 then (None, s) else
  let p := pos s in
  let reinit := negb (buf_valid s) || ((p - buf_start s <? me) && negb (buf_start s =? 0)) in
  let bs := if reinit then (if p >? buf then p - buf else 0) else buf_start s in
  let w := read_at c bs buf in
  let rel := p - bs in
  let startLine := scan_back_from1 (rev_append (takeZ w rel) []) rel in
  let lineIdx := bs + startLine in
  (Some (slice w startLine rel, lineIdx),
   {| pos := if lineIdx =? 0 then 0 else lineIdx - 1; buf_start := bs; buf_valid := true |}).

Fixpoint b_read_all_from1 (me buf : Z) (c : bytes) (fuel : nat) (s : rstate) : list bytes * bool :=
  match fuel with
  | O => ([], false)
  | S fuel =>
      match b_read_next_from1 me buf c s with
      | (None, _) => ([], true)
      | (Some (str, _), s') => let (l, e) := b_read_all_from1 me buf c fuel s' in (str :: l, e)
      end
  end.

(** Round 7.  Variant (NOT the code): readQLogTimestamp looking for the
    marker in the first [n] bytes of the line only ([str = str[:n]] before
    readJSONValue). *)
Definition read_qlog_ts_prefix (n : Z) (o : bytes -> Z) (line : bytes) : Z :=
  read_qlog_ts o (takeZ line n).

(** Round 8.  qLogReader.seekRecord (search.go) with the state it leaves also
    when it fails (Model/QLog.v's [seek_record] drops the reader then): result
    class 0 = nil, 1 = not found, 4 = any other error.  The code does not read
    the wall clock: the function has no clock input. *)
Definition seek_record_st (me bf : Z) (older : option Z) (r : reader) : Z * reader :=
  match older with
  | None => (0, reader_seek_start r)
  | Some ts =>
      let (res, r') := reader_seek_ts me ts r in
      match res with
      | RFound => match reader_read_next me bf r' with
                  | (None, r'') => (4, r'')
                  | (Some _, r'') => (0, r'')
                  end
      | RFellBack => (0, r')
      | RNotFound => (1, r')
      | ROther => (4, r')
      end
  end.

(** Variant (NOT the code): a cursor later than the wall clock [now] is taken
    for "nothing can be newer": no look-up, the reader goes to the newest end. *)
Definition seek_record_clock (now : Z) (me bf : Z) (older : option Z) (r : reader) : Z * reader :=
  match older with
  | Some ts => if ts >? now then (0, reader_seek_start r) else seek_record_st me bf older r
  | None => seek_record_st me bf older r
  end.

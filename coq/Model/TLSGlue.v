(** C16 (round 6): newDNSTLSConfig (internal/home/dns.go) in full, and what
    Server.prepareTLS (Model/CertPrepare.v) makes of its result: the path from
    the TLS section of the configuration to the check of a handshake.

    newDNSTLSConfig as written: encryption off: an empty TLSConfig.  Otherwise
    tls.X509KeyPair of the loaded chain and key ([pair_ok]: an input, the
    harness knows it by construction); on failure an error.  Otherwise

      Cert            the pair
      ServerName      conf.ServerName
      StrictSNICheck  conf.StrictSNICheck
      HTTPSListenAddrs / TLSListenAddrs / QUICListenAddrs
                      ipsToTCPAddrs / ipsToUDPAddrs (addrs, port) when the port
                      is not 0: nil when [addrs] is nil ([addrs] = false)

    [guarded = true] is the variant

      StrictSNICheck: conf.StrictSNICheck && conf.ServerName != ""

    (refuted in Proofs/TLSGlue.v); the tree has [guarded = false].  No proofs
    in this file. *)
From Coq Require Import List NArith Bool Arith.
From AGH Require Import Base.Run Base.Bytes Base.Dom Model.CertNames Model.CertPrepare Model.TLSSettings.
Import ListNotations.
Local Open Scope N_scope.

(** dnsforward.TLSConfig, the fields this glue fills. *)
Record dns_tls_conf := {
  dt_has_cert : bool;        (* Cert != nil *)
  dt_server_name : bytes;
  dt_strict : bool;
  dt_https : bool;           (* HTTPSListenAddrs != nil *)
  dt_dot : bool;             (* TLSListenAddrs != nil *)
  dt_doq : bool;             (* QUICListenAddrs != nil *)
}.

Definition dns_tls_empty : dns_tls_conf :=
  {| dt_has_cert := false; dt_server_name := []; dt_strict := false;
     dt_https := false; dt_dot := false; dt_doq := false |}.

Definition is_nil (b : bytes) : bool := match b with [] => true | _ :: _ => false end.

Definition new_dns_tls_config (guarded : bool) (s : tls_settings) (pair_ok addrs : bool)
  : option dns_tls_conf :=
  if negb (t_enabled s) then Some dns_tls_empty
  else if negb pair_ok then None
  else Some {| dt_has_cert := true;
               dt_server_name := t_server_name s;
               dt_strict := if guarded then t_strict s && negb (is_nil (t_server_name s))
                            else t_strict s;
               dt_https := nz (t_port_https s) && addrs;
               dt_dot := nz (t_port_dot s) && addrs;
               dt_doq := nz (t_port_doq s) && addrs |}.

(** The TLS part of the ServerConfig that Server.Prepare gets ([cert]: the
    leaf of the pair, [has_ip]: it has IP SANs). *)
Definition to_tls_conf (d : dns_tls_conf) (c : cert) (has_ip : bool) : tls_conf :=
  {| tc_has_cert := dt_has_cert d; tc_listen := dt_dot d || dt_doq d; tc_strict := dt_strict d;
     tc_cert := c; tc_cert_has_ip := has_ip |}.

(** The settings, through the glue, through Prepare on a server in state
    [st]; [None]: the glue returned an error (the server keeps running as it
    was). *)
Definition serve_settings (guarded : bool) (st : tls_state) (s : tls_settings)
    (pair_ok addrs : bool) (c : cert) (has_ip : bool) : option tls_state :=
  match new_dns_tls_config guarded s pair_ok addrs with
  | Some d => Some (prepare_tls false st (to_tls_conf d c has_ip))
  | None => None
  end.

(** The same settings with another server_name. *)
Definition with_name (s : tls_settings) (n : bytes) : tls_settings :=
  {| t_enabled := t_enabled s; t_server_name := n; t_force_https := t_force_https s;
     t_port_https := t_port_https s; t_port_dot := t_port_dot s; t_port_doq := t_port_doq s;
     t_port_dnscrypt := t_port_dnscrypt s; t_dnscrypt_file := t_dnscrypt_file s;
     t_allow_unenc_doh := t_allow_unenc_doh s; t_cert_chain := t_cert_chain s;
     t_private_key := t_private_key s; t_cert_path := t_cert_path s; t_key_path := t_key_path s;
     t_ciphers := t_ciphers s; t_strict := t_strict s |}.

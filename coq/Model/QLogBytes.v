(** C20 model, byte level: qLogFile on the bytes of the file
    (internal/querylog/qlogfile.go).

    Model/QLogFile.v sees a file as a list of (line length, stamp).  Here a
    file is its content, a list of bytes; the functions below do what the Go
    code does with it:

      - [read_at]: file.Seek + file.Read into a buffer of a given capacity;
      - [scan_back] / [scan_fwd]: the two loops looking for a line break inside
        a buffer (readNextLine, readProbeLine), index by index;
      - [b_probe_line]: readProbeLine (window of 2*maxEntrySize bytes around
        the probe; beyond what Read returned the buffer holds the zeros make()
        left, which are no line breaks: the backward loop passes over them);
      - [read_qlog_ts]: readQLogTimestamp = readJSONValue for the "T" marker
        (first occurrence in the line, up to the next quote byte), the legacy
        "Time" marker when that value is empty, then time.Parse, which is the
        oracle [o] (text -> Unix nanoseconds, 0 = not parsed);
      - [b_seek_loop] / [b_seek_ts]: qLogFile.seekTS;
      - [b_read_next]: ReadNext + readNextLine + initBuffer, returning the
        bytes of the string.

    The reader state is the [rstate] of Model/QLogFile.v (position, buffer
    start, buffer valid): the content of a valid buffer is the file content
    at [buf_start] (files are not modified while being read).

    Proofs/QLogBytes.v proves that on a file made of newline-terminated lines
    these functions compute what the (length, stamp) model computes.

    No proofs in this file. *)
From Coq Require Import ZArith NArith List Bool Ascii String.
From AGH Require Import Base.Run Model.QLogFile Model.QLogCodec.
Import ListNotations.
Local Open Scope Z_scope.

Definition nl : N := 10%N.

(** The content of a file of lines (each written with its line break, as
    flushLogBuffer / json.Encoder.Encode do). *)
Fixpoint flat (ls : list bytes) : bytes :=
  match ls with [] => [] | l :: r => l ++ nl :: flat r end.

Definition blen (s : bytes) : Z := Z.of_nat (length s).

(** s[:n] and s[n:] with the count in binary (file offsets are large). *)
Fixpoint takeZ (l : bytes) (n : Z) : bytes :=
  match l with
  | [] => []
  | b :: r => if n <=? 0 then [] else b :: takeZ r (n - 1)
  end.

Fixpoint dropZ (l : bytes) (n : Z) : bytes :=
  match l with
  | [] => []
  | _ :: r => if n <=? 0 then l else dropZ r (n - 1)
  end.

(** file.Seek(a, io.SeekStart); file.Read(buffer) with cap(buffer) = [cap]:
    the bytes read (their number is bufferLen). *)
Definition read_at (c : bytes) (a cap : Z) : bytes := takeZ (dropZ c a) cap.

(** buffer[a:b] *)
Definition slice (s : bytes) (a b : Z) : bytes := takeZ (dropZ s a) (b - a).

(** for i := rel - 1; i >= 0; i-- { if buffer[i] == '\n' { startLine = i + 1; break } }
    on [rp] = buffer[0:rel] reversed ([rev_append x []] is [rev x] computed
    in one pass), [i] = the index after the byte at the head of [rp].  0 when
    the loop runs out. *)
Fixpoint scan_back (rp : bytes) (i : Z) : Z :=
  match rp with
  | [] => 0
  | b :: r => if (b =? nl)%N then i else scan_back r (i - 1)
  end.

(** for i := rel; i < bufferLen; i++ { if buffer[i] == '\n' { ...; break } }
    on [s] = buffer[rel:bufferLen], [i] = index of the head of [s]. *)
Fixpoint scan_fwd (s : bytes) (i : Z) : option Z :=
  match s with
  | [] => None
  | b :: r => if (b =? nl)%N then Some i else scan_fwd r (i + 1)
  end.

(** readProbeLine(position): [None] = the Read reported io.EOF (nothing
    read); else (the string, lineIdx, lineEndIdx). *)
Definition b_probe_line (me : Z) (c : bytes) (p : Z) : option (bytes * Z * Z) :=
  let sp := if p >? me then p - me else 0 in
  let rel := if p >? me then me else p in
  let w := read_at c sp (2 * me) in
  let bl := blen w in
  if bl =? 0 then None else
  (* buffer[bufferLen:] is zero: from rel - 1 down to bufferLen the loop finds nothing *)
  let startLine := scan_back (rev_append (takeZ w rel) []) (Z.min rel bl) in
  let '(endLine, lineEnd) :=
    match scan_fwd (dropZ w rel) rel with
    | Some i => (i, i + sp + 1)
    | None => (bl, bl + sp)
    end in
  Some (slice w startLine endLine, startLine + sp, lineEnd).

(** readQLogTimestamp *)
Definition pT : bytes := B """T"":""".
Definition pTime : bytes := B """Time"":""".

Definition read_qlog_ts (o : bytes -> Z) (line : bytes) : Z :=
  let v := read_json_value line pT in
  let v := if is_nil v then read_json_value line pTime else v in
  if is_nil v then 0 else o v.

(** The loop of qLogFile.seekTS (see [seek_loop] in Model/QLogFile.v for the
    role of [fuel]). *)
Fixpoint b_seek_loop (o : bytes -> Z) (fuel : nat) (me : Z) (c : bytes) (ts : Z)
    (start end_ probe last depth : Z) : seek_res :=
  match fuel with
  | O => DepthExceeded
  | S fuel =>
      match b_probe_line me c probe with
      | None => IOEof
      | Some (str, li, le) =>
          if li =? last then (if li =? 0 then TooEarly else NotFound)
          else if li =? blen c then TooLate
          else
            let lts := read_qlog_ts o str in
            if lts =? 0 then EmptyStamp
            else if lts =? ts then Found (li + blen str) depth
            else
              let start' := if lts >? ts then start else le in
              let end' := if lts >? ts then li else end_ in
              b_seek_loop o fuel me c ts start' end' (start' + (end' - start') ÷ 2) li (depth + 1)
      end
  end.

Definition b_seek_ts_fuel (o : bytes -> Z) (fuel : nat) (me : Z) (c : bytes) (ts : Z) : seek_res :=
  b_seek_loop o fuel me c ts 0 (blen c) (blen c ÷ 2) (-1) 0.

Definition b_seek_ts (o : bytes -> Z) (me : Z) (c : bytes) (ts : Z) : seek_res :=
  b_seek_ts_fuel o max_depth me c ts.

Definition b_seek_ts_state (o : bytes -> Z) (me : Z) (c : bytes) (ts : Z) (s : rstate) : seek_res * rstate :=
  let r := b_seek_ts o me c ts in
  (r, {| pos := match r with Found p _ => p | _ => pos s end;
         buf_start := buf_start s; buf_valid := false |}).

(** SeekStart *)
Definition b_seek_start (c : bytes) (s : rstate) : rstate :=
  {| pos := Z.max 0 (blen c - 1); buf_start := buf_start s; buf_valid := false |}.

(** ReadNext + readNextLine + initBuffer: [None] = io.EOF, else (the string,
    lineIdx). *)
Definition b_read_next (me buf : Z) (c : bytes) (s : rstate) : option (bytes * Z) * rstate :=
  if pos s =? 0 then (None, s) else
  let p := pos s in
  let reinit := negb (buf_valid s) || ((p - buf_start s <? me) && negb (buf_start s =? 0)) in
  let bs := if reinit then (if p >? buf then p - buf else 0) else buf_start s in
  let w := read_at c bs buf in
  let rel := p - bs in
  let startLine := scan_back (rev_append (takeZ w rel) []) rel in
  let lineIdx := bs + startLine in
  (Some (slice w startLine rel, lineIdx),
   {| pos := if lineIdx =? 0 then 0 else lineIdx - 1; buf_start := bs; buf_valid := true |}).

(** ReadNext until io.EOF (at most [fuel] lines): the strings, and whether
    io.EOF was reached. *)
Fixpoint b_read_all (me buf : Z) (c : bytes) (fuel : nat) (s : rstate) : list bytes * bool :=
  match fuel with
  | O => ([], false)
  | S fuel =>
      match b_read_next me buf c s with
      | (None, _) => ([], true)
      | (Some (str, _), s') => let (l, e) := b_read_all me buf c fuel s' in (str :: l, e)
      end
  end.

(** The (length, stamp) view of a file of lines. *)
Definition absf (o : bytes -> Z) (ls : list bytes) : qfile :=
  map (fun ln => (blen ln, read_qlog_ts o ln)) ls.

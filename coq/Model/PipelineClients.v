(** The DNS pipeline's request identity (C02 round 4): which persistent client
    a request belongs to, and which tags reach the rule engine.

    [Model/Pipeline.v] takes the persistent client of a request as an input
    ([q_client]).  Here that input is COMPUTED from the registry
    (client.Storage, the model of C04: [Model/ClientIndex.v], reused, not
    copied), the request's ClientID (the one Server.HandleBefore put into
    the ClientID cache: DoH path / DoT, DoQ, DoH server name; empty for plain
    DNS) and the request's address, the way

        dnsforward.clientRequestFilteringSettings
          -> filtering.DNSFilter.ApplyAdditionalFiltering
            -> client.Storage.ApplyClientFiltering   (ClientID, else address,
                                                      else the MAC of the
                                                      address' DHCP lease)

    does it; and urlfilter's $ctag test (rules/network.go matchClientTags,
    matchClientTagsSpecific: a merge walk over two SORTED lists) is written
    out as it is, next to the set-membership reading [RuleEngine.match_ctags]
    uses.  No proofs here. *)
From Coq Require Import List NArith ZArith Bool.
From AGH Require Import Base.Run Base.NetAddr Base.RuleEngine Model.Pipeline.
From AGH Require Model.ClientIndex Model.Schedule.
Import ListNotations.
Local Open Scope N_scope.

(** * Addresses: netip.Addr.AsSlice of the pipeline's (family, value, zone) *)
Fixpoint be_bytes (n : nat) (v : N) : bytes :=
  match n with
  | O => []
  | S n' => be_bytes n' (v / 256) ++ [v mod 256]
  end.

Definition ci_addr (a : addr) : ClientIndex.addr :=
  (be_bytes (match a_fam a with V4 => 4 | V6 => 16 end) (a_val a), a_zone a).

(** * The registry record as the pipeline sees it

    [paused b]: the pause schedule of a BlockedServices value contains "now"
    (filtering.ApplyAdditionalFiltering asks Schedule.Contains(time.Now())). *)
Definition to_pclient (paused : ClientIndex.blocked -> bool) (c : ClientIndex.client) : pclient :=
  match ClientIndex.c_blocked c with
  | Some b =>
      mkPClient (ClientIndex.c_name c) (ClientIndex.c_own_settings c) (ClientIndex.c_filtering c)
                (ClientIndex.c_safebrowsing c) (ClientIndex.c_parental c)
                (ClientIndex.c_own_blocked c) (ClientIndex.b_ids b) (paused b)
                (ClientIndex.c_safesearch c) (ClientIndex.c_tags c)
  | None =>
      (* a nil BlockedServices pointer: Clone() gives nil, the global services stay *)
      mkPClient (ClientIndex.c_name c) (ClientIndex.c_own_settings c) (ClientIndex.c_filtering c)
                (ClientIndex.c_safebrowsing c) (ClientIndex.c_parental c)
                false [] false
                (ClientIndex.c_safesearch c) (ClientIndex.c_tags c)
  end.

(** The client Storage.ApplyClientFiltering applies: [ClientIndex.acf_find]
    (ClientID, else findByIP, else the lease's MAC), then the record.  A uid
    without a record ([None] here) is a nil dereference in Go; the registry
    invariant excludes it. *)
Definition owner (ix : ClientIndex.index) (dhcp : ClientIndex.addr -> option bytes)
    (cid : bytes) (a : addr) : option ClientIndex.client :=
  match ClientIndex.acf_find ix dhcp cid (ci_addr a) with
  | Some u => ClientIndex.deref ix u
  | None => None
  end.

(** The request with its client looked up. *)
Definition attach (paused : ClientIndex.blocked -> bool) (ix : ClientIndex.index)
    (dhcp : ClientIndex.addr -> option bytes) (cid : bytes) (q : request) : request :=
  mkRequest (q_name q) (q_qtype q) (q_addr q)
            (option_map (to_pclient paused) (owner ix dhcp cid (q_addr q)))
            (q_private_client q) (q_private_rdns q).

(** The filtering flag in force for a request of that client: its own when
    it uses own settings, the global one otherwise. *)
Definition effective_filtering (c : cfg) (o : option ClientIndex.client) : bool :=
  match o with
  | Some cl => if ClientIndex.c_own_settings cl then ClientIndex.c_filtering cl else c_filtering c
  | None => c_filtering c
  end.

(** What Storage.ApplyClientFiltering leaves in the Settings for the
    request: ClientName, FilteringEnabled, ClientTags. *)
Definition handed_over (c : cfg) (o : option ClientIndex.client) : bytes * bool * list bytes :=
  match o with
  | Some cl => (ClientIndex.c_name cl, effective_filtering c o, ClientIndex.c_tags cl)
  | None => ([], c_filtering c, [])
  end.

(** * The registry after a history of Add / Update / RemoveByName

    Every step with whether the real call succeeded; the second component
    says that the model agrees on every step. *)
Fixpoint run_ops (rc : ClientIndex.config) (ops : list (ClientIndex.op * bool)) (ix : ClientIndex.index)
    : ClientIndex.index * bool :=
  match ops with
  | [] => (ix, true)
  | (o, ok) :: rest =>
      let r := ClientIndex.step rc ix o in
      let agree := Bool.eqb ok (match snd r with ClientIndex.EOk => true | _ => false end) in
      let r' := run_ops rc rest (fst r) in
      (fst r', agree && snd r')
  end.

(** * urlfilter: $ctag

    matchClientTagsSpecific: two indices walk the rule's tag list and the
    client's; on [strings.Compare] = 0 a common tag is found, otherwise the
    index on the smaller side advances. *)
Fixpoint tags_walk (rs cs : list bytes) : bool :=
  match rs with
  | [] => false
  | r :: rs' =>
      (fix inner (cs : list bytes) : bool :=
         match cs with
         | [] => false
         | c :: cs' =>
             match ClientIndex.cmp_bytes r c with
             | Eq => true
             | Lt => tags_walk rs' cs
             | Gt => inner cs'
             end
         end) cs
  end.

(** NetworkRule.matchClientTags *)
Definition match_ctags_walk (r : nrule) (tags : list bytes) : bool :=
  match nr_ctag_perm r, nr_ctag_restr r with
  | [], [] => true
  | perm, restr =>
      if tags_walk restr tags then false
      else match perm with [] => true | _ => tags_walk perm tags end
  end.

(** The tags the rule engine is asked with for a request
    (DNSRequest.SortedClientTags = Settings.ClientTags). *)
Definition engine_tags (paused : ClientIndex.blocked -> bool) (c : cfg) (ix : ClientIndex.index)
    (dhcp : ClientIndex.addr -> option bytes) (cid : bytes) (q : request) : list bytes :=
  st_client_tags (request_settings c (attach paused ix dhcp cid q)).

(** C06, round 4: the response side with the DNS cache of dnsproxy ON.

    Code mirrored (dnsproxy v0.75.3 proxy/proxy.go Resolve, proxycache.go
    replyFromCache / cacheResp, cache.go get / set / msgToKey / cacheTTL /
    unpackItem; AdGuard Home internal/dnsforward filter.go filterDNSRequest,
    process.go processUpstream / processFilteringAfterResponse):

    - filterDNSRequest puts the canonical name into the question of the
      REQUEST before Resolve is called, so the cache is looked up and filled
      under the REWRITTEN question: key = (QTYPE, QCLASS, strings.ToLower of
      the name asked); the client's question never reaches the cache for a
      CNAME resolved upstream;
    - a hit builds a NEW message from the request as it is at that moment
      (SetRcode(req, cached rcode): the question is the canonical one) with
      copies of the cached records, no upstream exchange;
      processFilteringAfterResponse then puts the client's question back and
      the CNAME in front exactly as for an upstream reply (the cached item is
      a packed copy: what is done to the reply does not reach the cache);
    - a miss asks the upstream and stores the reply (packed) when cacheTTL is
      positive: a SERVFAIL reply always (calculateTTL caps it at 30 s BEFORE
      it looks whether there was any record at all, so an empty SERVFAIL is
      kept for 30 s); a NOERROR reply with at least one record (the minimum
      TTL of no records is "not cacheable") and (a type other than A / AAAA,
      or an address record in the answer); NXDOMAIN / empty NOERROR need an
      SOA in the authority section, which the replies considered here do not
      carry (assumption: records with a positive TTL in the answer section
      only);
    - a failed exchange stores nothing.

    The cache is a list of ((lower-cased name, type), (rcode, answer)), newest
    first; entries do not expire within a history (the harness uses a TTL of
    an hour and ends a history 15 s after its first question, half the 30 s
    a SERVFAIL is kept). *)
From Coq Require Import NArith List Bool.
From AGH Require Import Base.Run Model.Rewrites.
Import ListNotations.
Local Open Scope N_scope.

Definition cache := list (bytes * N * (N * list rr)).

(** cache.get: msgToKey lower-cases the name. *)
Definition cache_get (c : cache) (name : bytes) (qt : N) : option (N * list rr) :=
  match find (fun x : bytes * N * (N * list rr) =>
                eqb_bytes (fst (fst x)) (to_lower name) && (snd (fst x) =? qt)) c with
  | Some x => Some (snd x)
  | None => None
  end.

Definition is_ip_rr (r : rr) : bool :=
  match r with RR_A _ _ | RR_AAAA _ _ => true | _ => false end.

Definition rcode_noerror : N := 0.

(** cacheTTL > 0, for a reply whose records (answer section only) all have
    a positive TTL. *)
Definition cacheable (qt rc : N) (ans : list rr) : bool :=
  (rc =? rcode_servfail) ||
  (negb (is_nil ans) && (rc =? rcode_noerror) &&
   (negb (is_addr_q qt) || existsb is_ip_rr ans)).

Definition cache_put (c : cache) (name : bytes) (qt rc : N) (ans : list rr) : cache :=
  if cacheable qt rc ans then (to_lower name, qt, (rc, ans)) :: c else c.

Section RespondC.
  Variable sort : list entry -> list entry.
  Variable upstream : bytes -> N -> option (N * list rr).

  (** proxy.Resolve for the question [asked]; the reply is delivered under
      the question [shown] with [front] before its records. *)
  Definition forward_c (c : cache) (asked shown : bytes) (qt : N) (front : list rr)
    : cache * (bool * response) :=
    match cache_get c asked qt with
    | Some (rc, ans) =>
        (c, (false, {| rp_qname := shown; rp_rcode := rc; rp_answer := front ++ ans;
                       rp_upstream := [] |}))
    | None =>
        match upstream asked qt with
        | Some (rc, ans) =>
            (cache_put c asked qt rc ans,
             (false, {| rp_qname := shown; rp_rcode := rc; rp_answer := front ++ ans;
                        rp_upstream := [(asked, qt)] |}))
        | None =>
            (c, (true, {| rp_qname := shown; rp_rcode := rcode_servfail; rp_answer := [];
                          rp_upstream := [(asked, qt)] |}))
        end
    end.

  Definition respond_c (enabled : bool) (tbl : list entry) (c : cache) (qname : bytes) (qt : N)
    : option (cache * (bool * response)) :=
    match check_host sort enabled tbl qname qt with
    | None => None
    | Some r =>
        match r_reason r with
        | NotFound => Some (forward_c c qname qname qt [])
        | Rewritten =>
            if via_upstream r (covered_flag sort enabled tbl qname qt) then
              Some (forward_c c (r_canon r) qname qt [RR_CNAME qname (r_canon r)])
            else Some (c, (false, local_response r qname qt))
        end
    end.

  (** A history of queries against one server; [None] = a query that did not
      terminate (never, see C06_terminates). *)
  Fixpoint run_c (enabled : bool) (tbl : list entry) (c : cache) (qs : list (bytes * N))
    : option (cache * list (bool * response)) :=
    match qs with
    | [] => Some (c, [])
    | (qname, qt) :: rest =>
        match respond_c enabled tbl c qname qt with
        | None => None
        | Some (c', o) =>
            match run_c enabled tbl c' rest with
            | None => None
            | Some (c'', os) => Some (c'', o :: os)
            end
        end
    end.
End RespondC.

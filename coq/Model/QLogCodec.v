(** C07 model, part 2: the JSON line codec of the query log.

    Encoder side: json.Marshal of logEntry (internal/querylog/entry.go,
    filtering.Result / ResultRule / DNSRewriteResult), including the string
    escaping of encoding/json's appendString with HTML escaping on.
    Decoder side: json.Decoder.Token as a byte-at-a-time scanner, and the
    hand-written token decoder internal/querylog/decode.go as a token-at-a-time
    state machine (top loop, per-key handlers, Result block, Rules, IPList,
    legacy ReverseHosts / Rule / FilterID keys, DNSRewriteResult, unknown keys
    ignored, translateResult).  Also readJSONValue (qlogfile.go) on raw lines.

    Field values are kept as the texts the line carries (time as its
    RFC3339 text, addresses as text, answers as base64 text): time.Parse,
    net.ParseIP, netip.ParseAddr and base64 decoding are oracles
    ([oracles]) that say whether Go accepts a text.

    Restrictions of the scanner w.r.t. encoding/json (none matters for lines
    written by encoding/json): the grammar between tokens is not checked
    (commas / colons are skipped wherever they stand), number tokens are
    maximal runs of [-+.eE0-9], and a \u escape of a surrogate half decodes
    to U+FFFD without pairing.

    No proofs in this file. *)
From Coq Require Import ZArith NArith List Bool Ascii String.
From AGH Require Import Base.Run Model.QLogFile Model.QLog.
Import ListNotations.
Local Open Scope N_scope.

(** Byte strings from Coq string literals (model constants only). *)
Definition B (s : string) : bytes := map N_of_ascii (list_ascii_of_string s).

(** ** encoding/json appendString (escapeHTML = true) *)
Definition hexd (n : N) : N := if n <? 10 then 48 + n else 87 + n.

Definition esc_byte (b : N) : bytes :=
  if (b =? 34) || (b =? 92) then [92; b]
  else if b =? 8 then [92; 98]
  else if b =? 12 then [92; 102]
  else if b =? 10 then [92; 110]
  else if b =? 13 then [92; 114]
  else if b =? 9 then [92; 116]
  else if (b <? 32) || (b =? 60) || (b =? 62) || (b =? 38)
       then [92; 117; 48; 48; hexd (b / 16); hexd (b mod 16)]
  else [b].

Definition in_r (lo hi b : N) : bool := (lo <=? b) && (b <=? hi).
Definition cont (b : N) : bool := in_r 128 191 b.

(** Range of the second byte after lead byte [b0] (utf8 acceptRanges). *)
Definition lo2 (b0 : N) : N := if b0 =? 224 then 160 else if b0 =? 240 then 144 else 128.
Definition hi2 (b0 : N) : N := if b0 =? 237 then 159 else if b0 =? 244 then 143 else 191.

(** utf8.DecodeRune on a lead byte >= 0x80: the size of a valid sequence, 0 =
    RuneError (size 1). *)
Definition u8len (s : bytes) : nat :=
  match s with
  | b0 :: r =>
      if in_r 194 223 b0 then
        match r with b1 :: _ => if cont b1 then 2%nat else 0%nat | _ => 0%nat end
      else if in_r 224 239 b0 then
        match r with
        | b1 :: b2 :: _ => if in_r (lo2 b0) (hi2 b0) b1 && cont b2 then 3%nat else 0%nat
        | _ => 0%nat
        end
      else if in_r 240 244 b0 then
        match r with
        | b1 :: b2 :: b3 :: _ => if in_r (lo2 b0) (hi2 b0) b1 && cont b2 && cont b3 then 4%nat else 0%nat
        | _ => 0%nat
        end
      else 0%nat
  | [] => 0%nat
  end.

Definition fffd_esc : bytes := [92; 117; 102; 102; 102; 100].   (* � *)

Fixpoint enc_str (s : bytes) : bytes :=
  match s with
  | [] => []
  | b0 :: r =>
      if b0 <? 128 then esc_byte b0 ++ enc_str r else
      match u8len s, r with
      | 2%nat, b1 :: r1 => b0 :: b1 :: enc_str r1
      | 3%nat, b1 :: b2 :: r2 =>
          (* U+2028 / U+2029 are escaped *)
          (if (b0 =? 226) && (b1 =? 128) && ((b2 =? 168) || (b2 =? 169))
           then [92; 117; 50; 48; 50; if b2 =? 168 then 56 else 57]
           else [b0; b1; b2]) ++ enc_str r2
      | 4%nat, b1 :: b2 :: b3 :: r3 => b0 :: b1 :: b2 :: b3 :: enc_str r3
      | _, _ => fffd_esc ++ enc_str r
      end
  end.

(** Well-formed UTF-8 (what survives encoding unchanged). *)
Fixpoint utf8_ok (s : bytes) : bool :=
  match s with
  | [] => true
  | b0 :: r =>
      if b0 <? 128 then utf8_ok r else
      match u8len s, r with
      | 2%nat, _ :: r1 => utf8_ok r1
      | 3%nat, _ :: _ :: r2 => utf8_ok r2
      | 4%nat, _ :: _ :: _ :: r3 => utf8_ok r3
      | _, _ => false
      end
  end.

Definition quote (s : bytes) : bytes := 34 :: enc_str s ++ [34].

(** ** Decimal integers (strconv.AppendInt / ParseInt base 10) *)
Fixpoint uint_bytes (d : Decimal.uint) : bytes :=
  match d with
  | Decimal.Nil => []
  | Decimal.D0 r => 48 :: uint_bytes r | Decimal.D1 r => 49 :: uint_bytes r
  | Decimal.D2 r => 50 :: uint_bytes r | Decimal.D3 r => 51 :: uint_bytes r
  | Decimal.D4 r => 52 :: uint_bytes r | Decimal.D5 r => 53 :: uint_bytes r
  | Decimal.D6 r => 54 :: uint_bytes r | Decimal.D7 r => 55 :: uint_bytes r
  | Decimal.D8 r => 56 :: uint_bytes r | Decimal.D9 r => 57 :: uint_bytes r
  end.

Definition dec_bytes (z : Z) : bytes :=
  match z with
  | Z0 => [48]
  | Zpos p => uint_bytes (Pos.to_uint p)
  | Zneg p => 45 :: uint_bytes (Pos.to_uint p)
  end.

Fixpoint digits_val (s : bytes) (acc : N) : option N :=
  match s with
  | [] => Some acc
  | c :: r => if in_r 48 57 c then digits_val r (acc * 10 + (c - 48)) else None
  end.

(** strconv.ParseInt(s, 10, 64): optional sign, digits, range. *)
Definition parse_int (s : bytes) : option Z :=
  let (neg, ds) := match s with
                   | 45 :: r => (true, r)
                   | 43 :: r => (false, r)
                   | _ => (false, s)
                   end in
  match ds with
  | [] => None
  | _ => match digits_val ds 0 with
         | None => None
         | Some n =>
             let z := if neg then (- Z.of_N n)%Z else Z.of_N n in
             if ((- 2 ^ 63 <=? z) && (z <? 2 ^ 63))%Z then Some z else None
         end
  end.

(** ** json.Decoder.Token as a scanner *)
Inductive token :=
  | TDelim (c : N)
  | TStr (s : bytes)
  | TNum (s : bytes)
  | TBool (b : bool)
  | TNull.

Inductive mode :=
  | MBetween
  | MStr (acc : bytes)                         (* decoded bytes, reversed *)
  | MStrU (acc : bytes) (need : nat) (seen : nat) (pend : bytes) (lo hi : N)
                                               (* inside a multi-byte rune; pend reversed *)
  | MEsc (acc : bytes)
  | MHex (acc : bytes) (n : nat) (v : N)
  | MNum (acc : bytes)
  | MLit (acc : bytes)
  | MErr.

Record sst := { toks : list token; md : mode }.     (* toks reversed *)

Definition tpush (t : token) (ts : list token) : sst := {| toks := t :: ts; md := MBetween |}.

Definition unhex (c : N) : option N :=
  if in_r 48 57 c then Some (c - 48)
  else if in_r 97 102 c then Some (c - 87)
  else if in_r 65 70 c then Some (c - 55)
  else None.

(** utf8.EncodeRune for a BMP code point; surrogate halves become U+FFFD. *)
Definition rune_utf8 (v : N) : bytes :=
  if v <? 128 then [v]
  else if v <? 2048 then [192 + v / 64; 128 + v mod 64]
  else if in_r 55296 57343 v then [239; 191; 189]
  else [224 + v / 4096; 128 + (v / 64) mod 64; 128 + v mod 64].

Definition is_numchar (b : N) : bool :=
  in_r 48 57 b || (b =? 45) || (b =? 43) || (b =? 46) || (b =? 101) || (b =? 69).

Definition is_lower (b : N) : bool := in_r 97 122 b.

Fixpoint fffds (n : nat) (acc : bytes) : bytes :=
  match n with O => acc | S n => fffds n (189 :: 191 :: 239 :: acc) end.

Definition step_between (ts : list token) (b : N) : sst :=
  if (b =? 32) || (b =? 9) || (b =? 10) || (b =? 13) || (b =? 44) || (b =? 58) then {| toks := ts; md := MBetween |}
  else if (b =? 91) || (b =? 93) || (b =? 123) || (b =? 125) then tpush (TDelim b) ts
  else if b =? 34 then {| toks := ts; md := MStr [] |}
  else if in_r 48 57 b || (b =? 45) then {| toks := ts; md := MNum [b] |}
  else if is_lower b then {| toks := ts; md := MLit [b] |}
  else {| toks := ts; md := MErr |}.

Definition step_str (ts : list token) (acc : bytes) (b : N) : sst :=
  if b =? 34 then tpush (TStr (rev acc)) ts
  else if b =? 92 then {| toks := ts; md := MEsc acc |}
  else if b <? 32 then {| toks := ts; md := MErr |}
  else if b <? 128 then {| toks := ts; md := MStr (b :: acc) |}
  else if in_r 194 223 b then {| toks := ts; md := MStrU acc 1 1 [b] 128 191 |}
  else if in_r 224 239 b then {| toks := ts; md := MStrU acc 2 1 [b] (lo2 b) (hi2 b) |}
  else if in_r 240 244 b then {| toks := ts; md := MStrU acc 3 1 [b] (lo2 b) (hi2 b) |}
  else {| toks := ts; md := MStr (fffds 1 acc) |}.

Definition lit_token (s : bytes) : option token :=
  if eqb_bytes s (B "true") then Some (TBool true)
  else if eqb_bytes s (B "false") then Some (TBool false)
  else if eqb_bytes s (B "null") then Some TNull
  else None.

Definition sstep (st : sst) (b : N) : sst :=
  let ts := toks st in
  match md st with
  | MBetween => step_between ts b
  | MStr acc => step_str ts acc b
  | MStrU acc need seen pend lo hi =>
      if in_r lo hi b then
        match need with
        | S (S n) => {| toks := ts; md := MStrU acc (S n) (S seen) (b :: pend) 128 191 |}
        | _ => {| toks := ts; md := MStr (b :: pend ++ acc) |}
        end
      else step_str ts (fffds seen acc) b
  | MEsc acc =>
      if (b =? 34) || (b =? 92) || (b =? 47) then {| toks := ts; md := MStr (b :: acc) |}
      else if b =? 98 then {| toks := ts; md := MStr (8 :: acc) |}
      else if b =? 102 then {| toks := ts; md := MStr (12 :: acc) |}
      else if b =? 110 then {| toks := ts; md := MStr (10 :: acc) |}
      else if b =? 114 then {| toks := ts; md := MStr (13 :: acc) |}
      else if b =? 116 then {| toks := ts; md := MStr (9 :: acc) |}
      else if b =? 117 then {| toks := ts; md := MHex acc 4 0 |}
      else {| toks := ts; md := MErr |}
  | MHex acc n v =>
      match unhex b with
      | None => {| toks := ts; md := MErr |}
      | Some d =>
          let v' := v * 16 + d in
          match n with
          | S (S m) => {| toks := ts; md := MHex acc (S m) v' |}
          | _ => {| toks := ts; md := MStr (rev (rune_utf8 v') ++ acc) |}
          end
      end
  | MNum acc =>
      if is_numchar b then {| toks := ts; md := MNum (b :: acc) |}
      else step_between (TNum (rev acc) :: ts) b
  | MLit acc =>
      if is_lower b then {| toks := ts; md := MLit (b :: acc) |}
      else match lit_token (rev acc) with
           | Some t => step_between (t :: ts) b
           | None => {| toks := ts; md := MErr |}
           end
  | MErr => st
  end.

Definition sst0 : sst := {| toks := []; md := MBetween |}.

(** At the end of the input a number or literal is complete (Token scans a
    scalar as a top-level value); an unfinished string is an error. *)
Definition finish (st : sst) : list token :=
  rev (match md st with
       | MNum acc => TNum (rev acc) :: toks st
       | MLit acc => match lit_token (rev acc) with Some t => t :: toks st | None => toks st end
       | _ => toks st
       end).

Definition scan (s : bytes) : list token := finish (fold_left sstep s sst0).

(** ** The decoded entry *)

(** filtering.ResultRule *)
Record crule := { cr_text : bytes; cr_ip : bytes; cr_id : Z }.

(** A value of a DNSRewriteResult response list as generic JSON decoding
    leaves it: a string, or something else (kind only). *)
Inductive rrv := RS (s : bytes) | RNumber (s : bytes) | RBoolean (b : bool) | RNullV | RNested.

Record rewrite := { rw_rcode : Z; rw_resp : list (Z * list rrv) }.

(** String slots, in the order json.Marshal writes them. *)
Definition sT : nat := 0.   Definition sQH : nat := 1.  Definition sQT : nat := 2.
Definition sQC : nat := 3.  Definition sECS : nat := 4. Definition sCID : nat := 5.
Definition sCP : nat := 6.  Definition sUp : nat := 7.  Definition sAns : nat := 8.
Definition sOrig : nat := 9. Definition sIP : nat := 10.
Definition sCanon : nat := 11. Definition sSvc : nat := 12.
Definition n_slots : nat := 13.
(** Flags: Cached, AD, IsFiltered.  Integers: Elapsed, Reason. *)
Definition fCached : nat := 0. Definition fAD : nat := 1. Definition fFiltered : nat := 2.
Definition iElapsed : nat := 0. Definition iReason : nat := 1.

Record centry := {
  ce_s : list bytes;               (* n_slots texts *)
  ce_f : list bool;                (* 3 flags *)
  ce_i : list Z;                   (* 2 integers *)
  ce_iplist : list bytes;          (* Result.IPList, as texts *)
  ce_rules : list crule;
  ce_rw : option rewrite
}.

Definition blank : centry :=
  {| ce_s := repeat [] n_slots; ce_f := [false; false; false]; ce_i := [0%Z; 0%Z];
     ce_iplist := []; ce_rules := []; ce_rw := None |}.

Definition slot (e : centry) (i : nat) : bytes := nth i (ce_s e) [].
Definition fval (e : centry) (i : nat) : bool := nth i (ce_f e) false.
Definition ival (e : centry) (i : nat) : Z := nth i (ce_i e) 0%Z.

Fixpoint set_at {A} (l : list A) (n : nat) (x : A) : list A :=
  match l, n with
  | [], _ => []
  | _ :: r, O => x :: r
  | a :: r, S n => a :: set_at r n x
  end.

Definition set_slot (e : centry) (i : nat) (v : bytes) : centry :=
  {| ce_s := set_at (ce_s e) i v; ce_f := ce_f e; ce_i := ce_i e;
     ce_iplist := ce_iplist e; ce_rules := ce_rules e; ce_rw := ce_rw e |}.
Definition set_flag (e : centry) (i : nat) (v : bool) : centry :=
  {| ce_s := ce_s e; ce_f := set_at (ce_f e) i v; ce_i := ce_i e;
     ce_iplist := ce_iplist e; ce_rules := ce_rules e; ce_rw := ce_rw e |}.
Definition set_int (e : centry) (i : nat) (v : Z) : centry :=
  {| ce_s := ce_s e; ce_f := ce_f e; ce_i := set_at (ce_i e) i v;
     ce_iplist := ce_iplist e; ce_rules := ce_rules e; ce_rw := ce_rw e |}.
Definition set_iplist (e : centry) (v : list bytes) : centry :=
  {| ce_s := ce_s e; ce_f := ce_f e; ce_i := ce_i e;
     ce_iplist := v; ce_rules := ce_rules e; ce_rw := ce_rw e |}.
Definition set_rules (e : centry) (v : list crule) : centry :=
  {| ce_s := ce_s e; ce_f := ce_f e; ce_i := ce_i e;
     ce_iplist := ce_iplist e; ce_rules := v; ce_rw := ce_rw e |}.
Definition set_rw (e : centry) (v : option rewrite) : centry :=
  {| ce_s := ce_s e; ce_f := ce_f e; ce_i := ce_i e;
     ce_iplist := ce_iplist e; ce_rules := ce_rules e; ce_rw := v |}.

(** ** json.Marshal of logEntry *)
Definition is_nil {A} (l : list A) : bool := match l with [] => true | _ => false end.

(** A struct: non-omitted fields joined by commas. *)
Fixpoint join_fields (fs : list bytes) : bytes :=
  match fs with
  | [] => []
  | f :: r => if is_nil f then join_fields r
              else match join_fields r with [] => f | rest => f ++ 44 :: rest end
  end.

Definition obj (fs : list bytes) : bytes := 123 :: join_fields fs ++ [125].
Definition arr (vs : list bytes) : bytes := 91 :: join_fields vs ++ [93].

Definition fld (k : string) (v : bytes) : bytes := 34 :: B k ++ 34 :: 58 :: v.
(** string field with omitempty *)
Definition fld_str_opt (k : string) (s : bytes) : bytes := if is_nil s then [] else fld k (quote s).
Definition fld_int_opt (k : string) (z : Z) : bytes := if (z =? 0)%Z then [] else fld k (dec_bytes z).
Definition fld_true_opt (k : string) (b : bool) : bytes := if b then fld k (B "true") else [].

Definition enc_rule (r : crule) : bytes :=
  obj [fld_str_opt "Text" (cr_text r); fld "IP" (quote (cr_ip r)); fld_int_opt "FilterListID" (cr_id r)].

Definition enc_rrv (v : rrv) : bytes :=
  match v with
  | RS s => quote s
  | RNumber s => s
  | RBoolean b => if b then B "true" else B "false"
  | RNullV => B "null"
  | RNested => B "{}"
  end.

Definition enc_resp (m : list (Z * list rrv)) : bytes :=
  obj (map (fun kv : Z * list rrv =>
              34 :: dec_bytes (fst kv) ++ 34 :: 58 ::
              (match snd kv with [] => B "null" | vs => arr (map enc_rrv vs) end)) m).

Definition enc_rw (w : rewrite) : bytes :=
  obj [if is_nil (rw_resp w) then [] else fld "Response" (enc_resp (rw_resp w));
       fld_int_opt "RCode" (rw_rcode w)].

Definition enc_result (e : centry) : bytes :=
  obj [match ce_rw e with Some w => fld "DNSRewriteResult" (enc_rw w) | None => [] end;
       fld_str_opt "CanonName" (slot e sCanon);
       fld_str_opt "ServiceName" (slot e sSvc);
       if is_nil (ce_iplist e) then [] else fld "IPList" (arr (map quote (ce_iplist e)));
       if is_nil (ce_rules e) then [] else fld "Rules" (arr (map enc_rule (ce_rules e)));
       fld_int_opt "Reason" (ival e iReason);
       fld_true_opt "IsFiltered" (fval e fFiltered)].

Definition encode (e : centry) : bytes :=
  obj [fld "T" (quote (slot e sT));
       fld "QH" (quote (slot e sQH));
       fld "QT" (quote (slot e sQT));
       fld "QC" (quote (slot e sQC));
       fld_str_opt "ECS" (slot e sECS);
       fld_str_opt "CID" (slot e sCID);
       fld "CP" (quote (slot e sCP));
       fld_str_opt "Upstream" (slot e sUp);
       fld_str_opt "Answer" (slot e sAns);
       fld_str_opt "OrigAnswer" (slot e sOrig);
       fld "IP" (quote (slot e sIP));
       fld "Result" (enc_result e);
       fld "Elapsed" (dec_bytes (ival e iElapsed));
       fld_true_opt "Cached" (fval e fCached);
       fld_true_opt "AD" (fval e fAD)].

(** ** decode.go over the token stream *)

(** What Go's parsers accept (supplied by the harness for the texts of a case). *)
Record oracles := {
  o_time : bytes -> bool;     (* time.Parse(time.RFC3339, s) succeeds *)
  o_ip : bytes -> bool;       (* net.ParseIP(s) != nil *)
  o_addr : bytes -> bool;     (* netip.ParseAddr(s) succeeds *)
  o_b64 : bytes -> bool       (* base64.StdEncoding.DecodeString(s) succeeds *)
}.

Definition keq (k : bytes) (s : string) : bool := eqb_bytes k (B s).

Definition valid_cp (v : bytes) : bool :=
  is_nil v || keq v "doh" || keq v "doq" || keq v "dot" || keq v "dnscrypt".

(** logEntryHandlers: [None] = the handler returned an error. *)
Definition str_slot_of_key (k : bytes) : option nat :=
  if keq k "CID" then Some sCID else if keq k "QH" then Some sQH
  else if keq k "QT" then Some sQT else if keq k "QC" then Some sQC
  else if keq k "ECS" then Some sECS else if keq k "Upstream" then Some sUp
  else None.

Definition is_top_key (k : bytes) : bool :=
  match str_slot_of_key k with Some _ => true | None =>
    keq k "IP" || keq k "T" || keq k "CP" || keq k "Answer" || keq k "OrigAnswer" ||
    keq k "Cached" || keq k "AD" || keq k "Elapsed" end.

Definition top_handler (o : oracles) (k : bytes) (v : token) (e : centry) : option centry :=
  match str_slot_of_key k with
  | Some i => Some (match v with TStr s => set_slot e i s | _ => e end)
  | None =>
      if keq k "IP" then
        Some (match v with
              | TStr s => if is_nil (slot e sIP) && o_ip o s then set_slot e sIP s else e
              | _ => e end)
      else if keq k "T" then
        match v with TStr s => if o_time o s then Some (set_slot e sT s) else None | _ => Some e end
      else if keq k "CP" then
        match v with TStr s => if valid_cp s then Some (set_slot e sCP s) else None | _ => Some e end
      else if keq k "Answer" then
        match v with TStr s => if o_b64 o s then Some (set_slot e sAns s) else None | _ => Some e end
      else if keq k "OrigAnswer" then
        match v with TStr s => if o_b64 o s then Some (set_slot e sOrig s) else None | _ => Some e end
      else if keq k "Cached" then Some (match v with TBool b => set_flag e fCached b | _ => e end)
      else if keq k "AD" then Some (match v with TBool b => set_flag e fAD b | _ => e end)
      else if keq k "Elapsed" then
        match v with
        | TNum s => match parse_int s with Some z => Some (set_int e iElapsed z) | None => None end
        | _ => Some e
        end
      else Some e
  end.

Definition blank_rule : crule := {| cr_text := []; cr_ip := []; cr_id := 0%Z |}.

Definition upd_last (rs : list crule) (f : crule -> crule) : list crule :=
  match rev rs with
  | [] => [f blank_rule]
  | l :: r => rev (f l :: r)
  end.

(** resultHandlers *)
Definition is_res_key (k : bytes) : bool :=
  keq k "IsFiltered" || keq k "Rule" || keq k "FilterID" || keq k "Reason" ||
  keq k "ServiceName" || keq k "CanonName".

Definition res_handler (k : bytes) (v : token) (e : centry) : option centry :=
  if keq k "IsFiltered" then Some (match v with TBool b => set_flag e fFiltered b | _ => e end)
  else if keq k "Rule" then
    Some (match v with
          | TStr s => set_rules e (upd_last (ce_rules e)
                        (fun r => {| cr_text := s; cr_ip := cr_ip r; cr_id := cr_id r |}))
          | _ => e end)
  else if keq k "FilterID" then
    match v with
    | TNum s => match parse_int s with
                | Some z => Some (set_rules e (upd_last (ce_rules e)
                              (fun r => {| cr_text := cr_text r; cr_ip := cr_ip r; cr_id := z |})))
                | None => None
                end
    | _ => Some e
    end
  else if keq k "Reason" then
    match v with
    | TNum s => match parse_int s with Some z => Some (set_int e iReason z) | None => None end
    | _ => Some e
    end
  else if keq k "ServiceName" then Some (match v with TStr s => set_slot e sSvc s | _ => e end)
  else if keq k "CanonName" then Some (match v with TStr s => set_slot e sCanon s | _ => e end)
  else Some e.

(** dns.Fqdn (without the escaped-dot subtlety). *)
Definition fqdn (s : bytes) : bytes :=
  match rev s with 46 :: _ => s | _ => s ++ [46] end.

Definition parse_or_0 (s : bytes) : Z := match parse_int s with Some z => z | None => 0%Z end.

(** Insert into a Go map kept as an association list in first-insertion order. *)
Fixpoint map_set (m : list (Z * list rrv)) (k : Z) (v : list rrv) : list (Z * list rrv) :=
  match m with
  | [] => [(k, v)]
  | (k', v') :: r => if (k =? k')%Z then (k, v) :: r else (k', v') :: map_set r k v
  end.

Fixpoint map_get (m : list (Z * list rrv)) (k : Z) : option (list rrv) :=
  match m with
  | [] => None
  | (k', v') :: r => if (k =? k')%Z then Some v' else map_get r k
  end.

Definition map_append (m : list (Z * list rrv)) (k : Z) (v : rrv) : list (Z * list rrv) :=
  map_set m k (match map_get m k with Some l => l ++ [v] | None => [v] end).

(** legacy ReverseHosts item *)
Definition add_ptr (e : centry) (v : bytes) : centry :=
  let v := fqdn v in
  match ce_rw e with
  | None => set_rw e (Some {| rw_rcode := 0; rw_resp := [(12%Z, [RS v])] |})
  | Some w => set_rw e (Some {| rw_rcode := 0; rw_resp := map_append (rw_resp w) 12 (RS v) |})
  end.

Definition has_colon (s : bytes) : bool := existsb (N.eqb 58) s.

(** translateResult *)
Definition translate (e : centry) : centry :=
  if negb ((ival e iReason =? 10)%Z) || is_nil (ce_iplist e) then e else
  let w := match ce_rw e with Some w => w | None => {| rw_rcode := 0; rw_resp := [] |} end in
  let resp := fold_left (fun m ip => map_append m (if has_colon ip then 28%Z else 1%Z) (RS ip))
                        (ce_iplist e) (rw_resp w) in
  set_iplist (set_rw e (Some {| rw_rcode := rw_rcode w; rw_resp := resp |})) [].

Definition ensure_rw (e : centry) : rewrite :=
  match ce_rw e with Some w => w | None => {| rw_rcode := 0; rw_resp := [] |} end.

(** key of a JSON object decoded into map[uint16]: decimal, in range *)
Definition parse_u16 (s : bytes) : option Z :=
  match s with
  | [] => None
  | _ => match digits_val s 0 with
         | Some n => if n <? 65536 then Some (Z.of_N n) else None
         | None => None
         end
  end.

Inductive dstate :=
  | DTop                                   (* decodeLogEntry loop *)
  | DVal (k : bytes)                       (* value of a top-level key *)
  | DRes                                   (* decodeResult loop *)
  | DResVal (k : bytes)
  | DRevHosts
  | DIPList
  | DRules0                                (* decodeResultRules: expects a delimiter *)
  | DRuleTok (i : nat)                     (* decodeResultRuleToken loop *)
  | DRuleVal (k : bytes) (i : nat)
  | DRw                                    (* decodeResultDNSRewriteResult loop *)
  | DRwRCode
  | DResp0                                 (* dec.Decode(&Response): start of the value *)
  | DRespKey
  | DRespArr0 (k : option Z)
  | DRespArr (k : option Z) (vs : list rrv)
  | DRespNest (k : option Z) (vs : list rrv) (depth : nat)
  | DSkip (depth : nat) (back : option (option Z))
                                           (* skip a nested value; then None: DRw, Some k: store an
                                              empty list under k and go on with the next key *)
  | DDone                                  (* decodeLogEntry returned *)
  | DPanic.                                (* index out of range in decodeResultRuleKey *)

Definition is_open (c : N) : bool := (c =? 91) || (c =? 123).

Definition set_resp (e : centry) (m : list (Z * list rrv)) : centry :=
  set_rw e (Some {| rw_rcode := rw_rcode (ensure_rw e); rw_resp := m |}).

Definition resp_commit (e : centry) (k : option Z) (vs : list rrv) : centry :=
  match k with Some k => set_resp e (map_set (rw_resp (ensure_rw e)) k vs) | None => e end.

Definition set_rule_field (e : centry) (o : oracles) (k : bytes) (i : nat) (v : token) : option centry :=
  (* decodeVTokenAndAddRule: one rule is appended when the list is too short *)
  let rs := if (length (ce_rules e) <? S i)%nat then ce_rules e ++ [blank_rule] else ce_rules e in
  let upd f := match nth_error rs i with
               | Some r => Some (set_rules e (set_at rs i (f r)))
               | None => None          (* Rules[i]: index out of range *)
               end in
  if keq k "FilterListID" then
    match v with
    | TNum s => upd (fun r => {| cr_text := cr_text r; cr_ip := cr_ip r; cr_id := parse_or_0 s |})
    | _ => Some (set_rules e rs)
    end
  else if keq k "IP" then
    match v with
    | TStr s => if o_addr o s then upd (fun r => {| cr_text := cr_text r; cr_ip := s; cr_id := cr_id r |})
                else Some (set_rules e rs)
    | _ => Some (set_rules e rs)
    end
  else
    match v with
    | TStr s => upd (fun r => {| cr_text := s; cr_ip := cr_ip r; cr_id := cr_id r |})
    | _ => Some (set_rules e rs)
    end.

(** logEntry.parseDNSRewriteResultIPs: every A / AAAA value becomes
    net.ParseIP of the string it was (nil, printed "<nil>", otherwise). *)
Definition nil_ip : bytes := B "<nil>".
Definition parse_ips (o : oracles) (e : centry) : centry :=
  match ce_rw e with
  | None => e
  | Some w =>
      set_rw e (Some {| rw_rcode := rw_rcode w;
                        rw_resp := map (fun kv : Z * list rrv =>
                          if (fst kv =? 1)%Z || (fst kv =? 28)%Z
                          then (fst kv, map (fun v => match v with
                                                      | RS s => if o_ip o s then RS s else RS nil_ip
                                                      | _ => RS nil_ip
                                                      end) (snd kv))
                          else kv) (rw_resp w) |})
  end.

Definition scalar_rrv (t : token) : rrv :=
  match t with
  | TStr s => RS s | TNum s => RNumber s | TBool b => RBoolean b | TNull => RNullV | TDelim _ => RNested
  end.

Definition dstep (o : oracles) (st : dstate * centry) (t : token) : dstate * centry :=
  let (d, e) := st in
  match d with
  | DTop =>
      match t with
      | TDelim _ => (DTop, e)
      | TStr k => if keq k "Result" then (DRes, e)
                  else if is_top_key k then (DVal k, e) else (DTop, e)
      | _ => (DDone, e)
      end
  | DVal k =>
      match top_handler o k t e with Some e' => (DTop, e') | None => (DDone, e) end
  | DRes =>
      match t with
      | TDelim c => if c =? 125 then (DTop, translate e) else (DRes, e)
      | TStr k =>
          if keq k "ReverseHosts" then (DRevHosts, e)
          else if keq k "IPList" then (DIPList, e)
          else if keq k "Rules" then (DRules0, e)
          else if keq k "DNSRewriteResult" then (DRw, e)
          else if is_res_key k then (DResVal k, e) else (DRes, e)
      | _ => (DTop, translate e)
      end
  | DResVal k =>
      match res_handler k t e with Some e' => (DRes, e') | None => (DTop, translate e) end
  | DRevHosts =>
      match t with
      | TDelim c => if c =? 91 then (DRevHosts, e) else (DRes, e)
      | TStr v => (DRevHosts, add_ptr e v)
      | _ => (DRevHosts, e)
      end
  | DIPList =>
      match t with
      | TDelim c => if c =? 91 then (DIPList, e) else (DRes, e)
      | TStr v => (DIPList, if o_addr o v then set_iplist e (ce_iplist e ++ [v]) else e)
      | _ => (DIPList, e)
      end
  | DRules0 =>
      match t with
      | TDelim _ => (DRuleTok 0, e)
      | _ => (DRes, e)
      end
  | DRuleTok i =>
      match t with
      | TDelim c => if c =? 125 then (DRuleTok (S i), e)
                    else if c =? 93 then (DRes, e) else (DRuleTok i, e)
      | TStr k => if keq k "FilterListID" || keq k "IP" || keq k "Text" then (DRuleVal k i, e)
                  else (DRuleTok i, e)
      | _ => (DRes, e)
      end
  | DRuleVal k i =>
      match set_rule_field e o k i t with
      | Some e' => (DRuleTok i, e')
      | None => (DPanic, e)
      end
  | DRw =>
      match t with
      | TDelim c => if c =? 125 then (DRes, e) else (DRw, e)
      | TStr k => if keq k "RCode" then (DRwRCode, e)
                  else if keq k "Response" then (DResp0, set_resp e (rw_resp (ensure_rw e)))
                  else (DRw, e)
      | _ => (DRes, e)
      end
  | DRwRCode =>
      let w := ensure_rw e in
      (DRw, set_rw e (Some {| rw_rcode := match t with TNum s => parse_or_0 s | _ => rw_rcode w end;
                              rw_resp := rw_resp w |}))
  | DResp0 =>
      match t with
      | TDelim c => if c =? 123 then (DRespKey, e)
                    else if c =? 91 then (DSkip 1 None, e) else (DRw, parse_ips o e)
      | _ => (DRw, parse_ips o e)
      end
  | DRespKey =>
      match t with
      | TStr k => (DRespArr0 (parse_u16 k), e)
      | _ => (DRw, parse_ips o e)    (* the closing brace *)
      end
  | DRespArr0 k =>
      match t with
      (* anything but an array leaves the zero value under the key *)
      | TDelim c => if c =? 91 then (DRespArr k [], e)
                    else if c =? 123 then (DSkip 1 (Some k), e) else (DRespKey, e)
      | _ => (DRespKey, resp_commit e k [])
      end
  | DRespArr k vs =>
      match t with
      | TDelim c => if c =? 93 then (DRespKey, resp_commit e k vs)
                    else if is_open c then (DRespNest k vs 1, e) else (DRespArr k vs, e)
      | _ => (DRespArr k (vs ++ [scalar_rrv t]), e)
      end
  | DRespNest k vs depth =>
      match t with
      | TDelim c => if is_open c then (DRespNest k vs (S depth), e)
                    else match depth with
                         | S (S n) => (DRespNest k vs (S n), e)
                         | _ => (DRespArr k (vs ++ [RNested]), e)
                         end
      | _ => (DRespNest k vs depth, e)
      end
  | DSkip depth back =>
      match t with
      | TDelim c => if is_open c then (DSkip (S depth) back, e)
                    else match depth with
                         | S (S n) => (DSkip (S n) back, e)
                         | _ => match back with
                                | Some k => (DRespKey, resp_commit e k [])
                                | None => (DRw, parse_ips o e)
                                end
                         end
      | _ => (DSkip depth back, e)
      end
  | DDone => (DDone, e)
  | DPanic => (DPanic, e)
  end.

(** decodeLogEntry on a line: the entry, and whether the code panicked. *)
Definition decode_tokens (o : oracles) (ts : list token) : bool * centry :=
  let (d, e) := fold_left (dstep o) ts (DTop, blank) in
  (match d with DPanic => true | _ => false end,
   (* a Result block cut short by the end of the line still runs the deferred translateResult *)
   match d with
   | DRes | DResVal _ | DRevHosts | DIPList | DRules0 | DRuleTok _ | DRuleVal _ _ | DRw | DRwRCode
   | DResp0 | DRespKey | DRespArr0 _ | DRespArr _ _ | DRespNest _ _ _ | DSkip _ _ => translate e
   | _ => e
   end).

Definition decode (o : oracles) (line : bytes) : bool * centry := decode_tokens o (scan line).

(** ** readJSONValue on the raw line (qlogfile.go) *)
Fixpoint is_prefix (p s : bytes) : bool :=
  match p, s with
  | [], _ => true
  | x :: p, y :: s => (x =? y) && is_prefix p s
  | _, [] => false
  end.

(** strings.Index + skip the prefix: the text after the first occurrence. *)
Fixpoint after_first (p s : bytes) : option bytes :=
  if is_prefix p s then Some (skipn (length p) s) else
  match s with [] => None | _ :: r => after_first p r end.

Fixpoint until_quote (s : bytes) : option bytes :=
  match s with
  | [] => None
  | c :: r => if c =? 34 then Some [] else option_map (cons c) (until_quote r)
  end.

Definition read_json_value (line : bytes) (prefix : bytes) : bytes :=
  match after_first prefix line with
  | None => []
  | Some rest => match until_quote rest with Some v => v | None => [] end
  end.

(** ** searchCriterion.quickMatch on the raw line *)
Definition has_bs (s : bytes) : bool := existsb (N.eqb 92) s.

Definition raw_entry (host ip cid : bytes) : entry :=
  {| e_id := 0; e_time := 0; e_len := 0; e_host := host; e_ip := ip; e_cid := cid;
     e_reason := 0; e_filtered := false |}.

Definition pQH : bytes := B """QH"":""".
Definition pIP : bytes := B """IP"":""".
Definition pCID : bytes := B """CID"":""".

(** As the code is now: a raw value with a backslash (= with a JSON escape)
    is left to the full match. *)
Definition quick_line (c : config) (line : bytes) (k : crit) : bool :=
  match k with
  | CStatus _ => true
  | CTerm v a strict =>
      let host := read_json_value line pQH in
      let ip := read_json_value line pIP in
      let cid := read_json_value line pCID in
      if has_bs host || has_bs ip || has_bs cid then true
      else term_match c (raw_entry host ip cid) v a strict
  end.

(** As the code was before the repair (compares the escaped text). *)
Definition quick_line_unfixed (c : config) (line : bytes) (k : crit) : bool :=
  match k with
  | CStatus _ => true
  | CTerm v a strict =>
      term_match c (raw_entry (read_json_value line pQH) (read_json_value line pIP)
                              (read_json_value line pCID)) v a strict
  end.

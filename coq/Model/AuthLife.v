(** C11, round 5: the life cycle around the wrappers.  No proofs here.

    (I) The account set across saves and restarts.  The accounts live in
    [Auth.users] while the process runs and in the [users:] list of
    AdGuardHome.yaml in between.  The code that moves them (these are ALL the
    sites that touch [config.Users] / [Auth.users] in package home):

      - home.go [initUsers]: [InitAuth(..., config.Users, ...)] stores the
        slice in [Auth.users]; then [config.Users = nil];
      - auth.go [Auth.addUser]: [a.users = append(a.users, *u)], called by
        controlinstall.go [handleInstallConfigure] only;
      - auth.go [Auth.usersList]: [users = make([]webUser, len(a.users));
        copy(users, a.users)];
      - config.go [configuration.writeWithTLS]: [if globalContext.auth != nil
        { config.Users = globalContext.auth.usersList() }], then the whole
        object is encoded and written with maybe.WriteFile;
      - config.go [parseConfig]: yaml.Unmarshal of the file into [config]
        (field [Users], key "users"); home.go [detectFirstRun]: first run iff
        the file does not exist.

    (J) Wrappers whose decision depends on mutable state: the world when the
    wrapper is BUILT and the world when the request ARRIVES are two arguments
    of the model.  Every wrapper constructor of the code returns a closure (or
    a struct whose ServeHTTP builds the closure per request) and evaluates
    nothing when it is called: the built-time world is ignored. *)
From AGH Require Import Base.Run Model.Session Model.AuthHttp.
Local Open Scope Z_scope.

(** * (I) Accounts in memory and in the file *)

Definition account := (bytes * bytes)%type.          (* name, stored hash *)
Definition zero_user : account := ([], []).            (* webUser{} *)

(** Go's built-in [copy(dst, src)]: the first min(len dst, len src) elements
    of [dst] are overwritten, the rest of [dst] stays. *)
Fixpoint go_copy {T} (dst src : list T) : list T :=
  match dst, src with
  | _ :: dst', x :: src' => x :: go_copy dst' src'
  | _, _ => dst
  end.

(** [Auth.usersList] with the length given to [make] as a parameter: the code
    has [len(a.users)]. *)
Definition users_list_gen (n : list account -> nat) (us : list account) : list account :=
  go_copy (repeat zero_user (n us)) us.

Definition users_list : list account -> list account := users_list_gen (@length account).

(** One process: [globalContext.firstRun], [globalContext.auth] ([None]: nil;
    otherwise [Auth.users]) and the field [config.Users]. *)
Record proc := { p_first_run : bool; p_auth : option (list account); p_conf_users : list account }.

(** The installation: the [users:] list of the configuration file ([None]: no
    file) and the running process, if any. *)
Record life := { l_file : option (list account); l_proc : option proc }.

Inductive cfg_res :=
  | CfgRejected         (* decodeApplyConfigReq / password length / CheckPort: nothing has been touched yet *)
  | CfgAddUserFails     (* addUser returns an error (empty password, bcrypt) *)
  | CfgStartModsFails   (* startMods returns an error: the user has been added already *)
  | CfgWriteFails       (* config.write returns an error *)
  | CfgOk.

Inductive op :=
  | OBoot (db_opens write_ok : bool)                (* run(), from the start of the process to web.start *)
  | OConfigure (name hash : bytes) (res : cfg_res)  (* the body of handleInstallConfigure; [hash]: what bcrypt produced *)
  | OWrite (ok : bool)                              (* config.write (onConfigModified, a handler, the filter updater) *)
  | OStop.                                          (* the process ends *)

Definition non_empty {T} (l : list T) : bool := match l with [] => false | _ => true end.

Section Life.
(** [ul]: usersList; [k]: the start-up facts of round 2 (Gen.Routes.startup). *)
Variable ul : list account -> list account.
Variable k : boot_code.

Definition set_first_run (b : bool) (p : proc) : proc :=
  {| p_first_run := b; p_auth := p_auth p; p_conf_users := p_conf_users p |}.

(** [writeWithTLS]: what ends up in [config.Users] and, when the file is
    written ([ok]), in the file. *)
Definition write_users (p : proc) : list account :=
  match p_auth p with Some us => ul us | None => p_conf_users p end.

Definition write_proc (ok : bool) (f : option (list account)) (p : proc) : option (list account) * proc :=
  let cu := write_users p in
  (if ok then Some cu else f,
   {| p_first_run := p_first_run p; p_auth := p_auth p; p_conf_users := cu |}).

Definition do_write (ok : bool) (st : life) : life :=
  match l_proc st with
  | None => st
  | Some p => let '(f, p') := write_proc ok (l_file st) p in {| l_file := f; l_proc := Some p' |}
  end.

(** [run]: setupContext ([detectFirstRun]; [parseConfig] unless first run),
    "Save the updated config" ([config.write(nil)] unless first run; at that
    point [globalContext.auth] is still nil; an error is fatal), then
    [globalContext.auth, err = initUsers(); fatalOnError(err)] (round 2's
    [boot]), then initWeb / web.start. *)
Definition do_boot (db write_ok : bool) (st : life) : life :=
  match l_proc st with
  | Some _ => st
  | None =>
      match l_file st with
      | None =>
          match boot k {| b_users := false; b_db_opens := db |} with
          | BootFatal => st
          | BootServe a _ =>
              {| l_file := None;
                 l_proc := Some {| p_first_run := true; p_auth := (if a then Some [] else None); p_conf_users := [] |} |}
          end
      | Some fus =>
          let '(f, p) := write_proc write_ok (Some fus)
                           {| p_first_run := false; p_auth := None; p_conf_users := fus |} in
          if negb write_ok then {| l_file := f; l_proc := None |}
          else
            let cu := p_conf_users p in
            match boot k {| b_users := non_empty cu; b_db_opens := db |} with
            | BootFatal => {| l_file := f; l_proc := None |}
            | BootServe a _ =>
                {| l_file := f;
                   l_proc := Some {| p_first_run := false;
                                     p_auth := (if a then Some cu else None);
                                     (* [config.Users = nil] is behind the nil check *)
                                     p_conf_users := (if a || negb (bc_nil_checked k) then [] else cu) |} |}
            end
      end
  end.

(** [handleInstallConfigure]: [firstRun = false]; [addUser] appends;
    [startMods]; [config.write]; every error branch after the first
    assignment puts [firstRun = true] back (whatever it was) and leaves an
    added user where it is. *)
Definition do_configure (name hash : bytes) (res : cfg_res) (st : life) : life :=
  match l_proc st, res with
  | None, _ => st
  | Some _, CfgRejected => st
  | Some p, _ =>
      match p_auth p with
      | None =>
          (* globalContext.auth.addUser on a nil *Auth: a panic that net/http recovers *)
          {| l_file := l_file st; l_proc := Some (set_first_run false p) |}
      | Some us =>
          match res with
          | CfgAddUserFails => {| l_file := l_file st; l_proc := Some (set_first_run true p) |}
          | _ =>
              let p1 := {| p_first_run := false; p_auth := Some (us ++ [(name, hash)]); p_conf_users := p_conf_users p |} in
              match res with
              | CfgStartModsFails => {| l_file := l_file st; l_proc := Some (set_first_run true p1) |}
              | CfgWriteFails =>
                  let '(f, p2) := write_proc false (l_file st) p1 in
                  {| l_file := f; l_proc := Some (set_first_run true p2) |}
              | _ =>
                  let '(f, p2) := write_proc true (l_file st) p1 in
                  {| l_file := f; l_proc := Some p2 |}
              end
          end
      end
  end.

Definition step (st : life) (o : op) : life :=
  match o with
  | OBoot db wok => do_boot db wok st
  | OConfigure n h res => do_configure n h res st
  | OWrite ok => do_write ok st
  | OStop => {| l_file := l_file st; l_proc := None |}
  end.

Definition run_ops (st : life) (ops : list op) : life := fold_left step ops st.

End Life.

(** What the wrappers of a running process read. *)
Definition proc_users (p : proc) : list account := match p_auth p with Some us => us | None => [] end.
Definition proc_auth_present (p : proc) : bool := match p_auth p with Some _ => true | None => false end.

Definition env_of (p : proc) (e : env) : Prop :=
  e_first_run e = p_first_run p /\ e_auth_present e = proc_auth_present p /\ e_accounts e = proc_users p.

Definition env_with (p : proc) (e : env) : env :=
  {| e_first_run := p_first_run p; e_auth_present := proc_auth_present p; e_accounts := proc_users p;
     e_bcrypt := e_bcrypt e; e_https := e_https e; e_force_https := e_force_https e;
     e_now := e_now e; e_ttl := e_ttl e |}.

(** * (J) The world when a wrapper is built and the world when it is called *)

Section At.
Context {A R : Type}.
Notation H := (handler A R).

(** A wrapper constructor: the world at the time of the call [W(handler)],
    the handler, and then the handler type's own arguments, the first of
    which is the world at the time of the request. *)
Definition wrapper_at := env -> H -> H.

(** The constructors of the code: [return func(w, r) { ... }] and nothing
    else (Gen.Routes.wrappers_lazy), so the first argument is not used. *)
Definition apply_wrapper_at (x : wrapper) : wrapper_at := fun _ h => apply_wrapper x h.

Definition chain_at (Ws : list wrapper_at) (ew : env) (h : H) : H := fold_right (fun W => W ew) h Ws.

Definition apply_chain_at (ws : list wrapper) : env -> H -> H := chain_at (map apply_wrapper_at ws).

(** NOT the code: [preInstall] looking at [globalContext.firstRun] when it is
    called, and returning the bare handler or a constant 403. *)
Definition pre_install_at_wrap : wrapper_at := fun ew h =>
  if e_first_run ew then h else fun _ w _ => (w, AStatus 403).

(** NOT the code: [optionalAuth] deciding [authRequired] when it is called. *)
Definition optional_auth_at_wrap : wrapper_at := fun ew h =>
  if e_auth_required ew then optional_auth h else h.

End At.

(** The same for handlers that are told whether the control lock is held
    (what the evaluator runs). *)
Definition apply_chain_l_at {A R} (ws : list wrapper) (ew : env) (h : bool -> handler A R) : bool -> handler A R :=
  apply_chain_l ws h.

(** Executable model of internal/configmigrate (C13): the untyped YAML tree
    with Go's dynamic types, [fieldVal]/[moveVal] of yaml.go, the 29 steps
    written out one by one, and [Migrator.Migrate].  No proofs here.

    Conventions.  A Go [map[string]any] is an association list with unique
    keys ([get]/[upd]/[del]); key order carries no meaning (the evaluator
    compares up to order).  Steps mutate the map in place in Go; here they
    return the new tree.  Whenever a step returns an error the caller discards
    the map ([Migrate] returns the input body), so a sequence of moves joined
    by [errors.Join] is modelled as failing at the first error.  File deletions
    of steps 1 and 2 are outside the model. *)
From Coq Require Import List ZArith String Ascii Bool DecimalString.
Import ListNotations.
Local Open Scope string_scope.
Local Open Scope list_scope.
Local Open Scope Z_scope.

(** dnsforward.UpstreamMode constants written by step 28. *)
Inductive mode := MLoadBalance | MParallel | MFastest.

Inductive val :=
  | VNull
  | VBool (b : bool)
  | VInt (z : Z)                                (* Go int *)
  | VStr (s : string)
  | VFloat (as_int : option Z) (text : string)  (* float64; [as_int]: what yaml re-reads its printed form as, when that is an int *)
  | VOther (text : string)                      (* time.Time, uint64 ...: types no step asserts *)
  | VArr (l : list val)                         (* []any *)
  | VObj (m : list (string * val))              (* map[string]any, non-nil *)
  (* typed values steps leave in the map; a re-parsed file has plain ones *)
  | VDur (ns : Z)                               (* timeutil.Duration *)
  | VMode (m : mode)                            (* dnsforward.UpstreamMode *)
  | VStrs (l : list string).                    (* []string *)

Definition obj := list (string * val).

Fixpoint get (k : string) (m : obj) : option val :=
  match m with
  | [] => None
  | (k', v) :: m' => if String.eqb k k' then Some v else get k m'
  end.

Fixpoint upd (k : string) (v : val) (m : obj) : obj :=
  match m with
  | [] => [(k, v)]
  | (k', v') :: m' => if String.eqb k k' then (k, v) :: m' else (k', v') :: upd k v m'
  end.

Fixpoint del (k : string) (m : obj) : obj :=
  match m with
  | [] => []
  | (k', v') :: m' => if String.eqb k k' then del k m' else (k', v') :: del k m'
  end.

(** Outcome of Go code: value, error, or run-time panic. *)
Inductive res (A : Type) := Ok (a : A) | Err | Panic.
Arguments Ok {A} a. Arguments Err {A}. Arguments Panic {A}.

Definition bind {A B} (r : res A) (f : A -> res B) : res B :=
  match r with Ok a => f a | Err => Err | Panic => Panic end.
Notation "x <- r ;; k" := (bind r (fun x => k)) (at level 61, r at next level, right associativity).

Definition of_opt {A} (o : option A) : res A := match o with Some a => Ok a | None => Err end.

Fixpoint map_res {A B} (f : A -> res B) (l : list A) : res (list B) :=
  match l with
  | [] => Ok []
  | a :: l' => b <- f a ;; bs <- map_res f l' ;; Ok (b :: bs)
  end.

(** ** yaml.go *)

Inductive ty := TAny | TInt | TStr | TBool | TArr | TObj.

(** [val.(T)] on a non-nil interface value. *)
Definition has_ty (t : ty) (v : val) : bool :=
  match t, v with
  | TAny, _ => true
  | TInt, VInt _ => true
  | TInt, VFloat (Some _) _ => true      (* wholeFloatAs: a float64 the encoder prints as an integer *)
  | TStr, VStr _ => true
  | TBool, VBool _ => true
  | TArr, VArr _ => true
  | TObj, VObj _ => true
  | _, _ => false
  end.

Definition zero (t : ty) : val :=
  match t with
  | TAny => VNull | TInt => VInt 0 | TStr => VStr "" | TBool => VBool false
  | TArr => VArr [] | TObj => VObj []
  end.

(** What [fieldVal[T]] hands back for a value it accepts: the value itself,
    except that for [T = int] a whole float is converted ([wholeFloatAs]:
    exactly the floats whose printed form yaml reads back as an int). *)
Definition coerce (t : ty) (v : val) : val :=
  match t, v with
  | TInt, VFloat (Some z) _ => VInt z
  | _, _ => v
  end.

(** [(v, ok, err)]: [FAbsent] = (zero, false, nil); [FOk v] = (v, true, nil);
    [FErr] = (zero, false, err). *)
Inductive fv := FAbsent | FOk (v : val) | FErr.

Definition field_val (t : ty) (m : obj) (k : string) : fv :=
  match get k m with
  | None => FAbsent
  | Some VNull =>
      match t with
      | TObj | TArr => FAbsent            (* a null section counts as absent *)
      | _ => FOk (zero t)
      end
  | Some v => if has_ty t v then FOk (coerce t v) else FErr
  end.

(** The value a caller sees in [v] whatever [ok] and [err] are. *)
Definition fv_val (t : ty) (r : fv) : val := match r with FOk v => v | _ => zero t end.

Definition zint (v : val) : Z := match v with VInt z => z | _ => 0 end.
Definition zstr (v : val) : string := match v with VStr s => s | _ => "" end.
Definition zbool (v : val) : bool := match v with VBool b => b | _ => false end.
Definition zarr (v : val) : list val := match v with VArr l => l | _ => [] end.
Definition zobj (v : val) : obj := match v with VObj m => m | _ => [] end.

(** [moveVal[T](src, dst, srcKey, dstKey)] for two different maps; [None] = error. *)
Definition move_val (t : ty) (src dst : obj) (sk dk : string) : option (obj * obj) :=
  match field_val t src sk with
  | FOk v => Some (del sk src, upd dk v dst)
  | FAbsent => Some (src, dst)
  | FErr => None
  end.

(** [moveVal[T](m, m, srcKey, dstKey)]: source and destination are the same map. *)
Definition move_in (t : ty) (m : obj) (sk dk : string) : option obj :=
  match field_val t m sk with
  | FOk v => Some (del sk (upd dk v m))
  | FAbsent => Some m
  | FErr => None
  end.

(** A run of [moveVal] calls from [src] into [dst]. *)
Fixpoint moves (l : list (ty * string * string)) (src dst : obj) : option (obj * obj) :=
  match l with
  | [] => Some (src, dst)
  | (t, sk, dk) :: l' =>
      match move_val t src dst sk dk with
      | Some (s', d') => moves l' s' d'
      | None => None
      end
  end.

(** ** Arithmetic and text of durations *)

Definition wrap64 (z : Z) : Z := (z + 2 ^ 63) mod 2 ^ 64 - 2 ^ 63.
Definition ns_hour : Z := 3600 * 1000000000.
Definition ns_day : Z := 24 * ns_hour.

Definition dec (z : Z) : string := NilZero.string_of_uint (N.to_uint (Z.to_N z)).

Fixpoint zeros (n : nat) : string := match n with O => "" | S n' => String "0" (zeros n') end.

(** [fmtFrac]: the fraction [v mod 10^prec] with trailing zeros dropped. *)
Fixpoint trim_frac (fuel : nat) (f : Z) (prec : nat) : Z * nat :=
  match fuel with
  | O => (f, prec)
  | S fuel' => if (f mod 10 =? 0) && negb (f =? 0) then trim_frac fuel' (f / 10) (pred prec) else (f, prec)
  end.

Definition fmt_frac (v : Z) (prec : nat) : string :=
  let f := v mod 10 ^ Z.of_nat prec in
  if f =? 0 then ""
  else let '(f', p') := trim_frac prec f prec in
       let d := dec f' in
       ("." ++ zeros (p' - String.length d) ++ d)%string.

Definition micro : string := String (ascii_of_nat 194) (String (ascii_of_nat 181) "s").

(** [time.Duration.String]. *)
Definition go_dur_string (d : Z) : string :=
  let u := Z.abs d in
  let body :=
    if u =? 0 then "0s"
    else if u <? 1000 then (dec u ++ "ns")%string
    else if u <? 1000000 then (dec (u / 1000) ++ fmt_frac u 3 ++ micro)%string
    else if u <? 1000000000 then (dec (u / 1000000) ++ fmt_frac u 6 ++ "ms")%string
    else
      let secs := u / 1000000000 in
      let s := (dec (secs mod 60) ++ fmt_frac u 9 ++ "s")%string in
      let mins := secs / 60 in
      if mins =? 0 then s
      else
        let ms := (dec (mins mod 60) ++ "m" ++ s)%string in
        let hours := mins / 60 in
        if hours =? 0 then ms else (dec hours ++ "h" ++ ms)%string in
  if d <? 0 then ("-" ++ body)%string else body.

Definition drop_last (n : nat) (s : string) : string := substring 0 (String.length s - n) s.

(** [timeutil.Duration.String]: drops a trailing "0s" / "0m0s". *)
Definition dur_string (d : Z) : string :=
  let str := go_dur_string d in
  let rounded := Z.quot d 1000000000 in
  if (rounded =? 0) || negb (rounded * 1000000000 =? d) || negb (Z.rem rounded 60 =? 0) then str
  else if negb (Z.quot (Z.rem rounded 3600) 60 =? 0) then drop_last 2 str
  else drop_last 4 str.

Definition mode_str (m : mode) : string :=
  match m with MLoadBalance => "load_balance" | MParallel => "parallel" | MFastest => "fastest_addr" end.

(** ** External functions, supplied as oracles *)

Record oracles := {
  o_bcrypt : string -> option string;   (* bcrypt.GenerateFromPassword, [None] = error *)
  o_quic : string -> string;            (* addQUICPort(s, 784): net/url + netutil *)
  o_addr : string -> option string;     (* netip.ParseAddr; the text AddrPort.String prints before ":port" *)
  o_glob : string                       (* filepath.Join(dataDir, "userfilters", "*") *)
}.

(** [filepath.IsAbs] on unix. *)
Definition is_abs (s : string) : bool := prefix "/" s.

(** ** The steps *)

Definition step := option obj -> res obj.

(** [diskConf["schema_version"] = n]: the first statement of every step;
    assignment into a nil map panics. *)
Definition stamp (n : Z) (d : option obj) : res obj :=
  match d with
  | None => Panic
  | Some m => Ok (upd "schema_version" (VInt n) m)
  end.

(** Read section [k] as an object; absent or null: nothing to do; other type:
    error; otherwise run [f] on it and store the result back under [k]. *)
Definition with_obj (m : obj) (k : string) (f : obj -> res obj) : res obj :=
  match field_val TObj m k with
  | FAbsent => Ok m
  | FErr => Err
  | FOk v => r <- f (zobj v) ;; Ok (upd k (VObj r) m)
  end.

Definition safe_search0 : obj :=
  [("enabled", VBool true); ("bing", VBool true); ("duckduckgo", VBool true); ("google", VBool true);
   ("pixabay", VBool true); ("yandex", VBool true); ("youtube", VBool true)].

Definition schedule0 : val := VObj [("time_zone", VStr "Local")].

Section Steps.
Variable O : oracles.

Definition step1 : step := fun d => stamp 1 d.

Definition step2 : step := fun d =>
  m <- stamp 2 d ;; of_opt (move_in TAny m "coredns" "dns").

Definition step3 : step := fun d =>
  m <- stamp 3 d ;;
  with_obj m "dns" (fun dns =>
    match field_val TAny dns "bootstrap_dns" with
    | FOk b => Ok (upd "bootstrap_dns" (VArr [b]) dns)
    | _ => Ok dns
    end).

Definition client4 (c : val) : val :=
  match c with
  | VObj o => VObj (upd "use_global_blocked_services" (VBool true) o)
  | _ => c
  end.

Definition step4 : step := fun d =>
  m <- stamp 4 d ;;
  match field_val TArr m "clients" with
  | FOk v => Ok (upd "clients" (VArr (map client4 (zarr v))) m)
  | _ => Ok m
  end.

Definition step5 : step := fun d =>
  m <- stamp 5 d ;;
  match move_val TStr m [] "auth_name" "name" with
  | None => Err
  | Some (m1, user) =>
      match field_val TStr m1 "auth_pass" with
      | FErr => Err
      | FAbsent => Ok m1
      | FOk p =>
          match o_bcrypt O (zstr p) with
          | None => Err
          | Some h => Ok (upd "users" (VArr [VObj (upd "password" (VStr h) user)]) (del "auth_pass" m1))
          end
      end
  end.

Definition nonempty_id (v : val) : list val := if String.eqb (zstr v) "" then [] else [v].

Definition client6 (c : val) : res val :=
  match c with
  | VObj o =>
      match field_val TStr o "ip", field_val TStr o "mac" with
      | FErr, _ => Err
      | _, FErr => Err
      | r1, r2 =>
          Ok (VObj (upd "ids" (VArr (nonempty_id (fv_val TStr r1) ++ nonempty_id (fv_val TStr r2))) o))
      end
  | _ => Err
  end.

Definition step6 : step := fun d =>
  m <- stamp 6 d ;;
  match field_val TArr m "clients" with
  | FAbsent => Ok m
  | FErr => Err
  | FOk v => cl <- map_res client6 (zarr v) ;; Ok (upd "clients" (VArr cl) m)
  end.

Definition moves7 : list (ty * string * string) :=
  [(TStr, "gateway_ip", "gateway_ip"); (TStr, "subnet_mask", "subnet_mask");
   (TStr, "range_start", "range_start"); (TStr, "range_end", "range_end");
   (TInt, "lease_duration", "lease_duration"); (TInt, "icmp_timeout_msec", "icmp_timeout_msec")].

Definition step7 : step := fun d =>
  m <- stamp 7 d ;;
  match field_val TObj m "dhcp" with
  | FOk v =>
      match moves moves7 (zobj v) [] with
      | None => Err
      | Some (dhcp, v4) => Ok (upd "dhcp" (VObj (upd "dhcpv4" (VObj v4) dhcp)) m)
      end
  | _ => Ok m     (* the error is dropped *)
  end.

Definition step8 : step := fun d =>
  m <- stamp 8 d ;;
  with_obj m "dns" (fun dns =>
    match field_val TStr dns "bind_host" with
    | FAbsent => Ok dns
    | FErr => Err
    | FOk b => Ok (upd "bind_hosts" (VArr [b]) (del "bind_host" dns))
    end).

Definition step9 : step := fun d =>
  m <- stamp 9 d ;;
  with_obj m "dns" (fun dns => of_opt (move_in TStr dns "autohost_tld" "local_domain_name")).

Definition quic_elem (v : val) : res val :=
  match v with VStr s => Ok (VStr (o_quic O s)) | _ => Err end.

Definition quic_field (k : string) (dns : obj) : res obj :=
  match field_val TArr dns k with
  | FErr => Err
  | FAbsent => Ok dns
  | FOk v => l <- map_res quic_elem (zarr v) ;; Ok (upd k (VArr l) dns)
  end.

Definition step10 : step := fun d =>
  m <- stamp 10 d ;;
  with_obj m "dns" (fun dns =>
    dns1 <- quic_field "upstream_dns" dns ;; quic_field "local_ptr_upstreams" dns1).

Definition step11 : step := fun d =>
  m <- stamp 11 d ;;
  match field_val TInt m "rlimit_nofile" with
  | FErr => Err
  | r =>
      Ok (upd "os" (VObj [("group", VStr ""); ("rlimit_nofile", fv_val TInt r); ("user", VStr "")])
            (del "rlimit_nofile" m))
  end.

Definition step12 : step := fun d =>
  m <- stamp 12 d ;;
  with_obj m "dns" (fun dns =>
    match field_val TInt dns "querylog_interval" with
    | FErr => Err
    | r =>
        let ivl := match r with FOk v => zint v | _ => 90 end in
        Ok (upd "querylog_interval" (VDur (wrap64 (ivl * ns_day))) dns)
    end).

Definition step13 : step := fun d =>
  m <- stamp 13 d ;;
  match field_val TObj m "dns" with
  | FAbsent => Ok m
  | FErr => Err
  | FOk dnsv =>
      match field_val TObj m "dhcp" with
      | FAbsent => Ok m
      | FErr => Err
      | FOk dhcpv =>
          match move_val TStr (zobj dnsv) (zobj dhcpv) "local_domain_name" "local_domain_name" with
          | None => Err
          | Some (dns, dhcp) => Ok (upd "dhcp" (VObj dhcp) (upd "dns" (VObj dns) m))
          end
      end
  end.

Definition runtime0 : obj :=
  [("whois", VBool true); ("arp", VBool true); ("rdns", VBool false); ("dhcp", VBool true); ("hosts", VBool true)].

Definition clients14 (persistent : val) (rt : obj) : val :=
  VObj [("persistent", persistent); ("runtime_sources", VObj rt)].

Definition step14 : step := fun d =>
  m <- stamp 14 d ;;
  match field_val TArr m "clients" with
  | FErr => Err
  | r =>
      let persistent := match r with FOk v => v | _ => VArr [] end in
      match field_val TObj m "dns" with
      | FErr => Err
      | FAbsent => Ok (upd "clients" (clients14 persistent runtime0) m)
      | FOk dnsv =>
          match move_val TBool (zobj dnsv) runtime0 "resolve_clients" "rdns" with
          | None => Err
          | Some (dns, rt) => Ok (upd "dns" (VObj dns) (upd "clients" (clients14 persistent rt) m))
          end
      end
  end.

Definition qlog0 : obj :=
  [("ignored", VArr []); ("enabled", VBool true); ("file_enabled", VBool true);
   ("interval", VStr "2160h"); ("size_memory", VInt 1000)].

Definition moves15 : list (ty * string * string) :=
  [(TBool, "querylog_enabled", "enabled"); (TBool, "querylog_file_enabled", "file_enabled");
   (TAny, "querylog_interval", "interval"); (TInt, "querylog_size_memory", "size_memory")].

Definition step15 : step := fun d =>
  m <- stamp 15 d ;;
  match field_val TObj m "dns" with
  | FAbsent => Ok m
  | FErr => Err
  | FOk dnsv =>
      match moves moves15 (zobj dnsv) qlog0 with
      | None => Err
      | Some (dns, qlog) => Ok (upd "dns" (VObj dns) (upd "querylog" (VObj qlog) m))
      end
  end.

Definition stats0 : obj := [("enabled", VBool true); ("interval", VInt 1); ("ignored", VArr [])].

Definition step16 : step := fun d =>
  m <- stamp 16 d ;;
  match field_val TObj m "dns" with
  | FAbsent => Ok m
  | FErr => Err
  | FOk dnsv =>
      let dns := zobj dnsv in
      match field_val TInt dns "statistics_interval" with
      | FErr => Err
      | FAbsent => Ok (upd "statistics" (VObj stats0) m)
      | FOk v =>
          let stats := if zint v =? 0 then upd "enabled" (VBool false) stats0 else upd "interval" v stats0 in
          Ok (upd "dns" (VObj (del "statistics_interval" dns)) (upd "statistics" (VObj stats) m))
      end
  end.

Definition step17 : step := fun d =>
  m <- stamp 17 d ;;
  with_obj m "dns" (fun dns =>
    let enabled := fv_val TBool (field_val TBool dns "edns_client_subnet") in
    Ok (upd "edns_client_subnet"
          (VObj [("enabled", enabled); ("use_custom", VBool false); ("custom_ip", VStr "")]) dns)).

Definition step18 : step := fun d =>
  m <- stamp 18 d ;;
  with_obj m "dns" (fun dns =>
    match move_val TBool dns safe_search0 "safesearch_enabled" "enabled" with
    | None => Err
    | Some (dns', ss) => Ok (upd "safe_search" (VObj ss) dns')
    end).

Definition client19 (c : val) : val :=
  match c with
  | VObj o =>
      match move_val TBool o safe_search0 "safesearch_enabled" "enabled" with
      | Some (o', ss) => VObj (upd "safe_search" (VObj ss) o')
      | None => VObj (upd "safe_search" (VObj safe_search0) o)    (* the error is only logged *)
      end
  | _ => c
  end.

Definition step19 : step := fun d =>
  m <- stamp 19 d ;;
  with_obj m "clients" (fun clients =>
    match field_val TArr clients "persistent" with
    | FOk v => Ok (upd "persistent" (VArr (map client19 (zarr v))) clients)
    | _ => Ok clients
    end).

Definition step20 : step := fun d =>
  m <- stamp 20 d ;;
  with_obj m "statistics" (fun stats =>
    match field_val TInt stats "interval" with
    | FErr => Err
    | r =>
        let i := match r with FOk v => zint v | _ => 0 end in
        let ivl := if i =? 0 then 1 else i in
        Ok (upd "interval" (VDur (wrap64 (ivl * ns_day))) stats)
    end).

Definition step21 : step := fun d =>
  m <- stamp 21 d ;;
  with_obj m "dns" (fun dns =>
    match move_val TArr dns [("schedule", schedule0)] "blocked_services" "ids" with
    | None => Err
    | Some (dns', svcs) => Ok (upd "blocked_services" (VObj svcs) dns')
    end).

Definition client22 (c : val) : res val :=
  match c with
  | VObj o =>
      match field_val TArr o "blocked_services" with
      | FErr => Err
      | FAbsent => Ok c
      | FOk s => Ok (VObj (upd "blocked_services" (VObj [("ids", s); ("schedule", schedule0)]) o))
      end
  | _ => Err
  end.

Definition step22 : step := fun d =>
  m <- stamp 22 d ;;
  with_obj m "clients" (fun clients =>
    match field_val TArr clients "persistent" with
    | FAbsent => Ok clients
    | FErr => Err
    | FOk v => l <- map_res client22 (zarr v) ;; Ok (upd "persistent" (VArr l) clients)
    end).

Definition step23 : step := fun d =>
  m <- stamp 23 d ;;
  match field_val TStr m "bind_host" with
  | FAbsent => Ok m
  | FErr => Err
  | FOk b =>
      match o_addr O (zstr b) with
      | None => Err
      | Some host =>
          match field_val TInt m "bind_port", field_val TInt m "web_session_ttl" with
          | FErr, _ => Err
          | _, FErr => Err
          | rp, rt =>
              let port := zint (fv_val TInt rp) mod 65536 in
              let ttl := wrap64 (zint (fv_val TInt rt) * ns_hour) in
              Ok (del "web_session_ttl" (del "bind_port" (del "bind_host"
                    (upd "http" (VObj [("address", VStr (host ++ ":" ++ dec port)%string);
                                       ("session_ttl", VStr (dur_string ttl))]) m))))
          end
      end
  end.

Definition moves24 : list (ty * string * string) :=
  [(TStr, "log_file", "file"); (TInt, "log_max_backups", "max_backups"); (TInt, "log_max_size", "max_size");
   (TInt, "log_max_age", "max_age"); (TBool, "log_compress", "compress");
   (TBool, "log_localtime", "local_time"); (TBool, "verbose", "verbose")].

Definition step24 : step := fun d =>
  m <- stamp 24 d ;;
  match moves moves24 m [] with
  | None => Err
  | Some (m', []) => Ok m'
  | Some (m', logobj) => Ok (upd "log" (VObj logobj) m')
  end.

Definition pprof0 : obj := [("enabled", VBool false); ("port", VInt 6060)].

Definition step25 : step := fun d =>
  m <- stamp 25 d ;;
  match field_val TObj m "http" with
  | FAbsent => Ok m
  | FErr => Err
  | FOk hv =>
      match move_val TBool m pprof0 "debug_pprof" "enabled" with
      | None => Err
      | Some (m', pprof) => Ok (upd "http" (VObj (upd "pprof" (VObj pprof) (zobj hv))) m')
      end
  end.

Definition same (t : ty) (k : string) : ty * string * string := (t, k, k).

Definition moves26 : list (ty * string * string) :=
  [same TBool "filtering_enabled"; same TInt "filters_update_interval"; same TBool "parental_enabled";
   same TBool "safebrowsing_enabled"; same TInt "safebrowsing_cache_size"; same TInt "safesearch_cache_size";
   same TInt "parental_cache_size"; same TObj "safe_search"; same TArr "rewrites";
   same TObj "blocked_services"; same TBool "protection_enabled"; same TStr "blocking_mode";
   same TStr "blocking_ipv4"; same TStr "blocking_ipv6"; same TInt "blocked_response_ttl";
   same TAny "protection_disabled_until"; same TStr "parental_block_host"; same TStr "safebrowsing_block_host"].

Definition step26 : step := fun d =>
  m <- stamp 26 d ;;
  match field_val TObj m "dns" with
  | FAbsent => Ok m
  | FErr => Err
  | FOk dnsv =>
      match moves moves26 (zobj dnsv) [] with
      | None => Err
      | Some (dns, []) => Ok (upd "dns" (VObj dns) m)
      | Some (dns, flt) => Ok (upd "filtering" (VObj flt) (upd "dns" (VObj dns) m))
      end
  end.

Definition dot27 (v : val) : val :=
  match v with
  | VStr s => if String.eqb s "." then VStr "|.^" else v
  | _ => v
  end.

Definition replace_dot (k : string) (m : obj) : res obj :=
  with_obj m k (fun o =>
    match field_val TArr o "ignored" with
    | FErr => Err
    | FAbsent => Ok o
    | FOk v => Ok (upd "ignored" (VArr (map dot27 (zarr v))) o)
    end).

Definition step27 : step := fun d =>
  m <- stamp 27 d ;;
  m1 <- replace_dot "querylog" m ;; replace_dot "statistics" m1.

Definition step28 : step := fun d =>
  m <- stamp 28 d ;;
  with_obj m "dns" (fun dns =>
    let all := zbool (fv_val TBool (field_val TBool dns "all_servers")) in
    let fastest := zbool (fv_val TBool (field_val TBool dns "fastest_addr")) in
    let md := if all then MParallel else if fastest then MFastest else MLoadBalance in
    Ok (del "fastest_addr" (del "all_servers" (upd "upstream_mode" (VMode md) dns)))).

Definition filter29 (c : val) : res (list string) :=
  match c with
  | VObj f =>
      match field_val TStr f "url" with
      | FOk u => Ok (if is_abs (zstr u) then [zstr u] else [])
      | _ => Ok []
      end
  | _ => Err
  end.

Definition step29 : step := fun d =>
  m <- stamp 29 d ;;
  match field_val TArr m "filters" with
  | FAbsent => Ok m
  | FErr => Err
  | FOk v =>
      ps <- map_res filter29 (zarr v) ;;
      with_obj m "filtering" (fun flt =>
        Ok (upd "safe_fs_patterns" (VStrs (o_glob O :: List.concat ps)) flt))
  end.

(** The table of [upgradeConfigSchema], in order; entry [i] upgrades version
    [i] to [i+1].  Compared with the table extracted from migrator.go. *)
Definition steps : list (string * step) :=
  [("migrateTo1", step1); ("migrateTo2", step2); ("migrateTo3", step3); ("migrateTo4", step4);
   ("migrateTo5", step5); ("migrateTo6", step6); ("migrateTo7", step7); ("migrateTo8", step8);
   ("migrateTo9", step9); ("migrateTo10", step10); ("migrateTo11", step11); ("migrateTo12", step12);
   ("migrateTo13", step13); ("migrateTo14", step14); ("migrateTo15", step15); ("migrateTo16", step16);
   ("migrateTo17", step17); ("migrateTo18", step18); ("migrateTo19", step19); ("migrateTo20", step20);
   ("migrateTo21", step21); ("migrateTo22", step22); ("migrateTo23", step23); ("migrateTo24", step24);
   ("migrateTo25", step25); ("migrateTo26", step26); ("migrateTo27", step27); ("migrateTo28", step28);
   ("migrateTo29", step29)].

Definition last_version : Z := 29.

Fixpoint run_steps (l : list step) (m : obj) : res obj :=
  match l with
  | [] => Ok m
  | s :: l' => m' <- s (Some m) ;; run_steps l' m'
  end.

(** [upgrades[current:target]] applied in order. *)
Definition upgrade (cur tgt : nat) (m : obj) : res obj :=
  run_steps (firstn (tgt - cur) (skipn cur (map snd steps))) m.

(** What [Migrate] returns: the input body with an error, the input body
    unchanged ("not upgraded"), a new body encoding the tree, or a panic. *)
Inductive outcome := OErr | OSame | ONew (m : obj) | OPanic.

(** [top]: the document as decoded into [yobj{}]; [None] is the nil map an
    explicit null document leaves behind. *)
Definition migrate (top : option obj) (target : Z) : outcome :=
  let m := match top with None => [] | Some m => m end in
  match field_val TInt m "schema_version" with
  | FErr => OErr
  | r =>
      let cur := zint (fv_val TInt r) mod 2 ^ 64 in      (* uint(currentInt) *)
      if cur >? target then OErr
      else if target >? last_version then OErr
      else if cur =? target then OSame
      else match upgrade (Z.to_nat cur) (Z.to_nat target) m with
           | Ok m' => ONew m'
           | Err => OErr
           | Panic => OPanic
           end
  end.

End Steps.

(** ** Serialise and re-parse: erases the Go types a file cannot carry. *)
Fixpoint norm (v : val) : val :=
  match v with
  | VFloat (Some z) _ => VInt z
  | VDur ns => VStr (dur_string ns)
  | VMode md => VStr (mode_str md)
  | VStrs l => VArr (map VStr l)
  | VArr l => VArr (map norm l)
  | VObj m => VObj (map (fun kv => (fst kv, norm (snd kv))) m)
  | _ => v
  end.

Definition norm_obj (m : obj) : obj := map (fun kv => (fst kv, norm (snd kv))) m.

(** Model of the filter-list refresh in internal/filtering/filter.go (C15):
    [updateIntl]/[finalizeUpdate], [refreshFiltersArray], [refreshFiltersIntl]
    and the part of [enableFiltersLocked]/[newRuleStorage] that decides which
    text is in force.  No proofs here.

    A list is identified by its ID (IDs are unique over both arrays, as
    [idGenerator] guarantees; URL is constant during a refresh, so the
    ID-and-URL match of the copy-back loop is a match on the ID).  Files are a
    finite map ID -> content (absent = no file).  The engine holds, per
    enabled list, the content its file had when the engine was last rebuilt
    (urlfilter keeps the replaced file open, so a later rename does not show
    through).  Names, timestamps and the ".old" files are not modelled. *)
From Coq Require Import NArith List Bool.
From AGH Require Import Base.Run Model.RuleListParser.
Import ListNotations.
Local Open Scope N_scope.

Record flist := { f_id : N; f_enabled : bool; f_count : N; f_sum : N }.

Definition files := list (N * bytes).
Definition fget (i : N) (fs : files) : option bytes :=
  match find (fun e => fst e =? i) fs with Some e => Some (snd e) | None => None end.
Definition fset (i : N) (c : bytes) (fs : files) : files :=
  (i, c) :: filter (fun e => negb (fst e =? i)) fs.

(** What the reader of a list does in one refresh. *)
Inductive outcome :=
  | OOpenErr                                  (* connection error, status <> 200, unreadable / unsafe path *)
  | OBody (data : bytes) (read_err : bool)    (* body bytes delivered, then EOF or an error *)
  | ORenameFail (data : bytes).               (* complete body, but [CloseReplace] of the pending
                                                 file fails.  Not among the property's failures and
                                                 not produced by the harness: model of the code only *)

Record engine := { e_block : list (N * bytes); e_allow : list (N * bytes) }.

Record rstate := {
  r_block : list flist;
  r_allow : list flist;
  r_files : files;
  r_engine : engine;
}.

(** Result of [update] for one list. *)
Record upd := { u_id : N; u_updated : bool; u_err : bool; u_count : N; u_sum : N }.

Section Refresh.
  Variable crc : N -> bytes -> N.

  (** [updateIntl] + [finalizeUpdate]: the pending file replaces the list's
      file only if parsing succeeded and the checksum differs. *)
  Definition update_one (l : flist) (o : outcome) (fs : files) : upd * files :=
    let same := {| u_id := f_id l; u_updated := false; u_err := false; u_count := 0; u_sum := f_sum l |} in
    let failed := {| u_id := f_id l; u_updated := false; u_err := true; u_count := 0; u_sum := f_sum l |} in
    match o with
    | OOpenErr => (failed, fs)
    | OBody data re =>
        match parse crc data re with
        | (_, Some _) => (failed, fs)
        | (st, None) =>
            if p_sum st =? f_sum l then (same, fs)
            else ({| u_id := f_id l; u_updated := true; u_err := false;
                     u_count := p_count st; u_sum := p_sum st |},
                  fset (f_id l) (output st) fs)
        end
    | ORenameFail data =>
        (* [finalizeUpdate] returns the error before filling in the working
           copy, but [updateIntl]'s result [ok] stays true *)
        match parse crc data false with
        | (_, Some _) => (failed, fs)
        | (st, None) =>
            if p_sum st =? f_sum l then (same, fs)
            else ({| u_id := f_id l; u_updated := true; u_err := true;
                     u_count := 0; u_sum := f_sum l |}, fs)
        end
    end.

  Fixpoint update_all (ls : list flist) (oc : N -> outcome) (fs : files) : list upd * files :=
    match ls with
    | [] => ([], fs)
    | l :: r =>
        let '(u, fs1) := update_one l (oc (f_id l)) fs in
        let '(us, fs2) := update_all r oc fs1 in
        (u :: us, fs2)
    end.

  Definition apply_upd (us : list upd) (f : flist) : flist :=
    match find (fun u => (u_id u =? f_id f) && u_updated u) us with
    | Some u => {| f_id := f_id f; f_enabled := f_enabled f; f_count := u_count u; f_sum := u_sum u |}
    | None => f
    end.

  (** [refreshFiltersArray]: count of updated lists, "network error" (all
      attempted lists failed), the array, the files. *)
  Definition refresh_array (ls : list flist) (force : bool) (due : N -> bool)
      (oc : N -> outcome) (fs : files) : N * bool * list flist * files :=
    let to_upd := filter (fun l => f_enabled l && (force || due (f_id l))) ls in
    match to_upd with
    | [] => (0, false, ls, fs)
    | _ =>
        let '(us, fs') := update_all to_upd oc fs in
        if forallb u_err us then (0, true, ls, fs')
        else (N.of_nat (length (filter u_updated us)), false, map (apply_upd us) ls, fs')
    end.

  (** [enableFiltersLocked] / [newRuleStorage]: enabled lists whose file exists. *)
  Definition snapshot (ls : list flist) (fs : files) : list (N * bytes) :=
    flat_map (fun l => if f_enabled l
                       then match fget (f_id l) fs with Some c => [(f_id l, c)] | None => [] end
                       else []) ls.

  (** [refreshFiltersIntl] *)
  Definition refresh (block allow force : bool) (due : N -> bool) (oc : N -> outcome)
      (st : rstate) : rstate :=
    let '(n1, e1, bl, fs1) :=
      if block then refresh_array (r_block st) force due oc (r_files st)
      else (0, false, r_block st, r_files st) in
    let '(n2, e2, al, fs2) :=
      if allow then refresh_array (r_allow st) force due oc fs1
      else (0, false, r_allow st, fs1) in
    let eng :=
      if e1 || e2 then r_engine st
      else if n1 + n2 =? 0 then r_engine st
      else {| e_block := snapshot bl fs2; e_allow := snapshot al fs2 |} in
    {| r_block := bl; r_allow := al; r_files := fs2; r_engine := eng |}.
End Refresh.

(** ** Which rule is in force for a probe name: the harness only writes rules
    of the form [||name^]. *)
Definition rule_for (name : bytes) : bytes := [124; 124] ++ name ++ [94].

Fixpoint lines_of (x cur : bytes) : list bytes :=
  match x with
  | [] => match cur with [] => [] | _ => [rv cur] end
  | b :: x' => if b =? 10 then rv cur :: lines_of x' [] else lines_of x' (b :: cur)
  end.

Definition has_rule (name : bytes) (snap : list (N * bytes)) : bool :=
  existsb (fun e => existsb (eqb_bytes (rule_for name)) (lines_of (snd e) [])) snap.

(** 2 = allowed by an allow list, 1 = blocked, 0 = no match. *)
Definition verdict (e : engine) (name : bytes) : N :=
  if has_rule name (e_allow e) then 2 else if has_rule name (e_block e) then 1 else 0.

(** Model of the filter-list refresh in internal/filtering/filter.go (C15):
    [listsToUpdate], [update]/[updateIntl]/[finalizeUpdate] (with
    [ensureName]), the copy-back loop of [refreshFiltersArray],
    [refreshFiltersIntl], [filterSetProperties] for a change of name and of
    the enabled flag (as driven by [handleFilteringSetURL]), the part of
    [enableFiltersLocked]/[newRuleStorage] that decides which text is in
    force, and a restart of the process (what the configuration file keeps of
    a list, [loadFilters]/[load], [deduplicateFilters] in [filtering.New], the
    engine built by [startDNSServer]).  No proofs here.

    A list is identified by its ID (IDs are unique over both arrays, as
    [idGenerator] guarantees).  Its URL is a number naming a source; it
    changes only through [set_props] ([filterSetProperties] finds the entry by
    its URL and may replace the URL).  No set_url call runs during a refresh
    pass, and the working copy carries the URL of the entry it was copied
    from, so the ID-and-URL match of the copy-back loop is a match on the ID.
    What the reader of list [i] delivers in one pass is the oracle [oc i]
    (the harness derives it from the source the list's URL names at that
    moment).  Files are a finite
    map ID -> (generation, content); absent = no file; the generation counts
    the replacements of the file (what the inode shows on the real file).
    The engine holds, per enabled list, the content its file had when the
    engine was last rebuilt (urlfilter keeps the replaced file open, so a
    later rename does not show through).  Timestamps (the [due] oracle stands
    for [LastUpdated] + interval < now) and the ".old" files are not
    modelled. *)
From Coq Require Import NArith List Bool.
From AGH Require Import Base.Run Model.RuleListParser.
Import ListNotations.
Local Open Scope N_scope.

Record flist := { f_id : N; f_url : N; f_enabled : bool; f_name : bytes; f_count : N; f_sum : N }.

Definition files := list (N * (N * bytes)).
Definition fentry (i : N) (fs : files) : option (N * bytes) :=
  match find (fun e => fst e =? i) fs with Some e => Some (snd e) | None => None end.
Definition fget (i : N) (fs : files) : option bytes :=
  match fentry i fs with Some e => Some (snd e) | None => None end.
(** Number of times the file of list [i] has been replaced. *)
Definition fgen (i : N) (fs : files) : N :=
  match fentry i fs with Some e => fst e | None => 0 end.
Definition fset (i : N) (c : bytes) (fs : files) : files :=
  (i, (fgen i fs + 1, c)) :: filter (fun e => negb (fst e =? i)) fs.
(** [os.Remove], "does not exist" ignored. *)
Definition fdel (i : N) (fs : files) : files := filter (fun e => negb (fst e =? i)) fs.

(** What the reader of a list does in one refresh. *)
Inductive outcome :=
  | OOpenErr                                  (* connection error, status <> 200, unreadable / unsafe path *)
  | OBody (data : bytes) (read_err : bool)    (* body bytes delivered, then EOF or an error *)
  | ORenameFail (data : bytes)                (* complete body, but the pending file cannot replace the
                                                 list's file ([CloseReplace] fails) nor be cleaned up *)
  | OWriteFail (data : bytes) (read_err : bool) (cap : N).
                                              (* body bytes delivered as with [OBody], but the pending file
                                                 takes [cap] bytes in all, then its writes fail *)

Record engine := { e_block : list (N * bytes); e_allow : list (N * bytes) }.

Record rstate := {
  r_block : list flist;
  r_allow : list flist;
  r_files : files;
  r_engine : engine;
}.

(** Result of [update] for one list: the flags and the list structure it
    worked on (a working copy during a refresh, the configured entry itself in
    [filterSetProperties]). *)
Record upd := { u_updated : bool; u_err : bool; u_list : flist }.

(** [strconv]'s decimal rendering, for the default name "List <id>". *)
Fixpoint dec_digits (fuel : nat) (n : N) (acc : bytes) : bytes :=
  match fuel with
  | O => acc
  | S f => let acc' := (48 + n mod 10) :: acc in
           if n / 10 =? 0 then acc' else dec_digits f (n / 10) acc'
  end.
Definition decimal (n : N) : bytes := dec_digits 40 n [].

(** [ensureName] *)
Definition ensure_name (id : N) (name title : bytes) : bytes :=
  match name with
  | _ :: _ => name
  | [] => match title with
          | _ :: _ => title
          | [] => [76; 105; 115; 116; 32] ++ decimal id      (* "List " *)
          end
  end.

(** The copy [listsToUpdate] makes: ID, URL, name and checksum; the rule count
    is not copied. *)
Definition wcopy (l : flist) : flist :=
  {| f_id := f_id l; f_url := f_url l; f_enabled := false; f_name := f_name l; f_count := 0; f_sum := f_sum l |}.

Section Refresh.
  Variable crc : N -> bytes -> N.

  (** What [finalizeUpdate] fills in after the file has been replaced. *)
  Definition filled (l : flist) (st : pstate) : flist :=
    {| f_id := f_id l; f_url := f_url l; f_enabled := f_enabled l;
       f_name := ensure_name (f_id l) (f_name l) (p_title st);
       f_count := p_count st; f_sum := p_sum st |}.

  (** [updateIntl] + [finalizeUpdate]: the pending file replaces the list's
      file only if parsing succeeded and the checksum differs. *)
  Definition update_one (l : flist) (o : outcome) (fs : files) : upd * files :=
    let same := {| u_updated := false; u_err := false; u_list := l |} in
    let failed := {| u_updated := false; u_err := true; u_list := l |} in
    match o with
    | OOpenErr => (failed, fs)
    | OBody data re =>
        match parse crc data re with
        | (_, Some _) => (failed, fs)
        | (st, None) =>
            if p_sum st =? f_sum l then (same, fs)
            else ({| u_updated := true; u_err := false; u_list := filled l st |},
                  fset (f_id l) (output st) fs)
        end
    | ORenameFail _ =>
        (* whatever was parsed: [CloseReplace] fails and the result [ok] is
           cleared with it, or [Cleanup] of the vanished pending file fails *)
        (failed, fs)
    | OWriteFail data re cap =>
        (* the parser writes into the pending file itself: a failing write is
           the parser's error, [ok] is false, [finalizeUpdate] cleans the
           pending file up and hands the error on *)
        match parse_w crc cap data re with
        | (_, Some _, _) => (failed, fs)
        | (st, None, _) =>
            if p_sum st =? f_sum l then (same, fs)
            else ({| u_updated := true; u_err := false; u_list := filled l st |},
                  fset (f_id l) (output st) fs)
        end
    end.

  Fixpoint update_all (ls : list flist) (oc : N -> outcome) (fs : files) : list upd * files :=
    match ls with
    | [] => ([], fs)
    | l :: r =>
        let '(u, fs1) := update_one l (oc (f_id l)) fs in
        let '(us, fs2) := update_all r oc fs1 in
        (u :: us, fs2)
    end.

  (** The body of the copy-back loop for one working copy and one configured
      list: name, rule count and checksum, field by field. *)
  Definition copy_back (u : upd) (f : flist) : flist :=
    if (f_id (u_list u) =? f_id f) && u_updated u then
      {| f_id := f_id f; f_url := f_url f; f_enabled := f_enabled f;
         f_name := f_name (u_list u);
         f_count := f_count (u_list u);
         f_sum := f_sum (u_list u) |}
    else f.

  Definition copied (u : upd) (ls : list flist) : N :=
    N.of_nat (length (filter (fun f => (f_id (u_list u) =? f_id f) && u_updated u) ls)).

  (** The two nested loops: number of copies made, the array afterwards. *)
  Fixpoint copy_back_all (us : list upd) (ls : list flist) : N * list flist :=
    match us with
    | [] => (0, ls)
    | u :: r => let '(n, ls') := copy_back_all r (map (copy_back u) ls) in (copied u ls + n, ls')
    end.

  (** [refreshFiltersArray]: count of updated lists, "network error" (all
      attempted lists failed), the array, the files. *)
  Definition refresh_array (ls : list flist) (force : bool) (due : N -> bool)
      (oc : N -> outcome) (fs : files) : N * bool * list flist * files :=
    let to_upd := map wcopy (filter (fun l => f_enabled l && (force || due (f_id l))) ls) in
    match to_upd with
    | [] => (0, false, ls, fs)
    | _ =>
        let '(us, fs') := update_all to_upd oc fs in
        if forallb u_err us then (0, true, ls, fs')
        else let '(n, ls') := copy_back_all us ls in (n, false, ls', fs')
    end.

  (** [enableFiltersLocked] / [newRuleStorage]: enabled lists whose file exists. *)
  Definition snapshot (ls : list flist) (fs : files) : list (N * bytes) :=
    flat_map (fun l => if f_enabled l
                       then match fget (f_id l) fs with Some c => [(f_id l, c)] | None => [] end
                       else []) ls.

  Definition rebuild (bl al : list flist) (fs : files) : engine :=
    {| e_block := snapshot bl fs; e_allow := snapshot al fs |}.

  (** [refreshFiltersIntl] *)
  Definition refresh (block allow force : bool) (due : N -> bool) (oc : N -> outcome)
      (st : rstate) : rstate :=
    let '(n1, e1, bl, fs1) :=
      if block then refresh_array (r_block st) force due oc (r_files st)
      else (0, false, r_block st, r_files st) in
    let '(n2, e2, al, fs2) :=
      if allow then refresh_array (r_allow st) force due oc fs1
      else (0, false, r_allow st, fs1) in
    let eng :=
      if e1 || e2 then r_engine st
      else if n1 + n2 =? 0 then r_engine st
      else rebuild bl al fs2 in
    {| r_block := bl; r_allow := al; r_files := fs2; r_engine := eng |}.

  (** What the pass reports besides: the number of updated lists and "network
      error" (every attempted list of some array failed); with a network error
      the caller sees 0 updates. *)
  Definition pass_report (b a force : bool) (due : N -> bool) (oc : N -> outcome) (st : rstate) : N * bool :=
    let '(n1, e1, bl, fs1) :=
      if b then refresh_array (r_block st) force due oc (r_files st)
      else (0, false, r_block st, r_files st) in
    let '(n2, e2, al, fs2) :=
      if a then refresh_array (r_allow st) force due oc fs1
      else (0, false, r_allow st, fs1) in
    (n1 + n2, e1 || e2).

  Definition pass_updated b a force due oc st : N := fst (pass_report b a force due oc st).
  Definition pass_net_error b a force due oc st : bool := snd (pass_report b a force due oc st).

  (** ** [filterSetProperties], followed by what [handleFilteringSetURL] does
      with its result. *)

  Definition unload (f : flist) : flist :=
    {| f_id := f_id f; f_url := f_url f; f_enabled := f_enabled f; f_name := f_name f; f_count := 0; f_sum := 0 |}.

  (** The checksum of the entry after a failed call: the deferred function
      restores URL, name, enabled flag, last update, rule count and checksum. *)
  Definition restored_sum (f : flist) (u : upd) : N := f_sum f.

  (** Result for one entry: (should restart, error, the entry afterwards,
      files).  [nurl] is the URL of the request, [dup] says that some list of
      either array already has it ([filterExistsLocked]). *)
  (** The entry as the call wants it: with a new URL, [unload] has forgotten
      rule count and checksum. *)
  Definition set_target (f : flist) (name : bytes) (nurl : N) (en : bool) : flist :=
    if negb (f_url f =? nurl)
    then {| f_id := f_id f; f_url := nurl; f_enabled := en; f_name := name; f_count := 0; f_sum := 0 |}
    else {| f_id := f_id f; f_url := nurl; f_enabled := en; f_name := name;
            f_count := f_count f; f_sum := f_sum f |}.

  Definition set_entry (f : flist) (name : bytes) (nurl : N) (dup : bool) (en : bool) (o : outcome)
      (fs : files) : bool * bool * flist * files :=
    let changed := negb (f_url f =? nurl) in
    if changed && dup then
      (* errFilterExists; the name is restored *)
      (false, true, f, fs)
    else
      let f1 := set_target f name nurl en in
      let restart := changed || negb (Bool.eqb (f_enabled f) en) in
      if en then
        if restart then
          let '(u, fs') := update_one f1 o fs in
          if u_err u then
            (u_updated u, true,
             {| f_id := f_id f; f_url := f_url f; f_enabled := f_enabled f; f_name := f_name f;
                f_count := f_count f; f_sum := restored_sum f u |}, fs')
          else if u_updated u then (true, false, u_list u, fs')
          else if f_sum f1 =? 0 then
            (* the content has the checksum of an unloaded list, i.e. no rules:
               whatever file is stored is removed and the engine rebuilt *)
            (true, false, u_list u, fdel (f_id f) fs')
          else
            (* the entry has a checksum although it was disabled (a refresh
               that was downloading it when it got disabled has copied it
               back) and the content has that checksum: the stored file is
               kept (fix 7322afe), the engine rebuilt *)
            (true, false, u_list u, fs')
        else (false, false, f1, fs)
      else (restart, false, unload f1, fs).

  (** The entry is found by its URL. *)
  Fixpoint set_in (ls : list flist) (url : N) (name : bytes) (nurl : N) (dup : bool) (en : bool)
      (o : outcome) (fs : files) : option (bool * bool * list flist * files) :=
    match ls with
    | [] => None
    | f :: r =>
        if f_url f =? url then
          let '(rs, er, f', fs') := set_entry f name nurl dup en o fs in Some (rs, er, f' :: r, fs')
        else match set_in r url name nurl dup en o fs with
             | Some (rs, er, r', fs') => Some (rs, er, f :: r', fs')
             | None => None
             end
    end.

  (** [filterExistsLocked] *)
  Definition url_used (u : N) (st : rstate) : bool :=
    existsb (fun f => f_url f =? u) (r_block st ++ r_allow st).

  (** Result: (restart reported, error reported, state).  The engine is
      rebuilt when there is no error and a restart is required. *)
  Definition set_props (allow : bool) (url : N) (name : bytes) (nurl : N) (en : bool) (o : outcome)
      (st : rstate) : bool * bool * rstate :=
    match set_in (if allow then r_allow st else r_block st) url name nurl (url_used nurl st) en o (r_files st) with
    | None => (false, true, st)
    | Some (rs, er, ls', fs') =>
        let bl := if allow then r_block st else ls' in
        let al := if allow then ls' else r_allow st in
        let eng := if negb er && rs then rebuild bl al fs' else r_engine st in
        (rs, er, {| r_block := bl; r_allow := al; r_files := fs'; r_engine := eng |})
    end.

  (** ** A pass overlapped by a set_url call (round 8, fix 7322afe)

      [refreshFiltersArray] takes its working copies under the lock
      ([listsToUpdate]), downloads without it, and copies the results back
      under the lock into the array as it is by then.  [to_update] and
      [finish_array] are these two halves ([refresh_array] is one after the
      other on the same array, see [refresh_array_split] in the proofs). *)
  Definition to_update (ls : list flist) (force : bool) (due : N -> bool) : list flist :=
    map wcopy (filter (fun l => f_enabled l && (force || due (f_id l))) ls).

  Definition finish_array (ws : list flist) (ls : list flist) (oc : N -> outcome) (fs : files)
      : N * bool * list flist * files :=
    match ws with
    | [] => (0, false, ls, fs)
    | _ =>
        let '(us, fs') := update_all ws oc fs in
        if forallb u_err us then (0, true, ls, fs')
        else let '(n, ls') := copy_back_all us ls in (n, false, ls', fs')
    end.

  (** A pass over one array ([allow] says which) whose working copies are
      taken in [st]; while its first download is under way [mid] runs (a
      set_url call that downloads nothing: rename, disable; it touches no
      file); the downloads finish, replace the files and the results are
      copied back into the array [mid] has left; [refreshFiltersIntl] rebuilds
      the engine if some list was updated. *)
  Definition refresh_over (allow force : bool) (due : N -> bool) (oc : N -> outcome)
      (mid : rstate -> rstate) (st : rstate) : rstate :=
    let ws := to_update (if allow then r_allow st else r_block st) force due in
    let st1 := mid st in
    let '(n, e, ls', fs') := finish_array ws (if allow then r_allow st1 else r_block st1) oc (r_files st1) in
    let bl := if allow then r_block st1 else ls' in
    let al := if allow then ls' else r_allow st1 in
    {| r_block := bl; r_allow := al; r_files := fs';
       r_engine := if e then r_engine st1 else if n =? 0 then r_engine st1 else rebuild bl al fs' |}.

  Definition over_report (allow force : bool) (due : N -> bool) (oc : N -> outcome)
      (mid : rstate -> rstate) (st : rstate) : N * bool :=
    let ws := to_update (if allow then r_allow st else r_block st) force due in
    let st1 := mid st in
    let '(n, e, _, _) := finish_array ws (if allow then r_allow st1 else r_block st1) oc (r_files st1) in
    (n, e).

  (** [EnableFilters] as any other settings change or a restart calls it. *)
  Definition rebuild_now (st : rstate) : rstate :=
    {| r_block := r_block st; r_allow := r_allow st; r_files := r_files st;
       r_engine := rebuild (r_block st) (r_allow st) (r_files st) |}.

  (** ** A restart of the process

      The old process writes its lists into the configuration file
      ([WriteDiskConfig], home/config.go), the new one reads them back and runs
      [filtering.New]: [loadFilters] for the block array, then for the allow
      array, [deduplicateFilters] on each, [idGenerator.fix] on each; later
      [startDNSServer] calls [EnableFilters(false)], which builds the engine
      from the files of the enabled lists.  No file is written. *)

  (** What the configuration file keeps of an entry: ID, URL, name, enabled
      flag.  [RulesCount] and [LastUpdated] are [yaml:"-"], the checksum is
      unexported: the new process starts with zeros. *)
  Definition persisted (f : flist) : flist :=
    {| f_id := f_id f; f_url := f_url f; f_enabled := f_enabled f; f_name := f_name f; f_count := 0; f_sum := 0 |}.

  (** [load]: a missing file is no error and leaves the entry alone; a file
      the parser rejects is logged by [loadFilters] and leaves the entry alone;
      otherwise [ensureName] with the title found in the file, rule count and
      checksum of the file (and [LastUpdated] := the file's modification time,
      not modelled, see the head of this file). *)
  Definition load_file (f : flist) (fs : files) : flist :=
    match fget (f_id f) fs with
    | None => f
    | Some c =>
        match parse crc c false with
        | (_, Some _) => f
        | (st, None) => filled f st
        end
    end.

  (** The body of the loop of [loadFilters]: "No need to load a filter that is
      not enabled".  [all = true] is the variant WITHOUT that check (not the
      code; kept for the refuted statement in Proofs/RefreshRestart.v).  IDs
      are never zero here, so no ID is assigned. *)
  Definition load_entry (all : bool) (fs : files) (f : flist) : flist :=
    if f_enabled f || all then load_file f fs else f.

  (** [deduplicateFilters]: of the entries of one array with the same URL the
      first is kept. *)
  Fixpoint dedup_urls (seen : list N) (ls : list flist) : list flist :=
    match ls with
    | [] => []
    | f :: r =>
        if existsb (N.eqb (f_url f)) seen then dedup_urls seen r
        else f :: dedup_urls (f_url f :: seen) r
    end.

  (** One array through the configuration file, [loadFilters] and
      [deduplicateFilters].  [idGenerator.fix] gives new IDs to entries whose
      ID is zero or occurs twice in the array; IDs are unique and not zero
      here, so it changes nothing (not modelled). *)
  Definition start_array (all : bool) (fs : files) (ls : list flist) : list flist :=
    dedup_urls [] (map (fun f => load_entry all fs (persisted f)) ls).

  Definition restart_v (all : bool) (st : rstate) : rstate :=
    let bl := start_array all (r_files st) (r_block st) in
    let al := start_array all (r_files st) (r_allow st) in
    {| r_block := bl; r_allow := al; r_files := r_files st; r_engine := rebuild bl al (r_files st) |}.

  (** The restart as the code does it. *)
  Definition restart (st : rstate) : rstate := restart_v false st.
End Refresh.

(** ** Which rule is in force for a probe name: the harness only writes rules
    of the form [||name^]. *)
Definition rule_for (name : bytes) : bytes := [124; 124] ++ name ++ [94].

Fixpoint lines_of (x cur : bytes) : list bytes :=
  match x with
  | [] => match cur with [] => [] | _ => [rv cur] end
  | b :: x' => if b =? 10 then rv cur :: lines_of x' [] else lines_of x' (b :: cur)
  end.

Definition has_rule (name : bytes) (snap : list (N * bytes)) : bool :=
  existsb (fun e => existsb (eqb_bytes (rule_for name)) (lines_of (snd e) [])) snap.

(** 2 = allowed by an allow list, 1 = blocked, 0 = no match. *)
Definition verdict (e : engine) (name : bytes) : N :=
  if has_rule name (e_allow e) then 2 else if has_rule name (e_block e) then 1 else 0.

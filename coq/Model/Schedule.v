(** Model of internal/schedule/schedule.go (C18).  No proofs here.

    Instants are [Z] nanoseconds since the Unix epoch.  A time zone is *any*
    function [off : Z -> Z] giving the offset in seconds east of UTC that is in
    force at an instant; nothing else about zones is assumed, so theorems hold
    for every tz database, DST transitions of any size included. *)
From Coq Require Import ZArith List Bool.
Import ListNotations.
Local Open Scope Z_scope.

Record day_range := { dr_start : Z; dr_end : Z }.   (* ns from local midnight *)
Definition zero_range := {| dr_start := 0; dr_end := 0 |}.
Definition weekly := list day_range.                  (* 7 entries, Sunday first *)

Definition ns_sec  := 1000000000.
Definition ns_min  := 60 * ns_sec.
Definition ns_hour := 3600 * ns_sec.
Definition ns_day  := 86400 * ns_sec.
Definition max_day_range := ns_day.

(** What Go's [time.Time] gives for an instant [t] shown in a zone whose
    offset at [t] is [o] seconds: the code calls [t.In(loc)], [Weekday()],
    [Clock()] and [Nanosecond()]. *)
Definition local_sec (o t : Z) : Z := t / ns_sec + o.
Definition nanosecond (t : Z) : Z := t mod ns_sec.
Definition sec_of_day (ls : Z) : Z := ls mod 86400.
Definition clock_hour (ls : Z) : Z := sec_of_day ls / 3600.
Definition clock_min  (ls : Z) : Z := (sec_of_day ls mod 3600) / 60.
Definition clock_sec  (ls : Z) : Z := sec_of_day ls mod 60.
Definition weekday (ls : Z) : Z := (ls / 86400 + 4) mod 7.   (* 1970-01-01: Thursday *)

Definition range_contains (r : day_range) (offset : Z) : bool :=
  (dr_start r <=? offset) && (offset <? dr_end r).

(** [Weekly.Contains]: the offset handed to the day range is assembled from
    the wall-clock reading. *)
Definition clock_offset (o t : Z) : Z :=
  let ls := local_sec o t in
  clock_hour ls * ns_hour + clock_min ls * ns_min + clock_sec ls * ns_sec + nanosecond t.

Definition contains (w : weekly) (off : Z -> Z) (t : Z) : bool :=
  let o := off t in
  let r := nth (Z.to_nat (weekday (local_sec o t))) w zero_range in
  range_contains r (clock_offset o t).

(** [dayRange.validate] followed by the whole-minute test of
    [Weekly.validate].  Go's [Duration.Truncate(m)] is [d - d % m] with the
    truncating remainder, i.e. [Z.rem]. *)
Inductive range_err :=
  | ENegStart | ENegEnd | EStartGeEnd | EStartGeMax | EEndGtMax | EStartNotMin | EEndNotMin.

Definition is_zero_range (r : day_range) : bool := (dr_start r =? 0) && (dr_end r =? 0).

Definition validate_range (r : day_range) : option range_err :=
  if is_zero_range r then None
  else if dr_start r <? 0 then Some ENegStart
  else if dr_end r <? 0 then Some ENegEnd
  else if dr_end r <=? dr_start r then Some EStartGeEnd
  else if max_day_range <=? dr_start r then Some EStartGeMax
  else if max_day_range <? dr_end r then Some EEndGtMax
  else if negb (dr_start r - Z.rem (dr_start r) ns_min =? dr_start r) then Some EStartNotMin
  else if negb (dr_end r - Z.rem (dr_end r) ns_min =? dr_end r) then Some EEndNotMin
  else None.

(** Serialised forms.  JSON: a missing day is the zero range, a present one
    carries milliseconds ([aghhttp.JSONDuration]); the model keeps them as
    exact rationals num/den with den = 2 (the harness only emits whole and
    half milliseconds, both exact in float64).  YAML: every day is present and
    carries nanoseconds (the textual duration syntax is left to the
    correspondence). *)
Definition ns_msec := 1000000.

Definition json_day := option (Z * Z).   (* (start, end) in half-milliseconds *)
Definition json_to_range (d : json_day) : day_range :=
  match d with
  | None => zero_range
  | Some (s, e) => {| dr_start := Z.quot (s * ns_msec) 2; dr_end := Z.quot (e * ns_msec) 2 |}
  end.
Definition range_to_json (r : day_range) : json_day :=
  if is_zero_range r then None
  else Some (Z.quot (2 * dr_start r) ns_msec, Z.quot (2 * dr_end r) ns_msec).

Fixpoint first_error (l : list day_range) (i : Z) : option (Z * range_err) :=
  match l with
  | [] => None
  | r :: l => match validate_range r with
              | Some e => Some (i, e)
              | None => first_error l (i + 1)
              end
  end.

(** Unmarshal: validate day by day, Sunday first, the first error wins. *)
Definition unmarshal_ranges (l : list day_range) : (Z * range_err) + weekly :=
  match first_error l 0 with
  | Some e => inl e
  | None => inr l
  end.
Definition unmarshal_json (l : list json_day) := unmarshal_ranges (map json_to_range l).
Definition marshal_json (w : weekly) : list json_day := map range_to_json w.
Definition unmarshal_yaml (l : list (Z * Z)) :=
  unmarshal_ranges (map (fun p => {| dr_start := fst p; dr_end := snd p |}) l).
Definition marshal_yaml (w : weekly) : list (Z * Z) := map (fun r => (dr_start r, dr_end r)) w.

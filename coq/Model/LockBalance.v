(** C05, round 6: rows of the lock-BALANCE table (tools/locktable/balance.go).

    For every function of the repository's packages that has a lock event on
    some path, and for every exit of it (a return, or an explicit panic) with a
    distinct lock state, ONE witness path: the Acq / Rel events of the machine
    of Base/Conc.v in the order that path performs them (the function's own
    Lock / RLock / Unlock / RUnlock and bbolt Begin(true) / Commit / Rollback
    calls, the deferred ones at the exit, and the declared effect of a
    hand-over callee at its call site).

    [be_entry]: locks the CALLER holds at entry and this function releases,
    [be_exit]: locks the function returns holding; both empty except for a
    declared hand-over (tools/locktable/handover.json) and for an anonymous
    closure whose effects are counted where it is called.  Definitions only;
    the check and its theorems are in Proofs/ConcBalance.v and
    Proofs/LockTableBalance.v. *)
From Coq Require Import List String.
From AGH Require Import Base.Conc.
Import ListNotations.

Record bal_exit := BalExit {
  be_kind : string;          (* "return" | "panic" *)
  be_pos : string;           (* file:line of the exit *)
  be_entry : held;
  be_exit : held;
  be_events : list event
}.

Record bal_fn := BalFn {
  bf_fn : string;
  bf_kind : string;          (* "function" | "handover" | "closure-inlined" *)
  bf_pos : string;
  bf_exits : list bal_exit
}.

(** a row the translator reports: class, function, lock, acquisition site, exit *)
Record bal_leak := BalLeak {
  bl_class : string;
  bl_fn : string;
  bl_lock : lock * mode;
  bl_acq_pos : string;
  bl_exit : string
}.

(** Round 7: a potentially blocking channel operation (send, receive, select
    without default, WaitGroup.Wait) reachable from a root with a non-empty
    must-held lock set (tools/locktable/chanops.go). *)
Record chan_row := ChanRow {
  cr_fn : string;
  cr_op : string;
  cr_chan : string;
  cr_held : held;
  cr_pos : string;
  cr_root : string
}.

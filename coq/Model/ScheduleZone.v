(** The whole schedule document of internal/schedule/schedule.go (C18):
    [Weekly.UnmarshalJSON] / [Weekly.UnmarshalYAML] and the two marshallers
    WITH the "time_zone" member, which Model/ScheduleText.v leaves out.  No
    proofs here.

    The zone name is an opaque string for the text layer: the marshallers
    write [w.location.String()], the decoders hand the text to
    [time.LoadLocation] and to nothing else.  [time.LoadLocation] is mirrored
    from the standard library ("" and "UTC" are UTC; "Local" is Local; a name
    containing ".." or beginning with a slash or a backslash is refused
    without a lookup; every other name is looked up in the tz database and
    the location reports that very name); the tz database itself is the
    section variable [known : name -> bool]. *)
From Coq Require Import ZArith List Bool NArith.
From AGH Require Import Base.Run Model.Schedule Model.ScheduleText Model.BlockedSvcHttp.
Import ListNotations.
Local Open Scope Z_scope.

Definition zone_utc : bytes := [85; 84; 67]%N.

(** [time.containsDotDot]. *)
Fixpoint contains_dot_dot (s : bytes) : bool :=
  match s with
  | a :: ((b :: _) as t) => ((a =? 46) && (b =? 46))%N || contains_dot_dot t
  | _ => false
  end.

(** [name[0] == '/' || name[0] == '\\']. *)
Definition bad_first (s : bytes) : bool :=
  match s with
  | c :: _ => ((c =? 47) || (c =? 92))%N
  | [] => false
  end.

(** A name that reaches the tz database. *)
Definition plain_name (name : bytes) : bool :=
  negb (eqb_bytes name [] || eqb_bytes name zone_utc) &&
  negb (eqb_bytes name zone_local) &&
  negb (contains_dot_dot name || bad_first name).

(** A schedule document: the "time_zone" text (absent = "") and the duration
    texts in document order. *)
Record zdoc := { zd_zone : bytes; zd_fields : list field }.

Inductive zdoc_err :=
  | ZSyntax (code : Z)                 (* a duration text does not parse *)
  | ZZone                              (* time.LoadLocation refuses the name *)
  | ZRange (i : Z) (e : range_err).    (* weekday [i] is not a documented range *)

Section TZ.
  Variable known : bytes -> bool.

  (** [time.LoadLocation]: the name the loaded location reports. *)
  Definition load_location (name : bytes) : option bytes :=
    if eqb_bytes name [] || eqb_bytes name zone_utc then Some zone_utc
    else if eqb_bytes name zone_local then Some zone_local
    else if contains_dot_dot name || bad_first name then None
    else if known name then Some name else None.

  (** [Weekly.UnmarshalJSON] / [Weekly.UnmarshalYAML]: the document is
      decoded into the configuration structure (duration texts, in document
      order, first syntax error wins), then the zone is loaded, then the
      seven ranges are validated Sunday first. *)
  Definition decode_zdoc (parse : bytes -> Z + Z) (d : zdoc) : zdoc_err + sched :=
    match apply_fields parse (repeat zero_range 7) (zd_fields d) with
    | inl c => inl (ZSyntax c)
    | inr w =>
        match load_location (zd_zone d) with
        | None => inl ZZone
        | Some z =>
            match unmarshal_ranges w with
            | inl (i, e) => inl (ZRange i e)
            | inr w => inr {| sc_zone := z; sc_days := w |}
            end
        end
    end.

  (** The "schedule" member of an update body as Model/BlockedSvcHttp.v takes
      it (there the verdict of [time.LoadLocation] is an oracle). *)
  Definition sched_doc_of (d : zdoc) : sched_doc :=
    {| sd_zone := load_location (zd_zone d); sd_fields := zd_fields d |}.

End TZ.

(** A decoder with an additional syntactic test [f] of the name in front
    of the lookup (the shape of seeded change C18-J). *)
Definition decode_zdoc_filtered (f known : bytes -> bool) (parse : bytes -> Z + Z) (d : zdoc)
  : zdoc_err + sched :=
  match apply_fields parse (repeat zero_range 7) (zd_fields d) with
  | inl c => inl (ZSyntax c)
  | inr w =>
      match (if f (zd_zone d) then load_location known (zd_zone d) else None) with
      | None => inl ZZone
      | Some z =>
          match unmarshal_ranges w with
          | inl (i, e) => inl (ZRange i e)
          | inr w => inr {| sc_zone := z; sc_days := w |}
          end
      end
  end.

(** [Weekly.MarshalJSON] / [Weekly.MarshalYAML]: the name the location
    reports and the days (a zero range is left out). *)
Definition marshal_zdoc (print : Z -> bytes) (sc : sched) : zdoc :=
  {| zd_zone := sc_zone sc; zd_fields := flatten_days 0 (marshal_text print (sc_days sc)) |}.

(** The test of seeded change C18-J: letters, digits, [/], [_], [-] (bytes
    above 127 stand for the non-ASCII letters and pass). *)
Definition j_char_ok (c : N) : bool :=
  ((65 <=? c) && (c <=? 90) || (97 <=? c) && (c <=? 122) || (48 <=? c) && (c <=? 57) ||
   (c =? 47) || (c =? 95) || (c =? 45) || (128 <=? c))%N.
Definition j_name_ok (s : bytes) : bool := forallb j_char_ok s.

(** "Etc/GMT+5". *)
Definition zone_etc_gmt_plus_5 : bytes := [69; 116; 99; 47; 71; 77; 84; 43; 53]%N.

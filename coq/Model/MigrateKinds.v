(** C13: the kind check of [yaml.Unmarshal] into the [configuration] type,
    for documents of the current schema version, read off the versioned table
    of Model/MigrateLoad.v, and the comparison of that table with the Go types
    themselves.  Executable definitions, no proofs.

    [kinds_accept m] is what [yaml.Unmarshal] says about the kinds in [m];
    the harness runs the real decoder on documents mutated at every key of
    the table and the evaluator compares, accept with accept and reject with
    reject ([CKind] in Run/C13.v). *)
From Coq Require Import List String Bool ZArith.
From AGH Require Import Base.Run Model.Migrate Model.MigrateLoad.
Import ListNotations.
Local Open Scope string_scope.
Local Open Scope list_scope.

(** The verdict of [yaml.Unmarshal] on a value where the Go type has the
    shape [s].  It differs from [conforms] in two ways: a null is accepted
    everywhere (the field keeps its default; what start-up dereferences later
    is the [nullable] mark of the table), and an integer field takes ANY
    float in range (yaml.v3 truncates it: [max_age: 2.5] loads as 2), where
    the upgrade steps and [conforms] accept whole floats only. *)
Fixpoint decodes (s : sh) (v : val) {struct s} : bool :=
  match s with
  | SAny => true
  | SNone => false
  | SBool => match v with VNull | VBool _ => true | _ => false end
  | SInt => match v with VNull | VInt _ | VFloat _ _ => true | _ => false end
  | SStr => match v with VNull => true | _ => scalar_val v end
  | SDur => match v with VNull | VStr _ | VDur _ => true | _ => false end
  | SArr e =>
      match v with
      | VNull => true
      | VArr l => forallb (decodes e) l
      | VStrs _ => match e with SStr | SAny => true | _ => false end
      | _ => false
      end
  | SObj _ fs =>
      match v with
      | VNull => true
      | VObj m =>
          (fix go (fs : list (string * sh)) : bool :=
             match fs with
             | [] => true
             | (k, s') :: fs' =>
                 match get k m with None => true | Some x => decodes s' x end && go fs'
             end) fs
      | _ => false
      end
  end.

Definition current : nat := 29.

Definition kinds_accept (m : obj) : bool := decodes (schema current) (VObj m).

(** Every position of a shape with the shape expected there; list elements
    are the position ["[]"]. *)
Fixpoint paths_of (s : sh) (pre : list string) : list (list string * sh) :=
  (pre, s) ::
  match s with
  | SArr e => paths_of e (pre ++ ["[]"])
  | SObj _ fs =>
      (fix go (fs : list (string * sh)) : list (list string * sh) :=
         match fs with [] => [] | (k, s') :: fs' => paths_of s' (pre ++ [k]) ++ go fs' end) fs
  | _ => []
  end.

(** Kinds of Go types as the harness reports them (reflection over
    [configuration], following yaml tags):
    0 interface, 1 bool, 2 integer, 3 string, 4 encoding.TextUnmarshaler,
    5 slice, 6 struct or map, 7 yaml.Unmarshaler, 8 timeutil.Duration, 9 other. *)
Definition kind_ok (s : sh) (k : Z) : bool :=
  match s with
  | SAny => true
  | SNone => false
  | SBool => Z.eqb k 1
  | SInt => Z.eqb k 2
  | SStr => Z.eqb k 3 || Z.eqb k 4
  | SDur => Z.eqb k 8
  | SArr _ => Z.eqb k 5
  | SObj _ _ => Z.eqb k 6 || Z.eqb k 7
  end.

Definition path_eqb : list string -> list string -> bool := eqb_list String.eqb.

Fixpoint is_prefix (p q : list string) : bool :=
  match p, q with
  | [], _ => true
  | a :: p', b :: q' => String.eqb a b && is_prefix p' q'
  | _, _ => false
  end.

Fixpoint assoc_path (p : list string) (l : list (list string * Z)) : option Z :=
  match l with
  | [] => None
  | (q, k) :: l' => if path_eqb p q then Some k else assoc_path p l'
  end.

(** A position of the table agrees with the Go types: the type found at that
    position has the kind the table expects; positions inside a type that
    decodes itself (yaml.Unmarshaler) are not looked at. *)
Definition path_ok (types : list (list string * Z)) (p : list string) (s : sh) : bool :=
  match assoc_path p types with
  | Some k => kind_ok s k
  | None => existsb (fun qk => Z.eqb (snd qk) 7 && is_prefix (fst qk) p) types
  end.

Definition types_ok (types : list (list string * Z)) : bool :=
  forallb (fun ps => path_ok types (fst ps) (snd ps)) (paths_of (schema current) []).

(** The positions of a tree (first list element only), for comparing the base
    document of the mutation run with the table. *)
Fixpoint has_path (v : val) (p : list string) {struct p} : bool :=
  match p with
  | [] => true
  | k :: p' =>
      match v with
      | VObj m => match get k m with Some x => has_path x p' | None => false end
      | VArr (x :: _) => String.eqb k "[]" && has_path x p'
      | _ => false
      end
  end.

(** The base document mentions every position of the table. *)
Definition covers_table (m : obj) : bool :=
  forallb (fun ps => has_path (VObj m) (fst ps)) (paths_of (schema current) []).

(** The shape the table holds at a position, if it knows the position. *)
Fixpoint assoc_shape (p : list string) (l : list (list string * sh)) : option sh :=
  match l with
  | [] => None
  | (q, s) :: l' => if path_eqb p q then Some s else assoc_shape p l'
  end.

Definition shape_at (p : list string) : option sh := assoc_shape p (paths_of (schema current) []).

(** One mutated document: where the table knows the mutated position (and does
    not allow anything there) its verdict is the decoder's. *)
Definition kind_case_ok (m : obj) (path : list string) (accepted : bool) : bool :=
  match shape_at path with
  | None | Some SAny => true
  | Some _ => Bool.eqb (kinds_accept m) accepted
  end.

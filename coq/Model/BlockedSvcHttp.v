(** Model of the blocked-services HTTP handlers of
    internal/filtering/blocked.go (C18): PUT /control/blocked_services/update,
    the deprecated POST /control/blocked_services/set, GET
    /control/blocked_services/get, and ApplyBlockedServices.  No proofs here.

    The stored value is [d.conf.BlockedServices]: the list of service ids and
    the pause schedule (zone name + seven ranges).  The schedule part of an
    update body is the JSON document of Model/ScheduleText.v: the number texts
    in document order, read by the modelled [aghhttp.JSONDuration] reader and
    validated Sunday first.  Two things are oracles whose values the harness
    supplies: whether [time.LoadLocation] accepts the zone name (and the name
    the loaded location reports), and which ids are in the service table. *)
From Coq Require Import ZArith List Bool.
From AGH Require Import Base.Run Model.Schedule Model.ScheduleText.
Import ListNotations.
Local Open Scope Z_scope.

Record sched := { sc_zone : bytes; sc_days : weekly }.
Record bsvc := { bs_ids : list bytes; bs_sched : sched }.

(** [schedule.EmptyWeekly()]: zone [time.Local] (reported as "Local"), seven
    zero ranges. *)
Definition zone_local : bytes := [76; 111; 99; 97; 108]%N.
Definition empty_weekly : sched :=
  {| sc_zone := zone_local; sc_days := repeat zero_range 7 |}.

(** The "schedule" member of an update body.  [sd_zone]: [None] when
    [time.LoadLocation] rejects the "time_zone" text, else the name reported
    by the loaded location ("" loads as "UTC"). *)
Record sched_doc := { sd_zone : option bytes; sd_fields : list field }.

Inductive op :=
  | OUpdateBad                                     (* body that json.Decode rejects outside the schedule member *)
  | OUpdate (sch : option sched_doc) (ids : list bytes)  (* [None]: member absent or null *)
  | OSetBad                                        (* legacy set: body is not a JSON list of strings *)
  | OSet (ids : list bytes)
  | OGet.

(** [Weekly.UnmarshalJSON]: number syntax, then the zone, then the ranges;
    every failure is the same 400 of the handler. *)
Definition decode_sched (d : sched_doc) : option sched :=
  match apply_fields parse_json_dur (repeat zero_range 7) (sd_fields d) with
  | inl _ => None
  | inr w =>
      match sd_zone d with
      | None => None
      | Some z =>
          match unmarshal_ranges w with
          | inl _ => None
          | inr w => Some {| sc_zone := z; sc_days := w |}
          end
      end
  end.

(** [BlockedServices.Validate]. *)
Definition id_known (known : list bytes) (i : bytes) : bool := existsb (eqb_bytes i) known.
Definition ids_known (known : list bytes) (ids : list bytes) : bool := forallb (id_known known) ids.

Definition st_ok := 200.
Definition st_bad_request := 400.
Definition st_unprocessable := 422.

(** One request: status and the stored value afterwards. *)
Definition step (known : list bytes) (o : op) (s : bsvc) : Z * bsvc :=
  match o with
  | OUpdateBad => (st_bad_request, s)
  | OUpdate sch ids =>
      let dec := match sch with
                 | None => Some None
                 | Some d => match decode_sched d with Some sc => Some (Some sc) | None => None end
                 end in
      match dec with
      | None => (st_bad_request, s)
      | Some so =>
          if ids_known known ids then
            (st_ok, {| bs_ids := ids;
                       bs_sched := match so with Some sc => sc | None => empty_weekly end |})
          else (st_unprocessable, s)
      end
  | OSetBad => (st_bad_request, s)
  | OSet ids => (st_ok, {| bs_ids := ids; bs_sched := bs_sched s |})   (* no validation of the ids *)
  | OGet => (st_ok, s)
  end.

Fixpoint run (known : list bytes) (s : bsvc) (ops : list op) : bsvc :=
  match ops with
  | [] => s
  | o :: ops => run known (snd (step known o s)) ops
  end.

(** GET /control/blocked_services/get: ids, zone name, the days as the JSON
    number texts (a zero range is left out). *)
Definition get (s : bsvc) : list bytes * bytes * list text_day :=
  (bs_ids s, sc_zone (bs_sched s), marshal_json_text (sc_days (bs_sched s))).

(** [ApplyBlockedServices] at an instant at which the schedule's [Contains]
    gives [paused]: nothing when paused, else the stored ids that are in the
    service table, in order. *)
Definition apply (known : list bytes) (s : bsvc) (paused : bool) : list bytes :=
  if paused then [] else filter (id_known known) (bs_ids s).

Definition is_full_range (r : day_range) : bool := (dr_start r =? 0) && (dr_end r =? ns_day).

(** A week whose verdict does not depend on the instant: every day full, or
    every day zero. *)
Definition week_const (w : weekly) : option bool :=
  if (length w =? 7)%nat && forallb is_full_range w then Some true
  else if forallb is_zero_range w then Some false
  else None.

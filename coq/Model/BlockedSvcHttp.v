(** Model of the blocked-services HTTP handlers of
    internal/filtering/blocked.go (C18): PUT /control/blocked_services/update,
    the deprecated POST /control/blocked_services/set, GET
    /control/blocked_services/get, and ApplyBlockedServices.  No proofs here.

    The stored value is [d.conf.BlockedServices]: the list of service ids and
    the pause schedule (zone name + seven ranges).  The schedule part of an
    update body is the JSON document of Model/ScheduleText.v: the number texts
    in document order, read by the modelled [aghhttp.JSONDuration] reader and
    validated Sunday first.  Two things are oracles whose values the harness
    supplies: whether [time.LoadLocation] accepts the zone name (and the name
    the loaded location reports), and which ids are in the service table. *)
From Coq Require Import ZArith List Bool.
From AGH Require Import Base.Run Model.Schedule Model.ScheduleText.
Import ListNotations.
Local Open Scope Z_scope.

Record sched := { sc_zone : bytes; sc_days : weekly }.
Record bsvc := { bs_ids : list bytes; bs_sched : sched }.

(** [schedule.EmptyWeekly()]: zone [time.Local] (reported as "Local"), seven
    zero ranges. *)
Definition zone_local : bytes := [76; 111; 99; 97; 108]%N.
Definition empty_weekly : sched :=
  {| sc_zone := zone_local; sc_days := repeat zero_range 7 |}.

(** The "schedule" member of an update body.  [sd_zone]: [None] when
    [time.LoadLocation] rejects the "time_zone" text, else the name reported
    by the loaded location ("" loads as "UTC"). *)
Record sched_doc := { sd_zone : option bytes; sd_fields : list field }.

Inductive op :=
  | OUpdateBad                                     (* body that json.Decode rejects outside the schedule member *)
  | OUpdate (sch : option sched_doc) (ids : list bytes)  (* [None]: member absent or null *)
  | OSetBad                                        (* legacy set: body is not a JSON list of strings *)
  | OSet (ids : list bytes)
  | OGet.

(** [Weekly.UnmarshalJSON]: number syntax, then the zone, then the ranges;
    every failure is the same 400 of the handler. *)
Definition decode_sched (d : sched_doc) : option sched :=
  match apply_fields parse_json_dur (repeat zero_range 7) (sd_fields d) with
  | inl _ => None
  | inr w =>
      match sd_zone d with
      | None => None
      | Some z =>
          match unmarshal_ranges w with
          | inl _ => None
          | inr w => Some {| sc_zone := z; sc_days := w |}
          end
      end
  end.

(** [BlockedServices.Validate]. *)
Definition id_known (known : list bytes) (i : bytes) : bool := existsb (eqb_bytes i) known.
Definition ids_known (known : list bytes) (ids : list bytes) : bool := forallb (id_known known) ids.

Definition st_ok := 200.
Definition st_bad_request := 400.
Definition st_unprocessable := 422.

(** One request: status and the stored value afterwards. *)
Definition step (known : list bytes) (o : op) (s : bsvc) : Z * bsvc :=
  match o with
  | OUpdateBad => (st_bad_request, s)
  | OUpdate sch ids =>
      let dec := match sch with
                 | None => Some None
                 | Some d => match decode_sched d with Some sc => Some (Some sc) | None => None end
                 end in
      match dec with
      | None => (st_bad_request, s)
      | Some so =>
          if ids_known known ids then
            (st_ok, {| bs_ids := ids;
                       bs_sched := match so with Some sc => sc | None => empty_weekly end |})
          else (st_unprocessable, s)
      end
  | OSetBad => (st_bad_request, s)
  | OSet ids => (st_ok, {| bs_ids := ids; bs_sched := bs_sched s |})   (* no validation of the ids *)
  | OGet => (st_ok, s)
  end.

Fixpoint run (known : list bytes) (s : bsvc) (ops : list op) : bsvc :=
  match ops with
  | [] => s
  | o :: ops => run known (snd (step known o s)) ops
  end.

(** GET /control/blocked_services/get: ids, zone name, the days as the JSON
    number texts (a zero range is left out). *)
Definition get (s : bsvc) : list bytes * bytes * list text_day :=
  (bs_ids s, sc_zone (bs_sched s), marshal_json_text (sc_days (bs_sched s))).

(** [ApplyBlockedServices] at an instant at which the schedule's [Contains]
    gives [paused]: nothing when paused, else the stored ids that are in the
    service table, in order. *)
Definition apply (known : list bytes) (s : bsvc) (paused : bool) : list bytes :=
  if paused then [] else filter (id_known known) (bs_ids s).

Definition is_full_range (r : day_range) : bool := (dr_start r =? 0) && (dr_end r =? ns_day).

(** A week whose verdict does not depend on the instant: every day full, or
    every day zero. *)
Definition week_const (w : weekly) : option bool :=
  if (length w =? 7)%nat && forallb is_full_range w then Some true
  else if forallb is_zero_range w then Some false
  else None.

(** * Persistence: the ConfigModified callback and a restart (round 6)

    Both writing handlers end with [d.conf.ConfigModified()].  In [home] that
    callback writes the configuration file: it reads the filter's
    configuration back at that very moment ([DNSFilter.WriteDiskConfig] copies
    [*d.conf] under [confMu]; [filtering.Config.BlockedServices] is the stored
    value) and encodes it.  A restart builds a new filter ([filtering.New]) from
    the decoded file; [New] refuses a configuration whose blocked-services ids
    are not all in the service table ([BlockedServices.Validate]).

    The state is the stored value plus what is on disk.  How a value is written
    ([save]) and read ([load]) is left open here (Model/BlockedSvcPersist.v
    takes the YAML document of Model/ScheduleZone.v, which cannot be imported
    here).  What matters is the ORDER inside a handler, mirrored as the code
    has it now:

      handleBlockedServicesUpdate: decode, validate, [d.conf.BlockedServices =
        bsvc] under the lock, THEN [ConfigModified];
      handleBlockedServicesSet:    decode, [d.conf.BlockedServices.IDs = list]
        under the lock, THEN [ConfigModified];
      a request answered 400 / 422 returns before either; GET does neither. *)
Section Life.
  Variable D : Type.
  Variable save : bsvc -> D.
  Variable load : D -> option bsvc.

  Record life := { lf_mem : bsvc; lf_disk : D }.

  (** [d.conf.BlockedServices = bsvc] (resp. [.IDs = list]). *)
  Definition store (m : bsvc) (l : life) : life := {| lf_mem := m; lf_disk := lf_disk l |}.

  (** [d.conf.ConfigModified()]: what the callback can read is what is stored
      at the moment of the call. *)
  Definition config_modified (l : life) : life :=
    {| lf_mem := lf_mem l; lf_disk := save (lf_mem l) |}.

  Inductive order := StoreThenNotify | NotifyThenStore.

  Definition op_is_update (o : op) : bool :=
    match o with OUpdate _ _ => true | _ => false end.

  (** The handler reaches its [ConfigModified] call. *)
  Definition calls_modified (o : op) (st : Z) : bool :=
    (st =? st_ok) && match o with OUpdate _ _ | OSet _ => true | _ => false end.

  Definition lstep_ord (ord : op -> order) (known : list bytes) (o : op) (l : life) : Z * life :=
    let (st, m) := step known o (lf_mem l) in
    (st, if calls_modified o st then
           match ord o with
           | StoreThenNotify => config_modified (store m l)
           | NotifyThenStore => store m (config_modified l)
           end
         else store m l).

  (** The order in both handlers of /repo as it stands. *)
  Definition code_order (o : op) : order := StoreThenNotify.

  (** The order of seeded change C18-L: the update handler calls the callback
      in front of the store. *)
  Definition callback_first_order (o : op) : order :=
    if op_is_update o then NotifyThenStore else StoreThenNotify.

  Definition lstep := lstep_ord code_order.

  (** Restart: [None] = the new process does not come up (the file is not
      read, or [filtering.New] refuses the ids). *)
  Definition restart (known : list bytes) (l : life) : option life :=
    match load (lf_disk l) with
    | Some m => if ids_known known (bs_ids m) then Some {| lf_mem := m; lf_disk := lf_disk l |}
                else None
    | None => None
    end.

  Inductive lop := LReq (o : op) | LRestart.

  Definition lop_step (ord : op -> order) (known : list bytes) (o : lop) (l : life) : option life :=
    match o with
    | LReq o => Some (snd (lstep_ord ord known o l))
    | LRestart => restart known l
    end.

  Fixpoint lrun_ord (ord : op -> order) (known : list bytes) (l : life) (ops : list lop) : option life :=
    match ops with
    | [] => Some l
    | o :: ops => match lop_step ord known o l with
                  | Some l' => lrun_ord ord known l' ops
                  | None => None
                  end
    end.

  Definition lrun := lrun_ord code_order.

  (** The requests of a history, restarts left out. *)
  Fixpoint reqs_of (ops : list lop) : list op :=
    match ops with
    | [] => []
    | LReq o :: ops => o :: reqs_of ops
    | LRestart :: ops => reqs_of ops
    end.
End Life.

Arguments Build_life {D} _ _.
Arguments lf_mem {D} _.
Arguments lf_disk {D} _.
Arguments store {D} _ _.
Arguments config_modified {D} _ _.
Arguments lstep_ord {D} _ _ _ _ _.
Arguments lstep {D} _ _ _ _.
Arguments restart {D} _ _ _.
Arguments lop_step {D} _ _ _ _ _ _.
Arguments lrun_ord {D} _ _ _ _ _ _.
Arguments lrun {D} _ _ _ _ _.

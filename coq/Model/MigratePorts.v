(** What the loader's VALIDATION demands of the listening ports (C13, round 6).

    [Model/MigrateLoad.v] is the kind check of the typed decoder; this file is
    the first clause of [validateConfig] (internal/home/config.go) that looks
    at VALUES, mirrored from the code as it is on the unchanged tree:

        tcpPorts := {}; addPorts(tcpPorts, http.address.Port())
        udpPorts := {}; addPorts(udpPorts, dns.port)
        if tls.enabled {
            addPorts(tcpPorts, port_https, port_dns_over_tls, port_dnscrypt)
            addPorts(udpPorts, port_dns_over_quic)
        }
        tcpPorts.Validate(); udpPorts.Validate()      // no value twice

    where [addPorts] SKIPS ZERO PORTS (a zero port: the listener is off) and
    every port is a [uint16] (the decoder refuses anything else).  The ports
    are read from the document the way a file of schema version [v] spells
    them: [coredns.port] below version 2, [bind_port] below version 23,
    the text after the last colon of [http.address] from 23 on; a key absent
    from the file (or null) has the default of the configuration.

    Executable definitions, no proofs. *)
From Coq Require Import List ZArith String Ascii Bool Arith DecimalString.
From AGH Require Import Model.Migrate Model.MigrateLoad Model.MigrateFootprint.
Import ListNotations.
Local Open Scope string_scope.
Local Open Scope list_scope.
Local Open Scope Z_scope.

(** ** Reading *)

Definition colon : ascii := ":"%char.

(** The text after the last colon. *)
Fixpoint after_last_colon (s : string) : option string :=
  match s with
  | EmptyString => None
  | String c r =>
      match after_last_colon r with
      | Some x => Some x
      | None => if Ascii.eqb c colon then Some r else None
      end
  end.

Definition in_u16 (z : Z) : bool := (0 <=? z) && (z <=? 65535).

(** [netip.ParseAddrPort], the port: decimal digits after the last colon. *)
Definition port_of_addr (s : string) : option Z :=
  match after_last_colon s with
  | Some d =>
      match NilZero.uint_of_string d with
      | Some u => let z := Z.of_N (N.of_uint u) in if in_u16 z then Some z else None
      | None => None
      end
  | None => None
  end.

(** A [uint16] field: absent or null leaves the default; an integer (or a
    float yaml prints as one) in range is taken; anything else is refused by
    the decoder ([None]). *)
Definition port_read (o : option val) (dflt : Z) : option Z :=
  match o with
  | None | Some VNull => Some dflt
  | Some (VInt z) | Some (VFloat (Some z) _) => if in_u16 z then Some z else None
  | _ => None
  end.

Definition bool_read (o : option val) (dflt : bool) : option bool :=
  match o with
  | None | Some VNull => Some dflt
  | Some (VBool b) => Some b
  | _ => None
  end.

Definition look (p : path) (m : obj) : option val := lookup p (Some (VObj m)).

Definition dns_key (v : nat) : string := if Nat.leb v 1 then "coredns" else "dns".
Definition web_flat (v : nat) : bool := Nat.leb v 22.

(** The web port of a document of version [v]. *)
Definition web_port (v : nat) (m : obj) : option Z :=
  if web_flat v then port_read (look [SK "bind_port"] m) 3000
  else match look [SK "http"; SK "address"] m with
       | None | Some VNull => Some 3000
       | Some (VStr s) => port_of_addr s
       | _ => None
       end.

Record pvec := { p_tls : bool; p_web : Z; p_dns : Z; p_https : Z; p_dot : Z; p_doq : Z; p_dnscrypt : Z }.

Definition opt_bind {A B} (o : option A) (f : A -> option B) : option B :=
  match o with Some a => f a | None => None end.

(** The ports the program of version [v] works with; [None]: some port
    position holds what the decoder refuses. *)
Definition doc_ports (v : nat) (m : obj) : option pvec :=
  opt_bind (bool_read (look [SK "tls"; SK "enabled"] m) false) (fun tls =>
  opt_bind (web_port v m) (fun web =>
  opt_bind (port_read (look [SK (dns_key v); SK "port"] m) 53) (fun dns =>
  opt_bind (port_read (look [SK "tls"; SK "port_https"] m) 443) (fun https =>
  opt_bind (port_read (look [SK "tls"; SK "port_dns_over_tls"] m) 853) (fun dot =>
  opt_bind (port_read (look [SK "tls"; SK "port_dns_over_quic"] m) 853) (fun doq =>
  opt_bind (port_read (look [SK "tls"; SK "port_dnscrypt"] m) 0) (fun dnscrypt =>
  Some {| p_tls := tls; p_web := web; p_dns := dns; p_https := https; p_dot := dot;
          p_doq := doq; p_dnscrypt := dnscrypt |}))))))).

(** ** The rule *)

Fixpoint nodupb (l : list Z) : bool :=
  match l with
  | [] => true
  | x :: l' => negb (existsb (Z.eqb x) l') && nodupb l'
  end.

(** [addPorts]: with [zero_counts = false] (the code) zero ports are skipped;
    [zero_counts = true] is [UniqChecker.Add] called directly (seeded change
    C13-L), refuted in Proofs/MigratePorts.v. *)
Definition add_ports (zero_counts : bool) (l : list Z) : list Z :=
  if zero_counts then l else filter (fun p => negb (p =? 0)) l.

Definition tcp_ports (p : pvec) : list Z :=
  p_web p :: (if p_tls p then [p_https p; p_dot p; p_dnscrypt p] else []).
Definition udp_ports (p : pvec) : list Z :=
  p_dns p :: (if p_tls p then [p_doq p] else []).

Definition ports_ok_gen (zero_counts : bool) (p : pvec) : bool :=
  nodupb (add_ports zero_counts (tcp_ports p)) && nodupb (add_ports zero_counts (udp_ports p)).

(** [validateConfig]'s verdict on the ports, as the code has it. *)
Definition ports_ok : pvec -> bool := ports_ok_gen false.

Definition doc_ports_ok_gen (zero_counts : bool) (v : nat) (m : obj) : bool :=
  match doc_ports v m with Some p => ports_ok_gen zero_counts p | None => false end.

(** The ports of a document of version [v] are valid under its own schema /
    the loader of the current version accepts the ports of [m] ([v = 29]). *)
Definition doc_ports_ok : nat -> obj -> bool := doc_ports_ok_gen false.

(** The web keys of a file below version 23 come together: the program of
    version 22 wrote [bind_host] whenever it wrote [bind_port].  (Step 23 does
    nothing without [bind_host]: a lone [bind_port] stays at the top level,
    where the loader of the current version does not look.) *)
Definition web_together (m : obj) : bool :=
  match get "bind_port" m with
  | None => true
  | Some _ => match get "bind_host" m with None => false | Some _ => true end
  end.

Definition lone_at (v : nat) (m : obj) : bool := web_flat v && negb (web_together m).

(** The loader's verdict on the fields the steps touch: kinds
    ([Model/MigrateLoad.v]) and ports. *)
Definition loadable_ports (v : nat) (m : obj) : bool := loadable v m && doc_ports_ok v m.

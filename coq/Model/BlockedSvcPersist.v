(** The blocked-services section of the configuration file (C18, round 6):
    what the ConfigModified callback of [home] writes for
    [filtering.Config.BlockedServices] and what a restart reads.  No proofs
    here.

    [home.configuration.write] calls [DNSFilter.WriteDiskConfig] and encodes
    the result with yaml.v3: the ids as they are, the schedule through
    [Weekly.MarshalYAML] = the YAML document of Model/ScheduleZone.v (zone name
    the location reports, the non-zero days as [timeutil.Duration] texts).  A
    restart decodes the file ([Weekly.UnmarshalYAML]: texts, then
    [time.LoadLocation], then the seven ranges; a failure ends the start-up)
    and hands the value to [filtering.New].  The tz database is the section
    variable [tz] as in Model/ScheduleZone.v; yaml.v3's own reading and
    writing of strings and lists is not modelled. *)
From Coq Require Import ZArith List Bool.
From AGH Require Import Base.Run Model.Schedule Model.ScheduleText Model.BlockedSvcHttp Model.ScheduleZone.
Import ListNotations.
Local Open Scope Z_scope.

(** The "blocked_services" member of the "filtering" section. *)
Record pdoc := { pd_ids : list bytes; pd_sched : zdoc }.

Definition save_yaml (s : bsvc) : pdoc :=
  {| pd_ids := bs_ids s; pd_sched := marshal_zdoc tu_string (bs_sched s) |}.

Section TZ.
  Variable tz : bytes -> bool.

  Definition load_yaml (d : pdoc) : option bsvc :=
    match decode_zdoc tz parse_yaml_dur (pd_sched d) with
    | inr sc => Some {| bs_ids := pd_ids d; bs_sched := sc |}
    | inl _ => None
    end.

  Definition ylife := life pdoc.

  Definition ystep_ord (ord : op -> order) := lstep_ord save_yaml ord.
  Definition ystep := lstep save_yaml.
  Definition yrestart := restart load_yaml.
  Definition yrun_ord (ord : op -> order) := lrun_ord save_yaml load_yaml ord.
  Definition yrun := lrun save_yaml load_yaml.
End TZ.

(** A process that came up from a configuration holding [m] and has written
    its configuration once. *)
Definition ylife_init (m : bsvc) : ylife := {| lf_mem := m; lf_disk := save_yaml m |}.

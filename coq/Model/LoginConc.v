(** Concurrent model of POST /control/login (C12, round 7).  No proofs here.

    handleLogin asks the limiter first ([rateLimiter.check], one critical
    section of the limiter's own mutex), then has the password evaluated
    ([findUser]: bcrypt, slow), then counts the failure or clears the record
    ([rateLimiter.inc] / [remove], another critical section).  Nothing in the
    handler ties the two sections together; what does is the wrapper [ensure]
    (control.go), which holds [globalContext.controlLock] around the whole
    handler for every POST / PUT / DELETE.  [serialised] says whether that
    lock is taken ([true]: the code).

    A login is a thread with three steps: check (preceded by the acquisition
    of the control lock), evaluate, count (followed by the release).  A 429 is
    answered by the first step alone (lock taken and released around it). *)
From AGH Require Import Base.Run Model.RateLimit.
From stdpp Require Import gmap.
Local Open Scope Z_scope.

Inductive lpc :=
  | LStart                    (* not past ensure / the limiter's check yet *)
  | LChecked                  (* let through by the limiter, password not evaluated yet *)
  | LEvald                    (* password evaluated, failure not counted yet *)
  | LDone (o : login_out).

Record lstate := {
  l_tab : rl_state;
  l_ctl : option nat;                (* the holder of the control lock *)
  l_thr : list (att * lpc);
  (* ghost, never read by a step: the attempts in the order in which they were
     answered (a 429) or counted (403 / 200), with the answer; and the table a
     SEQUENTIAL run of handleLogin over that history leaves *)
  l_log : list (nat * att * login_out);
  l_seq : rl_state;
}.

Definition linit (s : rl_state) (atts : list att) : lstate :=
  {| l_tab := s; l_ctl := None; l_thr := map (fun e => (e, LStart)) atts; l_log := []; l_seq := s |}.

Definition lstep (ser : bool) (c : rl_conf) (i : nat) (st : lstate) : option lstate :=
  match l_thr st !! i with
  | None => None
  | Some (e, pc) =>
      match pc with
      | LStart =>
          if ser && match l_ctl st with Some _ => true | None => false end then None
          else
            let '(s1, lft) := rl_check c (a_now e) (l_tab st) (a_addr e) in
            if 0 <? lft then
              Some {| l_tab := s1; l_ctl := l_ctl st; l_thr := <[i := (e, LDone (L429 lft))]> (l_thr st);
                      l_log := l_log st ++ [(i, e, L429 lft)]; l_seq := fst (login c e (l_seq st)) |}
            else
              Some {| l_tab := s1; l_ctl := if ser then Some i else l_ctl st;
                      l_thr := <[i := (e, LChecked)]> (l_thr st); l_log := l_log st; l_seq := l_seq st |}
      | LChecked =>
          Some {| l_tab := l_tab st; l_ctl := l_ctl st; l_thr := <[i := (e, LEvald)]> (l_thr st);
                  l_log := l_log st; l_seq := l_seq st |}
      | LEvald =>
          let '(s2, o) := if a_ok e then (rl_remove (l_tab st) (a_addr e), L200)
                          else (rl_inc c (a_now2 e) (l_tab st) (a_addr e), L403) in
          Some {| l_tab := s2; l_ctl := if ser then None else l_ctl st;
                  l_thr := <[i := (e, LDone o)]> (l_thr st);
                  l_log := l_log st ++ [(i, e, o)]; l_seq := fst (login c e (l_seq st)) |}
      | LDone _ => None
      end
  end.

Fixpoint lrun (ser : bool) (c : rl_conf) (sched : list nat) (st : lstate) : option lstate :=
  match sched with
  | [] => Some st
  | i :: sched' => match lstep ser c i st with Some st' => lrun ser c sched' st' | None => None end
  end.

Definition ldone (p : att * lpc) : bool := match snd p with LDone _ => true | _ => false end.

Definition lout (p : att * lpc) : option login_out := match snd p with LDone o => Some o | _ => None end.

(** How many passwords were evaluated. *)
Definition levaluated (st : lstate) : nat :=
  length (List.filter (fun p : att * lpc => match snd p with LDone (L429 _) | LStart => false | _ => true end) (l_thr st)).

(** Model of the legacy DNS rewrites (C06): internal/filtering/rewrites.go
    (normalize, matchesQType, isWildcard, matchDomainWildcard, Compare,
    findRewrites, setRewriteResult) and filtering.go (processRewrites and the
    use CheckHost makes of it).  No proofs here.

    Names are byte strings ([bytes = list N]), compared bytewise exactly as the
    Go code compares Go strings.  An address is its family flag (netip
    [Is4()]) and its value as a big-endian number.  [netip.ParseAddr] is an
    oracle: a raw entry carries what it returned for the answer text.  The
    sorting function is a parameter everywhere: Go uses slices.SortFunc,
    which is not stable. *)
From Coq Require Import ZArith NArith List Bool String Ascii.
From AGH Require Import Base.Run.
Import ListNotations.
Local Open Scope N_scope.

(** Text helpers (for examples and the evaluator): a Coq string as bytes. *)
Definition bs (s : string) : bytes := map N_of_ascii (list_ascii_of_string s).

Inductive rtype := RA | RAAAA | RCNAME.

(* dns.TypeA = 1, dns.TypeAAAA = 28, dns.TypeCNAME = 5 *)
Definition qA : N := 1.
Definition qAAAA : N := 28.
Definition qCNAME : N := 5.
Definition rtype_code (t : rtype) : N :=
  match t with RA => qA | RAAAA => qAAAA | RCNAME => qCNAME end.

Record ip := { ip_is4 : bool; ip_val : N }.
Definition eqb_ip (a b : ip) : bool :=
  Bool.eqb (ip_is4 a) (ip_is4 b) && (ip_val a =? ip_val b).

(** An entry after [normalize].  [e_ip = None] is the zero [netip.Addr]. *)
Record entry := { e_dom : bytes; e_ans : bytes; e_ip : option ip; e_type : rtype }.

(** An entry as configured; [w_parse] is the result of netip.ParseAddr on the
    answer ([None] = error). *)
Record raw := { w_dom : bytes; w_ans : bytes; w_parse : option ip }.

(** strings.ToLower on ASCII text. *)
Definition lower_byte (b : N) : N := if (65 <=? b) && (b <=? 90) then b + 32 else b.
Definition to_lower (s : bytes) : bytes := map lower_byte s.

Definition ans_A : bytes := [65].
Definition ans_AAAA : bytes := [65; 65; 65; 65].

(** normalize.  The order is the code's: the domain is lower-cased FIRST,
    before the "A"/"AAAA" early returns, so exception entries are lower-cased
    like every other entry; the answer is lower-cased only when it turns out
    to be a canonical name (parse error), i.e. in the CNAME branch. *)
Definition normalize (r : raw) : entry :=
  let d := to_lower (w_dom r) in
  if eqb_bytes (w_ans r) ans_AAAA then
    {| e_dom := d; e_ans := w_ans r; e_ip := None; e_type := RAAAA |}
  else if eqb_bytes (w_ans r) ans_A then
    {| e_dom := d; e_ans := w_ans r; e_ip := None; e_type := RA |}
  else match w_parse r with
  | None =>
      (* a canonical name: lower-cased as well *)
      {| e_dom := d; e_ans := to_lower (w_ans r); e_ip := None; e_type := RCNAME |}
  | Some i =>
      {| e_dom := d; e_ans := w_ans r; e_ip := Some i;
         e_type := if ip_is4 i then RA else RAAAA |}
  end.

Definition is_cname (e : entry) : bool :=
  match e_type e with RCNAME => true | _ => false end.

Definition no_ip (e : entry) : bool :=
  match e_ip e with None => true | Some _ => false end.

Definition is_addr_q (qt : N) : bool := (qt =? qA) || (qt =? qAAAA).

(** matchesQType *)
Definition match_qtype (e : entry) (qt : N) : bool :=
  if is_cname e then true
  else if negb (is_addr_q qt) then false
  else (rtype_code (e_type e) =? qt) || no_ip e.

(** isWildcard: len(pat) > 1 && pat[0] == '*' && pat[1] == '.' *)
Definition is_wildcard (pat : bytes) : bool :=
  match pat with a :: b :: _ => (a =? 42) && (b =? 46) | _ => false end.

(** strings.HasSuffix *)
Definition has_suffix (s suf : bytes) : bool :=
  (length suf <=? length s)%nat && eqb_bytes (skipn (length s - length suf) s) suf.

(** matchDomainWildcard *)
Definition match_wildcard (host w : bytes) : bool :=
  is_wildcard w && has_suffix host (tl w).

Definition matches_host (e : entry) (host : bytes) : bool :=
  eqb_bytes (e_dom e) host || match_wildcard host (e_dom e).

(** Compare *)
Definition len_diff (a b : entry) : Z :=
  (Z.of_nat (length (e_dom b)) - Z.of_nat (length (e_dom a)))%Z.

Definition compare (a b : entry) : Z :=
  let rest :=
    let aw := is_wildcard (e_dom a) in
    let bw := is_wildcard (e_dom b) in
    if Bool.eqb aw bw then len_diff a b else if aw then 1%Z else (-1)%Z in
  if is_cname a then (if negb (is_cname b) then (-1)%Z else rest)
  else if is_cname b then 1%Z else rest.

Definition lt_entry (a b : entry) : bool := (compare a b <? 0)%Z.

(** The loop that cuts the sorted matches at the first wildcard, keeping at
    least one: [rewrites[:max(1, i)]]. *)
Fixpoint first_wild (l : list entry) : option nat :=
  match l with
  | [] => None
  | e :: l => if is_wildcard (e_dom e) then Some O
              else match first_wild l with Some i => Some (S i) | None => None end
  end.

Definition cut (l : list entry) : list entry :=
  match first_wild l with
  | None => l
  | Some i => firstn (Nat.max 1 i) l
  end.

Definition is_nil {A} (l : list A) : bool := match l with [] => true | _ => false end.

Inductive reason := NotFound | Rewritten.    (* NotFilteredNotFound, Rewritten *)
Record rw_result := { r_reason : reason; r_canon : bytes; r_ips : list ip }.
Definition empty_result := {| r_reason := NotFound; r_canon := []; r_ips := [] |}.

(** setRewriteResult: the loop returns early at an "A"/"AAAA" exception
    entry of the requested type, leaving what was collected so far. *)
Fixpoint set_result (res : rw_result) (rws : list entry) (qt : N) : rw_result :=
  match rws with
  | [] => res
  | rw :: rest =>
      if (rtype_code (e_type rw) =? qt) && is_addr_q qt then
        match e_ip rw with
        | None => {| r_reason := NotFound; r_canon := r_canon res; r_ips := r_ips res |}
        | Some i =>
            set_result {| r_reason := r_reason res; r_canon := r_canon res;
                          r_ips := r_ips res ++ [i] |} rest qt
        end
      else set_result res rest qt
  end.

Definition mem_bytes (x : bytes) (l : list bytes) : bool := existsb (eqb_bytes x) l.

Section WithSort.
  Variable sort : list entry -> list entry.

  (** findRewrites *)
  Definition find_rewrites (tbl : list entry) (host : bytes) (qt : N)
    : list entry * bool :=
    let ms := filter (fun e => matches_host e host) tbl in
    let matched := negb (is_nil ms) in
    let rws := filter (fun e => match_qtype e qt) ms in
    if is_nil rws then ([], matched) else (cut (sort rws), matched).

  (** The loop of processRewrites.  One unit of fuel per evaluation of the
      loop condition; [None] = fuel exhausted (the Go loop would still be
      running).  [visited] is the [cnames] set, [canon] is res.CanonName. *)
  Fixpoint chase (fuel : nat) (tbl : list entry) (qt : N) (orig host : bytes)
      (visited : list bytes) (canon : bytes) (rws : list entry) (matched : bool)
      : option rw_result :=
    match fuel with
    | O => None
    | S fuel' =>
        let done := Some (set_result
          {| r_reason := Rewritten; r_canon := canon; r_ips := [] |} rws qt) in
        match rws with
        | rw :: _ =>
            if matched && is_cname rw then
              let pat := e_dom rw in
              let ans := e_ans rw in
              if eqb_bytes orig ans || eqb_bytes pat ans then Some empty_result
              else if eqb_bytes host ans && is_wildcard pat then
                (* break with res.CanonName = host *)
                Some (set_result
                  {| r_reason := Rewritten; r_canon := host; r_ips := [] |} rws qt)
              else if mem_bytes ans visited then
                Some {| r_reason := Rewritten; r_canon := canon; r_ips := [] |}
              else
                let '(rws', matched') := find_rewrites tbl ans qt in
                chase fuel' tbl qt orig ans (ans :: visited) ans rws' matched'
            else done
        | [] => done
        end
    end.

  (** processRewrites *)
  Definition process_rewrites (tbl : list entry) (host : bytes) (qt : N)
    : option rw_result :=
    let '(rws, matched) := find_rewrites tbl host qt in
    if negb matched then Some empty_result
    else chase (S (length tbl)) tbl qt host host [] [] rws matched.

  (** Result.CanonNameRewritten (fix 2e58a5d), as processRewrites sets it:
      the same loop as [chase], returning the flag.  It is assigned AFTER
      setRewriteResult, from what the loop left: [res.CanonName != "" &&
      matched && (len(rewrites) == 0 || rewrites[0].Type != dns.TypeCNAME)];
      the early returns (an exception: Result{}; a detected loop: res as it
      is) leave it false; after the break of the "*.example.com ->
      sub.example.com" case the first entry is that canonical-name entry, so
      the expression is false there too. *)
  Definition covered_after (canon : bytes) (rws : list entry) (matched : bool) : bool :=
    negb (is_nil canon) && matched &&
    match rws with [] => true | rw :: _ => negb (is_cname rw) end.

  Fixpoint chase_covered (fuel : nat) (tbl : list entry) (qt : N) (orig host : bytes)
      (visited : list bytes) (canon : bytes) (rws : list entry) (matched : bool)
      : option bool :=
    match fuel with
    | O => None
    | S fuel' =>
        let done := Some (covered_after canon rws matched) in
        match rws with
        | rw :: _ =>
            if matched && is_cname rw then
              let pat := e_dom rw in
              let ans := e_ans rw in
              if eqb_bytes orig ans || eqb_bytes pat ans then Some false
              else if eqb_bytes host ans && is_wildcard pat then
                Some (covered_after host rws matched)
              else if mem_bytes ans visited then Some false
              else
                let '(rws', matched') := find_rewrites tbl ans qt in
                chase_covered fuel' tbl qt orig ans (ans :: visited) ans rws' matched'
            else done
        | [] => done
        end
    end.

  Definition process_rewrites_covered (tbl : list entry) (host : bytes) (qt : N) : option bool :=
    let '(rws, matched) := find_rewrites tbl host qt in
    if negb matched then Some false
    else chase_covered (S (length tbl)) tbl qt host host [] [] rws matched.

  (** CheckHost as far as rewrites are concerned: no other checker matches
      (they are the subject of other properties), so a result whose reason
      is not Rewritten is replaced by the empty result. *)
  Definition check_host (filtering_enabled : bool) (tbl : list entry)
      (host : bytes) (qt : N) : option rw_result :=
    if is_nil host then Some empty_result
    else if negb filtering_enabled then Some empty_result
    else match process_rewrites tbl (to_lower host) qt with
    | None => None
    | Some r =>
        match r_reason r with Rewritten => Some r | NotFound => Some empty_result end
    end.
  (** The flag of the result CheckHost returns (a result that is not
      "rewritten" is replaced by the empty one, flag included). *)
  Definition check_host_covered (filtering_enabled : bool) (tbl : list entry)
      (host : bytes) (qt : N) : option bool :=
    if is_nil host then Some false
    else if negb filtering_enabled then Some false
    else match process_rewrites tbl (to_lower host) qt with
    | None => None
    | Some r =>
        match r_reason r with
        | Rewritten => process_rewrites_covered tbl (to_lower host) qt
        | NotFound => Some false
        end
    end.
  (** The same as a boolean (the chase never runs out of fuel:
      C06_terminates; [false] stands for that impossible case). *)
  Definition covered_flag (filtering_enabled : bool) (tbl : list entry)
      (host : bytes) (qt : N) : bool :=
    match check_host_covered filtering_enabled tbl host qt with Some b => b | None => false end.
End WithSort.

(** A concrete stable sort for the evaluator: insertion sort ([x] goes before
    the first element that is not smaller than it, so equal elements keep
    their order).  slices.SortFunc uses insertion sort below 13 elements. *)
Fixpoint insert (x : entry) (l : list entry) : list entry :=
  match l with
  | [] => [x]
  | y :: r => if lt_entry y x then y :: insert x r else x :: l
  end.

Definition isort (l : list entry) : list entry := fold_right insert [] l.

(** * The response side (internal/dnsforward: filterDNSRequest,
    getCNAMEWithIPs, processFilteringAfterResponse)

    What the client receives for a query whose filtering step is [check_host]
    (no other filter matches; cache, DNS64, access control are the subject of
    other properties).  The upstream is any function from the question asked
    to a response code and answer records. *)
Inductive rr :=
  | RR_CNAME (owner target : bytes)
  | RR_A (owner : bytes) (v : N)
  | RR_AAAA (owner : bytes) (v : N)
  | RR_OTHER (owner : bytes) (rrtype : N).

Record response := {
  rp_qname : bytes;                 (* question section of the delivered message *)
  rp_rcode : N;
  rp_answer : list rr;
  rp_upstream : list (bytes * N)    (* questions put to the upstream, in order *)
}.

Section Respond.
  Variable sort : list entry -> list entry.
  Variable upstream : bytes -> N -> N * list rr.

  (** genAnswersWithIPv4s gives nothing as soon as one address is not IPv4. *)
  Definition answers_v4 (owner : bytes) (ips : list ip) : list rr :=
    if forallb ip_is4 ips then map (fun i => RR_A owner (ip_val i)) ips else [].

  Definition answers_v6 (owner : bytes) (ips : list ip) : list rr :=
    map (fun i => RR_AAAA owner (ip_val i)) (filter (fun i => negb (ip_is4 i)) ips).

  (** isRewrittenCNAME (after 2e58a5d): a canonical name and no address, and
      the canonical name not itself covered by the table. *)
  Definition via_upstream (r : rw_result) (covered : bool) : bool :=
    negb (is_nil (r_canon r)) && is_nil (r_ips r) && negb covered.

  Definition respond (enabled : bool) (tbl : list entry) (qname : bytes) (qt : N)
    : option response :=
    match check_host sort enabled tbl qname qt with
    | None => None
    | Some r =>
        match r_reason r with
        | NotFound =>
            let '(rc, ans) := upstream qname qt in
            Some {| rp_qname := qname; rp_rcode := rc; rp_answer := ans;
                    rp_upstream := [(qname, qt)] |}
        | Rewritten =>
            if via_upstream r (covered_flag sort enabled tbl qname qt) then
              (* isRewrittenCNAME: ask for the canonical name, then restore
                 the question and prepend the CNAME *)
              let '(rc, ans) := upstream (r_canon r) qt in
              Some {| rp_qname := qname; rp_rcode := rc;
                      rp_answer := RR_CNAME qname (r_canon r) :: ans;
                      rp_upstream := [(r_canon r, qt)] |}
            else
              let owner := if is_nil (r_canon r) then qname else r_canon r in
              let cn := if is_nil (r_canon r) then [] else [RR_CNAME qname (r_canon r)] in
              let addrs :=
                if qt =? qA then answers_v4 owner (r_ips r)
                else if qt =? qAAAA then answers_v6 owner (r_ips r)
                else [] in
              Some {| rp_qname := qname; rp_rcode := 0; rp_answer := cn ++ addrs;
                      rp_upstream := [] |}
        end
    end.
End Respond.

(** * The response side with an upstream that may fail

    [upstream name qt = None]: the exchange returned an error (transport
    failure) instead of a message.  dnsproxy then builds a SERVFAIL reply
    from the request as it is at that moment (proxy.handleExchangeResult),
    Resolve returns the error, processUpstream puts the original question
    back into request and reply (for a CNAME resolved upstream the request
    carries the canonical name at that moment) and returns resultCodeError,
    and proxy.handleDNSRequest still sends that reply ([p.respond(d)] after
    the handler's error).  The boolean is "the handler returned an error".

    Whatever the upstream replies (any RCODE, any answer section, empty
    included) the reply object is reused: question restored, CNAME put in
    front, RCODE untouched. *)
Definition rcode_servfail : N := 2.

Section RespondE.
  Variable sort : list entry -> list entry.
  Variable upstream : bytes -> N -> option (N * list rr).

  (** Ask the upstream for [asked]; on a reply deliver it under the question
      [shown] with [front] before its records. *)
  Definition forward (asked shown : bytes) (qt : N) (front : list rr) : bool * response :=
    match upstream asked qt with
    | Some (rc, ans) =>
        (false, {| rp_qname := shown; rp_rcode := rc; rp_answer := front ++ ans;
                   rp_upstream := [(asked, qt)] |})
    | None =>
        (true, {| rp_qname := shown; rp_rcode := rcode_servfail; rp_answer := [];
                  rp_upstream := [(asked, qt)] |})
    end.

  (** getCNAMEWithIPs *)
  Definition local_response (r : rw_result) (qname : bytes) (qt : N) : response :=
    let owner := if is_nil (r_canon r) then qname else r_canon r in
    let cn := if is_nil (r_canon r) then [] else [RR_CNAME qname (r_canon r)] in
    let addrs :=
      if qt =? qA then answers_v4 owner (r_ips r)
      else if qt =? qAAAA then answers_v6 owner (r_ips r)
      else [] in
    {| rp_qname := qname; rp_rcode := 0; rp_answer := cn ++ addrs; rp_upstream := [] |}.

  Definition respond_e (enabled : bool) (tbl : list entry) (qname : bytes) (qt : N)
    : option (bool * response) :=
    match check_host sort enabled tbl qname qt with
    | None => None
    | Some r =>
        match r_reason r with
        | NotFound => Some (forward qname qname qt [])
        | Rewritten =>
            if via_upstream r (covered_flag sort enabled tbl qname qt) then
              Some (forward (r_canon r) qname qt [RR_CNAME qname (r_canon r)])
            else Some (false, local_response r qname qt)
        end
    end.
End RespondE.

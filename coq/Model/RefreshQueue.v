(** C15, round 9: the rules in force after set_url / add_url when requests for
    an engine rebuild queue up.

    The HTTP handlers end in [EnableFilters(true)]: under [filtersMu.RLock] a
    snapshot of the SET of enabled lists (ID and path of each; not their
    contents) is taken and handed to [setFilters(…, async = true)], which puts
    it into [filtersInitializerChan] (capacity 1): drain, then send.
    [updatesLoop] takes a task and runs [initFiltering] on it, which reads the
    files of the lists of the task WHEN IT RUNS ([newRuleStorage]; a missing
    file is skipped).  Refresh passes and start-up rebuild synchronously
    ([EnableFilters(false)]) and do not touch the channel.

    The channel and the two ways of putting a task into it are those of
    Model/FilterQueue.v (C01: [enqueue_policy], [enq_drain_send],
    [enq_nonblocking]); the configuration is the state of Model/Refresh.v, so
    downloads, files and metadata are those of the refresh model.  No proofs. *)
From Coq Require Import NArith List Bool.
From AGH Require Import Base.Run Model.RuleListParser Model.Refresh Model.FilterQueue.
Import ListNotations.
Local Open Scope N_scope.

(** [filtersInitializerParams]: the enabled block lists and allow lists. *)
Definition idsnap := (list N * list N)%type.

Definition enabled_ids (ls : list flist) : list N := map f_id (filter f_enabled ls).

(** [enableFiltersLocked] *)
Definition take_ids (st : rstate) : idsnap := (enabled_ids (r_block st), enabled_ids (r_allow st)).

(** [initFiltering] / [newRuleStorage] on a task, with the files of the moment. *)
Definition read_ids (ids : list N) (fs : files) : list (N * bytes) :=
  flat_map (fun i => match fget i fs with Some c => [(i, c)] | None => [] end) ids.

Definition build (p : idsnap) (fs : files) : engine :=
  {| e_block := read_ids (fst p) fs; e_allow := read_ids (snd p) fs |}.

Definition with_engine (e : engine) (st : rstate) : rstate :=
  {| r_block := r_block st; r_allow := r_allow st; r_files := r_files st; r_engine := e |}.

(** Lists, files and the engines in force; the channel (oldest first); the
    task the loop has taken and not yet installed. *)
Record qr := mkQR { qr_st : rstate; qr_chan : list idsnap; qr_busy : option idsnap }.

Inductive qop :=
  | QRefresh (block allow force : bool) (due : N -> bool) (oc : N -> outcome)  (* a pass: synchronous rebuild *)
  | QSet (allow : bool) (url : N) (name : bytes) (nurl : N) (enabled : bool) (o : outcome)
                                         (* handleFilteringSetURL; add_url is the enabling of a list never stored *)
  | QTouch                               (* set_rules, filtering/config, ...: EnableFilters(true) and no change of the lists *)
  | QTake                                (* updatesLoop: params := <-filtersInitializerChan *)
  | QInstall                             (* updatesLoop: initFiltering(params) done *)
  | QSync                                (* EnableFilters(false) for another reason *)
  | QLoop.                               (* the loop left alone until it has nothing to do *)

Section Queue.
  Variable crc : N -> bytes -> N.
  Variable enq : enqueue_policy idsnap.

  (** [EnableFilters(true)] *)
  Definition trigger (s : qr) : qr :=
    mkQR (qr_st s) (fst (enq (qr_chan s) (take_ids (qr_st s)))) (qr_busy s).

  (** [handleFilteringSetURL]: [filterSetProperties] (Model/Refresh.v
      [set_props] without its rebuild), then [EnableFilters(true)] if a restart
      is required and there is no error. *)
  Definition set_async (allow : bool) (u : N) (name : bytes) (nurl : N) (en : bool) (o : outcome) (s : qr)
      : bool * bool * qr :=
    let '(rs, er, st') := set_props crc allow u name nurl en o (qr_st s) in
    let s' := mkQR (with_engine (r_engine (qr_st s)) st') (qr_chan s) (qr_busy s) in
    (rs, er, if negb er && rs then trigger s' else s').

  Definition take1 (s : qr) : qr :=
    match qr_busy s, qr_chan s with
    | None, p :: rest => mkQR (qr_st s) rest (Some p)
    | _, _ => s
    end.

  Definition install (s : qr) : qr :=
    match qr_busy s with
    | Some p => mkQR (with_engine (build p (r_files (qr_st s))) (qr_st s)) (qr_chan s) None
    | None => s
    end.

  Fixpoint serve (n : nat) (s : qr) : qr :=
    match n with
    | O => install s
    | S n => serve n (take1 (install s))
    end.
  Definition quiesce (s : qr) : qr := serve (length (qr_chan s)) s.

  Definition qstep (s : qr) (o : qop) : qr :=
    match o with
    | QRefresh b a f due oc => mkQR (refresh crc b a f due oc (qr_st s)) (qr_chan s) (qr_busy s)
    | QSet a u name nu en o => snd (set_async a u name nu en o s)
    | QTouch => trigger s
    | QTake => take1 s
    | QInstall => install s
    | QSync => mkQR (rebuild_now (qr_st s)) (qr_chan s) (qr_busy s)
    | QLoop => quiesce s
    end.

  Definition qrun (s : qr) (h : list qop) : qr := fold_left qstep h s.
End Queue.

(** A server whose loop is idle. *)
Definition qidle (st : rstate) : qr := mkQR st [] None.

(** C16 (round 4): the TLS settings through POST /control/tls/configure
    (internal/home/tls.go handleTLSConfigure, unmarshalTLS, validateTLSSettings,
    validatePorts, loadCertificateChainData / loadPrivateKeyData, setConfig;
    config.go tlsConfigSettings.setPrivateFieldsAndCompare; dns.go
    newDNSTLSConfig).  Which fields the handler takes from the request and
    which it keeps from the settings in force; what it hands to the DNS
    server.  No proofs here.

    Strings whose content the handler does not look into (PEM data, file
    paths, the DNSCrypt file, cipher names) are numbers: 0 is the empty string,
    the harness keeps the table.  What only the operating system or crypto/x509
    can tell is an input: [r_avail] (the ports can be bound) and [r_pair_ok]
    (chain and key, read from where the settings point, parse and match). *)
From Coq Require Import List NArith Bool.
From AGH Require Import Base.Run Base.Bytes.
Import ListNotations.
Local Open Scope N_scope.

Record tls_settings := {
  t_enabled : bool;
  t_server_name : bytes;
  t_force_https : bool;
  t_port_https : N;
  t_port_dot : N;
  t_port_doq : N;
  t_port_dnscrypt : N;
  t_dnscrypt_file : N;
  t_allow_unenc_doh : bool;
  t_cert_chain : N;
  t_private_key : N;
  t_cert_path : N;
  t_key_path : N;
  t_ciphers : list N;          (* OverrideTLSCiphers, json:"-" *)
  t_strict : bool;             (* StrictSNICheck, json:"-" *)
}.

(** The decoded request body: a tlsConfigSettings (the two json:"-" fields are
    whatever the zero value is: the decoder never writes them) and the two
    extra fields of tlsConfigSettingsExt. *)
Record tls_req := {
  r_setts : tls_settings;
  r_key_saved : bool;          (* private_key_saved *)
  r_serve_plain : option bool; (* serve_plain_dns: NullBool *)
  r_avail : bool;
  r_pair_ok : bool;
}.

(** The manager: the settings in force and servePlainDNS; the two ports of
    the rest of the configuration that validatePorts reads. *)
Record mgr := {
  m_conf : tls_settings;
  m_serve_plain : bool;
  m_web_port : N;
  m_dns_port : N;
}.

Inductive outcome :=
  | OutBadRequest      (* 400: unmarshalTLS or validateTLSSettings *)
  | OutLoadFailed      (* 200 with the failed status: nothing is set *)
  | OutSet             (* settings replaced, DNS server reconfigured *)
  | OutSetThenError.   (* settings replaced, then the DNS server configuration could not be built: 500 *)

Definition nz (n : N) : bool := negb (n =? 0).

(** unmarshalTLS: inline data and a path together are refused. *)
Definition unmarshal_ok (s : tls_settings) : bool :=
  negb (nz (t_cert_chain s) && nz (t_cert_path s)) &&
  negb (nz (t_private_key s) && nz (t_key_path s)).

Fixpoint uniq (l : list N) : bool :=
  match l with
  | [] => true
  | x :: r => negb (existsb (N.eqb x) r) && uniq r
  end.

(** validatePorts: non-zero ports, TCP and UDP apart. *)
Definition ports_ok (web dns : N) (s : tls_settings) : bool :=
  uniq (filter nz [web; t_port_https s; t_port_dot s; t_port_dnscrypt s; dns]) &&
  uniq (filter nz [dns; t_port_doq s]).

(** validateTLSSettings *)
Definition validate_ok (m : mgr) (r : tls_req) (s : tls_settings) : bool :=
  if t_enabled s then ports_ok (m_web_port m) (m_dns_port m) s && r_avail r
  else match r_serve_plain r with Some false => false | _ => true end.

(** loadTLSConfig: data and path together fail; otherwise the verdict on the
    pair counts when there is something to look at. *)
Definition has_chain (s : tls_settings) : bool := nz (t_cert_chain s) || nz (t_cert_path s).
Definition has_key (s : tls_settings) : bool := nz (t_private_key s) || nz (t_key_path s).

Definition load_ok (r : tls_req) (s : tls_settings) : bool :=
  negb (nz (t_cert_chain s) && nz (t_cert_path s)) &&
  negb (nz (t_private_key s) && nz (t_key_path s)) &&
  (if has_chain s || has_key s then r_pair_ok r else true).

(** setPrivateFieldsAndCompare: the fields that are not accepted from the
    frontend are carried over from the settings in force.  [keep_strict] is
    the one point where the tree before the fix "home: keep strict_sni_check
    when the TLS settings are saved" differed ([false] there). *)
Definition set_private (keep_strict : bool) (cur new : tls_settings) : tls_settings :=
  {| t_enabled := t_enabled new;
     t_server_name := t_server_name new;
     t_force_https := t_force_https new;
     t_port_https := t_port_https new;
     t_port_dot := t_port_dot new;
     t_port_doq := t_port_doq new;
     t_port_dnscrypt := t_port_dnscrypt cur;
     t_dnscrypt_file := t_dnscrypt_file cur;
     t_allow_unenc_doh := t_allow_unenc_doh cur;
     t_cert_chain := t_cert_chain new;
     t_private_key := t_private_key new;
     t_cert_path := t_cert_path new;
     t_key_path := t_key_path new;
     t_ciphers := t_ciphers cur;
     t_strict := if keep_strict then t_strict cur else t_strict new |}.

Definition eqb_list_N (a b : list N) : bool := eqb_list N.eqb a b.

Definition eqb_settings (a b : tls_settings) : bool :=
  Bool.eqb (t_enabled a) (t_enabled b) && eqb_bytes (t_server_name a) (t_server_name b) &&
  Bool.eqb (t_force_https a) (t_force_https b) && (t_port_https a =? t_port_https b) &&
  (t_port_dot a =? t_port_dot b) && (t_port_doq a =? t_port_doq b) &&
  (t_port_dnscrypt a =? t_port_dnscrypt b) && (t_dnscrypt_file a =? t_dnscrypt_file b) &&
  Bool.eqb (t_allow_unenc_doh a) (t_allow_unenc_doh b) && (t_cert_chain a =? t_cert_chain b) &&
  (t_private_key a =? t_private_key b) && (t_cert_path a =? t_cert_path b) &&
  (t_key_path a =? t_key_path b) && eqb_list_N (t_ciphers a) (t_ciphers b) &&
  Bool.eqb (t_strict a) (t_strict b).

(** The request's settings after [if req.PrivateKeySaved { req.PrivateKey = m.conf.PrivateKey }]. *)
Definition with_saved_key (m : mgr) (r : tls_req) : tls_settings :=
  let s := r_setts r in
  if r_key_saved r then
    {| t_enabled := t_enabled s; t_server_name := t_server_name s; t_force_https := t_force_https s;
       t_port_https := t_port_https s; t_port_dot := t_port_dot s; t_port_doq := t_port_doq s;
       t_port_dnscrypt := t_port_dnscrypt s; t_dnscrypt_file := t_dnscrypt_file s;
       t_allow_unenc_doh := t_allow_unenc_doh s; t_cert_chain := t_cert_chain s;
       t_private_key := t_private_key (m_conf m); t_cert_path := t_cert_path s;
       t_key_path := t_key_path s; t_ciphers := t_ciphers s; t_strict := t_strict s |}
  else s.

(** newDNSTLSConfig: what the DNS server is given ([None]: an empty TLSConfig). *)
Definition dns_tls (s : tls_settings) : option (bytes * bool) :=
  if t_enabled s then Some (t_server_name s, t_strict s) else None.

(** handleTLSConfigure.  The result: the manager afterwards, the outcome, and
    whether the settings were found changed (restartHTTPS: the configuration
    file is rewritten and the web server restarted). *)
Definition configure (keep_strict : bool) (m : mgr) (r : tls_req) : mgr * outcome * bool :=
  if negb (unmarshal_ok (r_setts r)) then (m, OutBadRequest, false)
  else
    let s := with_saved_key m r in
    if negb (validate_ok m r s) then (m, OutBadRequest, false)
    else if negb (load_ok r s) then (m, OutLoadFailed, false)
    else
      let s' := set_private keep_strict (m_conf m) s in
      let changed := negb (eqb_settings (m_conf m) s') in
      let m' := {| m_conf := s';
                   m_serve_plain := match r_serve_plain r with
                                    | Some b => b
                                    | None => m_serve_plain m
                                    end;
                   m_web_port := m_web_port m; m_dns_port := m_dns_port m |} in
      (* newDNSTLSConfig: tls.X509KeyPair of what was loaded *)
      if t_enabled s' && negb (has_chain s' && has_key s') then (m', OutSetThenError, changed)
      else (m', OutSet, changed).

Definition configure_mgr ks m r : mgr := fst (fst (configure ks m r)).

Definition run_configure (ks : bool) (m : mgr) (rs : list tls_req) : mgr :=
  fold_left (configure_mgr ks) rs m.

(** The handler as it is. *)
Definition handle := configure true.

(** Model of the query-log / statistics recording policy (C08):
    dnsforward/stats.go (processQueryLogsAndStats, shouldLog, shouldCountStat,
    logQuery, updateStats), querylog (ShouldLog, Add, searchMemory /
    readNextEntry re-checks, AnonymizeIP), stats (ShouldCount, Update),
    home/clients.go (findMultiple, shouldCountClient), aghnet.NormalizeDomain.
    No proofs here.

    The persistent-client registry is the one of Model/ClientIndex.v.  The
    ignore engines (aghnet.IgnoreEngine over urlfilter rules) are ORACLES:
    functions from a normalised name to bool, whose values on the names used
    the harness reads off the real engines. *)
From AGH Require Import Base.Run Model.ClientIndex.
Local Open Scope N_scope.

(** * querylog.AnonymizeIP on the slice netip.Addr.AsSlice gives *)
Definition zero_tail (n : nat) (ip : bytes) : bytes :=
  firstn (length ip - n) ip ++ repeat 0 n.

(** net.IP.To4 on a 16-byte slice: the v4-in-v6 prefix. *)
Definition is_4in6 (ip : bytes) : bool :=
  Nat.eqb (length ip) 16 && eqb_bytes (firstn 12 ip) [0;0;0;0;0;0;0;0;0;0;255;255].

Definition anonymize (ip : bytes) : bytes :=
  if Nat.eqb (length ip) 4 then zero_tail 2 ip
  else if Nat.eqb (length ip) 16 then (if is_4in6 ip then zero_tail 2 ip else zero_tail 10 ip)
  else ip.

(** * aghnet.NormalizeDomain (ASCII names) *)
Definition lower (b : N) : N := if (65 <=? b) && (b <=? 90) then b + 32 else b.
Definition trim_dot (s : bytes) : bytes :=
  match rev s with
  | 46 :: r => rev r
  | _ => s
  end.
Definition normalize (s : bytes) : bytes :=
  if eqb_bytes s [46] then s else map lower (trim_dot s).

(** * Client finders *)
(** One element of the [ids] slice: a ClientID string (with what net.ParseMAC
    makes of it: "aa-bb-cc-dd-ee-ff" is a valid ClientID label and a MAC), or
    an address rendered as a string.  ASSUMED of address strings: they are
    nobody's ClientID (Persistent.SetIDs never stores one) and are not MAC
    spellings. *)
Inductive id :=
  | IdCid (raw : bytes) (mac : option bytes)
  | IdAddr (a : addr).

(** index.findByIPWithoutZone: any stored exact address equal up to the zone
    (Go: map order; here: list order; the harness keeps candidates unique). *)
Definition find_ip_without_zone (ix : index) (a : addr) : option uid :=
  if Nat.eqb (length (fst a)) 0 then None else
  match List.find (fun e => addr_eqb (fst (fst e), []) a) (ip_to ix) with
  | Some (_, u) => Some u
  | None => None
  end.

(** client.Storage.FindLoose: index.findByClientIDOrIP never reads the id as
    a MAC address (the [mac] reading of a ClientID is carried by the case but
    not used). *)
Definition find_loose (ix : index) (dhcp : addr -> option bytes) (i : id) : option uid :=
  match i with
  | IdCid raw mac => find ix raw None None
  | IdAddr a =>
      match find_by_ip ix a with
      | Some u => Some u
      | None =>
          match (match dhcp a with Some m => find_by_mac ix m | None => None end) with
          | Some u => Some u
          | None => find_ip_without_zone ix a
          end
      end
  end.

(** client.Storage.FindByClientIDOrIP *)
Definition find_strict (ix : index) (dhcp : addr -> option bytes) (i : id) : option uid :=
  match i with
  | IdCid raw mac => find ix raw None None
  | IdAddr a =>
      match find_by_ip ix a with
      | Some u => Some u
      | None => match dhcp a with Some m => find_by_mac ix m | None => None end
      end
  end.

Fixpoint first_client (f : id -> option uid) (ix : index) (ids : list id) : option client :=
  match ids with
  | [] => None
  | i :: rest =>
      match f i with
      | Some u => match deref ix u with Some c => Some c | None => first_client f ix rest end
      | None => first_client f ix rest
      end
  end.

(** home.findMultiple as far as IgnoreQueryLog goes (runtime and artificial
    clients never carry the flag). *)
Definition qlog_client_ignored (ix : index) dhcp (ids : list id) : bool :=
  match first_client (find_loose ix dhcp) ix ids with
  | Some c => c_ignore_qlog c
  | None => false
  end.

(** home.shouldCountClient *)
Definition stats_client_counted (ix : index) dhcp (ids : list id) : bool :=
  match first_client (find_strict ix dhcp) ix ids with
  | Some c => negb (c_ignore_stats c)
  | None => true
  end.

(** * The logging stage *)
Record query := {
  q_name : bytes;                 (* question name as received *)
  q_any : bool;                   (* qtype ANY *)
  q_addr : addr;                  (* real client address *)
  q_cid : bytes;                  (* ClientID, [] if none *)
  q_cid_mac : option bytes        (* net.ParseMAC of the ClientID *)
}.

Record env := {
  e_ix : index;
  e_dhcp : addr -> option bytes;
  e_anon : bool;                  (* the anonymizer currently stored in the shared IPMut *)
  e_qlog_enabled : bool;          (* querylog conf.Enabled (queryLog.Add returns early otherwise) *)
  e_refuse_any : bool;
  e_qign : bytes -> bool;         (* querylog ignore engine *)
  e_sign : bytes -> bool          (* statistics ignore engine *)
}.

(** ids: the REAL address, preceded by the ClientID if there is one. *)
Definition ids_of (q : query) : list id :=
  match q_cid q with
  | [] => [IdAddr (q_addr q)]
  | c => [IdCid c (q_cid_mac q); IdAddr (q_addr q)]
  end.

(** The address that is recorded. *)
Definition recorded_ip (ev : env) (q : query) : bytes :=
  if e_anon ev then anonymize (fst (q_addr q)) else fst (q_addr q).

(** Server.shouldLog, and the Enabled test of queryLog.Add. *)
Definition should_log (ev : env) (q : query) : bool :=
  e_qlog_enabled ev &&
  negb (q_any q && e_refuse_any ev) &&
  negb (qlog_client_ignored (e_ix ev) (e_dhcp ev) (ids_of q)) &&
  negb (e_qign ev (normalize (q_name q))).

Definition should_count (ev : env) (q : query) : bool :=
  stats_client_counted (e_ix ev) (e_dhcp ev) (ids_of q) &&
  negb (e_sign ev (normalize (q_name q))).

(** A query-log record: QHost, IP, ClientID.  A statistics record: domain,
    client key (ClientID, else the recorded address). *)
Definition lentry := (bytes * bytes * bytes)%type.
Definition sentry := (bytes * bytes * bytes)%type.    (* domain, ClientID, address ([] when a ClientID is there) *)

Record store := {
  st_mem : list lentry;       (* memory buffer, oldest first *)
  st_file : list lentry;      (* querylog.json, oldest first *)
  st_has_file : bool;         (* querylog.json exists (possibly empty) *)
  st_old : list lentry;       (* querylog.json.1, the rotated file *)
  st_stats : list sentry;     (* what the current unit was updated with *)
  st_units : list (list sentry)   (* the units flushed to stats.db, oldest first *)
}.
Definition empty_store : store :=
  {| st_mem := []; st_file := []; st_has_file := false; st_old := []; st_stats := []; st_units := [] |}.

Definition log_entry (ev : env) (q : query) : lentry :=
  (normalize (q_name q), recorded_ip ev q, q_cid q).
Definition stat_entry (ev : env) (q : query) : sentry :=
  match q_cid q with
  | [] => (normalize (q_name q), [], recorded_ip ev q)
  | c => (normalize (q_name q), c, [])
  end.

(** Server.processQueryLogsAndStats.  (stats.Entry.validate rejects an empty
    domain; NormalizeDomain never yields one for a non-empty question name.) *)
Definition process (ev : env) (q : query) (st : store) : store :=
  {| st_mem := if should_log ev q then st_mem st ++ [log_entry ev q] else st_mem st;
     st_file := st_file st; st_has_file := st_has_file st; st_old := st_old st;
     st_stats := if should_count ev q then st_stats st ++ [stat_entry ev q] else st_stats st;
     st_units := st_units st |}.

(** queryLog.Shutdown / flushLogBuffer: an empty buffer is "nothing to write"
    (no file is created); otherwise the records are appended to querylog.json,
    which is created if missing. *)
Definition flush (st : store) : store :=
  {| st_mem := []; st_file := st_file st ++ st_mem st;
     st_has_file := st_has_file st || negb (Nat.eqb (length (st_mem st)) 0);
     st_old := st_old st; st_stats := st_stats st; st_units := st_units st |}.

(** queryLog.rotate: os.Rename(querylog.json, querylog.json.1).  The previous
    querylog.json.1 is overwritten; a missing querylog.json is "no log to
    rotate".  The memory buffer is not touched. *)
Definition rotate (st : store) : store :=
  if st_has_file st then
    {| st_mem := st_mem st; st_file := []; st_has_file := false; st_old := st_file st;
       st_stats := st_stats st; st_units := st_units st |}
  else st.

(** StatsCtx.flush when the hour has changed: the current unit is written to
    stats.db under its id, a new empty unit starts.  (ASSUMED: fewer hours pass
    inside a history than the retention limit, so no stored unit leaves the
    window of the reports; the window arithmetic is C09's.) *)
Definition roll (st : store) : store :=
  {| st_mem := st_mem st; st_file := st_file st; st_has_file := st_has_file st; st_old := st_old st;
     st_stats := []; st_units := st_units st ++ [st_stats st] |}.

(** Everything the statistics hold: the stored units, then the current one. *)
Definition all_stats (st : store) : list sentry := concat (st_units st) ++ st_stats st.

(** * The search side: both tests are applied again, with the CURRENT ignore
    list and registry, to memory and file entries alike; the client is looked
    up by what is stored (ClientID, recorded address). *)
(** net.IP.String / ParseAddr of a stored address: v4-in-v6 comes back as IPv4. *)
Definition canon_ip (b : bytes) : bytes := if is_4in6 b then skipn 12 b else b.

Definition stored_ids (mac_of : bytes -> option bytes) (e : lentry) : list id :=
  match e with
  | (_, ip, cid) =>
      (match cid with [] => [] | c => [IdCid c (mac_of c)] end) ++
      (match ip with [] => [] | _ => [IdAddr (canon_ip ip, [])] end)
  end.

Definition visible (ev : env) (mac_of : bytes -> option bytes) (e : lentry) : bool :=
  negb (e_qign ev (fst (fst e))) &&
  negb (qlog_client_ignored (e_ix ev) (e_dhcp ev) (stored_ids mac_of e)).

(** Unfiltered search (newest first): memory, then querylog.json, then the
    rotated querylog.json.1. *)
Definition search (ev : env) (mac_of : bytes -> option bytes) (st : store) : list lentry :=
  filter (visible ev mac_of) (rev (st_mem st) ++ rev (st_file st) ++ rev (st_old st)).

(** What GET /control/querylog reports: the stored address passed once more
    through the anonymizer in force at the time of the request. *)
Definition reported (ev : env) (e : lentry) : lentry :=
  match e with (n, ip, c) => (n, if e_anon ev then anonymize ip else ip, c) end.
Definition search_report (ev : env) (mac_of : bytes -> option bytes) (st : store) : list lentry :=
  map (reported ev) (search ev mac_of st).

(** * What GET /control/stats reports (the units of the window merged with
    the current one): top domains are filtered once more by
    the current ignore list (topsCollector), top clients by shouldCountClient
    applied to the stored client key (topClientPairs). *)
Definition stat_key_id (mac_of : bytes -> option bytes) (s : sentry) : id :=
  match s with
  | (_, c, i) => match c with [] => IdAddr (canon_ip i, []) | _ => IdCid c (mac_of c) end
  end.
Definition stat_domain_visible (ev : env) (s : sentry) : bool := negb (e_sign ev (fst (fst s))).
Definition stat_client_visible (ev : env) (mac_of : bytes -> option bytes) (s : sentry) : bool :=
  stats_client_counted (e_ix ev) (e_dhcp ev) [stat_key_id mac_of s].
Definition stats_domains (ev : env) (st : store) : list bytes :=
  map (fun s => fst (fst s)) (filter (stat_domain_visible ev) (all_stats st)).
Definition stats_clients (ev : env) (mac_of : bytes -> option bytes) (st : store) : list sentry :=
  filter (stat_client_visible ev mac_of) (all_stats st).

(** * Query-log configuration: the configured flag and the shared mutator *)
Record qconf := {
  qc_enabled : bool;          (* conf.Enabled *)
  qc_anon : bool;             (* conf.AnonymizeClientIP, what GET /control/querylog/config shows *)
  qc_mut : bool               (* the function stored in the IPMut: AnonymizeIP (true) or the no-op *)
}.

(** PUT /control/querylog/config/update: every field is mandatory. *)
Definition conf_put (enabled anon : bool) (c : qconf) : qconf :=
  {| qc_enabled := enabled; qc_anon := anon; qc_mut := anon |}.

(** POST /control/querylog_config (deprecated): every field is optional; the
    mutator is stored only together with the configured flag. *)
Definition conf_legacy (enabled anon : option bool) (c : qconf) : qconf :=
  {| qc_enabled := match enabled with Some b => b | None => qc_enabled c end;
     qc_anon := match anon with Some b => b | None => qc_anon c end;
     qc_mut := match anon with Some b => b | None => qc_mut c end |}.

Inductive conf_op :=
  | CPut (enabled anon : bool)
  | CLegacy (enabled anon : option bool).

Definition conf_step (c : qconf) (o : conf_op) : qconf :=
  match o with
  | CPut e a => conf_put e a c
  | CLegacy e a => conf_legacy e a c
  end.

(** home: the IPMut is created from the same configuration value. *)
Definition conf_init (enabled anon : bool) : qconf :=
  {| qc_enabled := enabled; qc_anon := anon; qc_mut := anon |}.

(** * The object graph of the anonymiser: who holds which aghnet.IPMut *)
(** An IPMut is a cell holding a function; the model keeps whether that
    function is querylog.AnonymizeIP (true) or the no-op (false).  The heap
    lists the cells allocated so far, a reference is the index of a cell. *)
Definition heap := list bool.
Definition ipmut := nat.

(** aghnet.NewIPMut *)
Definition new_ipmut (f : bool) (h : heap) : heap * ipmut := (h ++ [f], length h).
(** IPMut.Load *)
Definition mut_load (h : heap) (r : ipmut) : bool := nth r h false.
(** IPMut.Store *)
Fixpoint mut_store (r : ipmut) (f : bool) (h : heap) : heap :=
  match h, r with
  | [], _ => []
  | _ :: h', O => f :: h'
  | x :: h', S r' => x :: mut_store r' f h'
  end.

(** dnsforward.NewServer: the server keeps the IPMut of the caller
    (DNSCreateParams.Anonymizer); only a nil one is replaced by a fresh no-op. *)
Definition new_server (p_anonymizer : option ipmut) (h : heap) : heap * ipmut :=
  match p_anonymizer with
  | Some r => (h, r)
  | None => new_ipmut false h
  end.

(** The running system as far as anonymisation goes. *)
Record sys := {
  s_heap : heap;
  s_qlog_mut : ipmut;         (* queryLog.anonymizer: stored to by the two handlers, loaded by the report *)
  s_srv_mut : ipmut;          (* Server.anonymizer: loaded by processQueryLogsAndStats *)
  s_enabled : bool;           (* querylog conf.Enabled *)
  s_anon : bool               (* querylog conf.AnonymizeClientIP: what the API and AdGuardHome.yaml show *)
}.

(** home.initDNS: config.anonymizer() makes ONE IPMut from the configured flag;
    it is handed to querylog.New (Config.Anonymizer) and, through
    initDNSServer, to dnsforward.NewServer. *)
Definition init_dns (enabled anon : bool) : sys :=
  let '(h, r) := new_ipmut anon [] in
  let '(h', rs) := new_server (Some r) h in
  {| s_heap := h'; s_qlog_mut := r; s_srv_mut := rs; s_enabled := enabled; s_anon := anon |}.

(** The two configuration handlers of the query log (http.go): the function is
    stored into the query log's IPMut. *)
Definition sys_step (s : sys) (o : conf_op) : sys :=
  match o with
  | CPut e a =>
      {| s_heap := mut_store (s_qlog_mut s) a (s_heap s); s_qlog_mut := s_qlog_mut s; s_srv_mut := s_srv_mut s;
         s_enabled := e; s_anon := a |}
  | CLegacy e a =>
      {| s_heap := match a with Some b => mut_store (s_qlog_mut s) b (s_heap s) | None => s_heap s end;
         s_qlog_mut := s_qlog_mut s; s_srv_mut := s_srv_mut s;
         s_enabled := match e with Some b => b | None => s_enabled s end;
         s_anon := match a with Some b => b | None => s_anon s end |}
  end.

(** s.anonymizer.Load() in processQueryLogsAndStats; l.anonymizer.Load() in
    handleQueryLog (the report side). *)
Definition srv_anon (s : sys) : bool := mut_load (s_heap s) (s_srv_mut s).
Definition qlog_anon (s : sys) : bool := mut_load (s_heap s) (s_qlog_mut s).

(** The view of the query log alone: the configuration record above. *)
Definition sys_conf (s : sys) : qconf :=
  {| qc_enabled := s_enabled s; qc_anon := s_anon s; qc_mut := qlog_anon s |}.

(** * Histories with configuration requests as operations *)
(** What a query meets besides the anonymiser and the enabled flag (registry,
    leases, refuse_any, the two ignore engines: all may change between
    queries). *)
Record world := {
  w_ix : index;
  w_dhcp : addr -> option bytes;
  w_refuse_any : bool;
  w_qign : bytes -> bool;
  w_sign : bytes -> bool
}.

(** The environment of the logging stage: the mutator is the one the SERVER holds. *)
Definition env_at (s : sys) (w : world) : env :=
  {| e_ix := w_ix w; e_dhcp := w_dhcp w; e_anon := srv_anon s; e_qlog_enabled := s_enabled s;
     e_refuse_any := w_refuse_any w; e_qign := w_qign w; e_sign := w_sign w |}.

(** The environment of GET /control/querylog: the mutator is the one the QUERY LOG holds. *)
Definition env_report (s : sys) (w : world) : env :=
  {| e_ix := w_ix w; e_dhcp := w_dhcp w; e_anon := qlog_anon s; e_qlog_enabled := s_enabled s;
     e_refuse_any := w_refuse_any w; e_qign := w_qign w; e_sign := w_sign w |}.

Inductive hop :=
  | HConf (o : conf_op)               (* PUT /control/querylog/config/update, POST /control/querylog_config *)
  | HQuery (w : world) (q : query)
  | HFlush
  | HRotate
  | HRoll.

Definition hstep (st : sys * store) (o : hop) : sys * store :=
  match o with
  | HConf c => (sys_step (fst st) c, snd st)
  | HQuery w q => (fst st, process (env_at (fst st) w) q (snd st))
  | HFlush => (fst st, flush (snd st))
  | HRotate => (fst st, rotate (snd st))
  | HRoll => (fst st, roll (snd st))
  end.

Definition hrun (ops : list hop) (st : sys * store) : sys * store := fold_left hstep ops st.

(** * Round 8 (O): runtime clients behind the query log's finder *)
(** home.clientOrArtificial: the PERSISTENT clients first (Storage.FindLoose),
    then the runtime index (rDNS, WHOIS, ARP, hosts file, DHCP host names:
    Storage.ClientRuntime, keyed by address; such a record carries no ignore
    flag and counts as a result), else an artificial record.  [rt a]: the
    runtime index has a record for [a]. *)
Inductive found := FPersistent (c : client) | FRuntime | FArtificial.

Definition client_or_artificial (ix : index) dhcp (rt : addr -> bool) (i : id) : found :=
  match (match find_loose ix dhcp i with Some u => deref ix u | None => None end) with
  | Some c => FPersistent c
  | None =>
      match i with
      | IdAddr a => if rt a then FRuntime else FArtificial
      | IdCid _ _ => FArtificial        (* netip.ParseAddr fails: ClientRuntime of the zero address *)
      end
  end.

(** home.findMultiple as far as IgnoreQueryLog goes: the first id that is not
    artificial decides. *)
Fixpoint find_multiple (ix : index) dhcp (rt : addr -> bool) (ids : list id) : bool :=
  match ids with
  | [] => false
  | i :: rest =>
      match client_or_artificial ix dhcp rt i with
      | FPersistent c => c_ignore_qlog c
      | FRuntime => false
      | FArtificial => find_multiple ix dhcp rt rest
      end
  end.

(** * Round 8 (P): the configuration of the statistics *)
(** StatsCtx.enabled and the list behind StatsCtx.ignored.
    PUT /control/stats/config/update applies ALL members of the request. *)
Record sconf := { sc_enabled : bool; sc_ignored : list bytes }.
Definition sconf_put (enabled : bool) (ignored : list bytes) (c : sconf) : sconf :=
  {| sc_enabled := enabled; sc_ignored := ignored |}.
Definition sconf_run (puts : list (bool * list bytes)) (c : sconf) : sconf :=
  fold_left (fun c p => sconf_put (fst p) (snd p) c) puts c.

(** StatsCtx.Update returns at once while the statistics are disabled. *)
Definition process_gated (stats_on : bool) (ev : env) (q : query) (st : store) : store :=
  let st' := process ev q st in
  if stats_on then st' else
  {| st_mem := st_mem st'; st_file := st_file st'; st_has_file := st_has_file st'; st_old := st_old st';
     st_stats := st_stats st; st_units := st_units st |}.

Definition hstep_gated (stats_on : bool) (st : sys * store) (o : hop) : sys * store :=
  match o with
  | HQuery w q => (fst st, process_gated stats_on (env_at (fst st) w) q (snd st))
  | _ => hstep st o
  end.

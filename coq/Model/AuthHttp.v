(** Model of the HTTP middleware of internal/home (C11): control.go
    (postInstall, ensure, ensureContentType, httpRegister), authhttp.go
    (optionalAuth, optionalAuthThird, isPublicResource), auth.go (findUser,
    round 3: bcrypt is a three-valued oracle), controlinstall.go (preInstall).
    No proofs here.

    A handler is a function from the world (application state of any type [A]
    plus the session table of Model/Session.v) and a request to a new world
    and an answer; the wrappers are functions from handlers to handlers,
    exactly as in the code.  GL-inet mode is a build-time switch, modelled as
    off.  [gziphandler.GzipHandler] only wraps the response writer. *)
From AGH Require Import Base.Run Model.Session.
From stdpp Require Import gmap.
Local Open Scope Z_scope.

(** * Requests *)

Inductive cookie := CNone | CTok (sp : bytes).        (* the agh_session cookie: its value as sent *)
Inductive basic := BNone | BCred (login pw : bytes).   (* Authorization: Basic, as r.BasicAuth() decodes it *)

Record request := {
  r_method : bytes;
  r_path : bytes;            (* r.URL.Path *)
  r_ctype : bytes;           (* Content-Type header, [] when absent *)
  r_clen : Z;                (* r.ContentLength: 0 no body, -1 unknown *)
  r_cookie : cookie;
  r_basic : basic;
  r_tls : bool;              (* r.TLS != nil *)
  r_host_ok : bool;          (* netutil.SplitHost(r.Host) succeeds *)
  r_hdrs : list (bytes * bytes);  (* every other header of the request (Origin, Access-Control-*, Upgrade,
                                     X-Requested-With, X-Forwarded-For, ...): name, value *)
}.

(** * Accounts and bcrypt

    [bcrypt.CompareHashAndPassword(hash, password)] is an oracle with three
    answers: nil, [ErrMismatchedHashAndPassword], or any other error (the
    stored hash is not usable: too short, unknown prefix / version, cost out
    of range).  An account is (name, stored hash), in the order of
    [Auth.users]. *)
Inductive bc_res := BcOk | BcMismatch | BcError.
Definition bc_oracle := bytes -> bytes -> bc_res.        (* stored hash, submitted password *)

Definition bc_is_ok (r : bc_res) : bool := match r with BcOk => true | _ => false end.

(** [Auth.findUser]: the first account whose name is the submitted one and
    for which bcrypt answers nil.  [acc] says which oracle answers let an
    account through; the code is [find_user := find_user_with bc_is_ok]. *)
Fixpoint find_user_with (acc : bc_res -> bool) (bc : bc_oracle) (us : list (bytes * bytes)) (login pw : bytes)
    : option (bytes * bytes) :=
  match us with
  | [] => None
  | (n, h) :: us' =>
      if eqb_bytes n login && acc (bc h pw) then Some (n, h) else find_user_with acc bc us' login pw
  end.

Definition find_user : bc_oracle -> list (bytes * bytes) -> bytes -> bytes -> option (bytes * bytes) :=
  find_user_with bc_is_ok.

(** A finite oracle, for the cases the harness emits: (hash, password,
    answer) triples; anything else is "other error". *)
Fixpoint bc_of (t : list (bytes * bytes * bc_res)) (h p : bytes) : bc_res :=
  match t with
  | [] => BcError
  | (h', p', r) :: t' => if eqb_bytes h h' && eqb_bytes p p' then r else bc_of t' h p
  end.

(** * Environment: what the wrappers read besides the session table *)

Record env := {
  e_first_run : bool;        (* globalContext.firstRun *)
  e_auth_present : bool;     (* globalContext.auth != nil: decided at start-up, see [boot] below *)
  e_accounts : list (bytes * bytes);  (* globalContext.auth.users: name, stored hash ([] when there is no Auth) *)
  e_bcrypt : bc_oracle;      (* bcrypt.CompareHashAndPassword *)
  e_https : bool;            (* web.httpsServer.server != nil *)
  e_force_https : bool;      (* TLS.ForceHTTPS && TLS.Enabled && TLS.PortHTTPS != 0 *)
  e_now : N;                 (* clock, seconds *)
  e_ttl : N;                 (* sessionTTL *)
}.

(** [authRequired := globalContext.auth != nil && globalContext.auth.authRequired()]
    as optionalAuth computes it (GL-inet mode off: [authRequired()] is
    [len(a.users) != 0]). *)
Definition e_users (e : env) : bool := match e_accounts e with [] => false | _ => true end.   (* len(a.users) != 0 *)
Definition e_auth_required (e : env) : bool := e_auth_present e && e_users e.

Record world (A : Type) := { w_app : A; w_sess : sstate }.
Arguments w_app {A}. Arguments w_sess {A}. Arguments Build_world {A}.

Inductive answer (R : Type) :=
  | AHandler (r : R)                     (* whatever the wrapped handler answered *)
  | AStatus (code : Z)
  | ARedirect (code : Z) (loc : bytes).
Arguments AHandler {R}. Arguments AStatus {R}. Arguments ARedirect {R}.

Definition handler (A R : Type) := env -> world A -> request -> world A * answer R.

(** * Strings *)

Definition str_GET : bytes := [71; 69; 84]%N.
Definition str_POST : bytes := [80; 79; 83; 84]%N.
Definition str_PUT : bytes := [80; 85; 84]%N.
Definition str_DELETE : bytes := [68; 69; 76; 69; 84; 69]%N.
Definition str_json : bytes := [97;112;112;108;105;99;97;116;105;111;110;47;106;115;111;110]%N.
Definition str_slash : bytes := [47]%N.
Definition str_index : bytes := [47;105;110;100;101;120;46;104;116;109;108]%N.       (* /index.html *)
Definition str_login_html : bytes := [47;108;111;103;105;110;46;104;116;109;108]%N. (* /login.html *)
Definition str_login_rel : bytes := [108;111;103;105;110;46;104;116;109;108]%N.     (* login.html *)
Definition str_install_rel : bytes := [105;110;115;116;97;108;108;46;104;116;109;108]%N. (* install.html *)
Definition str_install_dot : bytes := [47;105;110;115;116;97;108;108;46]%N.          (* /install. *)
Definition str_assets : bytes := [47;97;115;115;101;116;115;47]%N.                   (* /assets/ *)
Definition str_login_dot : bytes := [47;108;111;103;105;110;46]%N.                   (* /login. *)
Definition str_https : bytes := [104;116;116;112;115]%N.                             (* stands for the https URL *)

Fixpoint strip_prefix (p s : bytes) : option bytes :=
  match p, s with
  | [], _ => Some s
  | a :: p', b :: s' => if (a =? b)%N then strip_prefix p' s' else None
  | _ :: _, [] => None
  end.

Definition has_prefix (p s : bytes) : bool :=
  match strip_prefix p s with Some _ => true | None => false end.

Definition no_slash (s : bytes) : bool := forallb (fun c => negb (c =? 47)%N) s.

(** [path.Match("/assets/*", p)] and [path.Match("/login.*", p)]: a literal
    prefix, then [*], which matches any run of characters other than [/].
    (No shared Glob library is in place yet; these are the two patterns of
    isPublicResource written out.) *)
Definition match_prefix_star (lit p : bytes) : bool :=
  match strip_prefix lit p with Some rest => no_slash rest | None => false end.

Definition is_public (p : bytes) : bool :=
  match_prefix_star str_assets p || match_prefix_star str_login_dot p.

(** * The wrappers *)

Section Wrappers.
Context {A R : Type}.
Notation H := (handler A R).

(** [handleHTTPSRedirect]: [None] = proceed. *)
Definition https_redirect (e : env) (r : request) : option (answer R) :=
  if negb (e_https e) then None
  else if negb (r_host_ok r) then Some (AStatus 400)
  else if e_force_https e && negb (r_tls r) then Some (ARedirect 307 str_https)
  else None.

(** [postInstall]. *)
Definition post_install (h : H) : H := fun e w r =>
  if e_first_run e && negb (has_prefix str_install_dot (r_path r)) && negb (has_prefix str_assets (r_path r))
  then (w, ARedirect 302 str_install_rel)
  else match https_redirect e r with
       | Some a => (w, a)
       | None => h e w r
       end.

(** [preInstall]. *)
Definition pre_install (h : H) : H := fun e w r =>
  if negb (e_first_run e) then (w, AStatus 403) else h e w r.

(** [checkSession] on the world. *)
Definition check_cookie (e : env) (w : world A) (tok : bytes) : world A * bool :=
  let '(s', res) := check_session (e_ttl e) (e_now e) tok (w_sess w) in
  ({| w_app := w_app w; w_sess := s' |}, match res with CSOK => true | _ => false end).

(** [_, isAuthenticated = globalContext.auth.findUser(user, pass)] on what
    [r.BasicAuth()] yields. *)
Definition basic_ok (e : env) (r : request) : bool :=
  match r_basic r with
  | BCred l p => match find_user (e_bcrypt e) (e_accounts e) l p with Some _ => true | None => false end
  | BNone => false
  end.

(** [optionalAuth] with [optionalAuthThird] inlined.  Neither reads the
    method nor any header besides Cookie and Authorization. *)
Definition optional_auth (h : H) : H := fun e w r =>
  let p := r_path r in
  if eqb_bytes p str_login_html then
    match r_cookie r with
    | CTok tok =>
        if e_auth_required e then
          let '(w', ok) := check_cookie e w tok in
          if ok then (w', ARedirect 302 []) else h e w' r
        else h e w r
    | CNone => h e w r
    end
  else if is_public p then h e w r
  else if e_auth_required e then
    let '(w', authed) :=
      match r_cookie r with
      | CTok tok => check_cookie e w tok
      | CNone => (w, basic_ok e r)
      end in
    if authed then h e w' r
    else if eqb_bytes p str_slash || eqb_bytes p str_index then (w', ARedirect 302 str_login_rel)
    else (w', AStatus 403)
  else h e w r.

(** [gziphandler.GzipHandler]. *)
Definition gzip (h : H) : H := h.

Definition modifies_data (m : bytes) : bool :=
  eqb_bytes m str_POST || eqb_bytes m str_PUT || eqb_bytes m str_DELETE.

(** [ensureContentType]. *)
Definition ctype_ok (r : request) : bool :=
  if r_clen r =? 0 then eqb_bytes (r_ctype r) [] else eqb_bytes (r_ctype r) str_json.

(** [ensure], with its two ingredients named (round 4).  [meq] is the
    comparison of the request's method with the declared one: the code has
    [m != method], byte-wise equality of the strings, so [eqb_bytes].  The
    wrapped handler is told whether [globalContext.controlLock] is held while
    it runs: the lock is taken exactly when [modifiesData(r.Method)], after
    [ensureContentType] has passed.  [modifiesData] looks at the method AS
    SENT, not at the declared one. *)
Definition ensure_gen (meq : bytes -> bytes -> bool) (m : bytes) (h : bool -> H) : H := fun e w r =>
  if negb (meq (r_method r) m) then (w, AStatus 405)
  else if modifies_data (r_method r) then
    if negb (ctype_ok r) then (w, AStatus 415) else h true e w r
  else h false e w r.

(** [ensure] as the other wrappers see it: the lock serialises the handlers
    and has no effect on the decision. *)
Definition ensure (m : bytes) (h : H) : H := ensure_gen eqb_bytes m (fun _ => h).

(** * Chains *)

Inductive wrapper :=
  | WPostInstall | WPreInstall | WOptionalAuth | WGzip
  | WEnsure (m : bytes)
  | WLimitBody                    (* limitRequestBody: bounds the body reader *)
  | WUnknown (name : bytes).      (* anything the translator does not recognise *)

Definition apply_wrapper (x : wrapper) (h : H) : H :=
  match x with
  | WPostInstall => post_install h
  | WPreInstall => pre_install h
  | WOptionalAuth => optional_auth h
  | WGzip => gzip h
  | WEnsure m => ensure m h
  | WLimitBody => h
  | WUnknown _ => h
  end.

(** Outermost wrapper first. *)
Definition apply_chain (ws : list wrapper) (h : H) : H := fold_right apply_wrapper h ws.

(** [httpRegister(method, url, handler)] for a non-empty method. *)
Definition http_register_chain (m : bytes) : list wrapper :=
  [WPostInstall; WOptionalAuth; WGzip; WEnsure m].

(** The same chains in front of a handler that is told whether the control
    lock is held (round 4): only [ensure] takes it. *)
Definition apply_wrapper_l (x : wrapper) (h : bool -> H) : bool -> H := fun b =>
  match x with
  | WEnsure m => ensure_gen eqb_bytes m (fun b' => h (b || b'))
  | _ => apply_wrapper x (h b)
  end.

Definition apply_chain_l (ws : list wrapper) (h : bool -> H) : bool -> H := fold_right apply_wrapper_l h ws.

End Wrappers.

(** [strings.EqualFold] restricted to ASCII letters (it folds more: U+017F,
    U+212A; a method token on the wire is ASCII).  NOT what [ensure] uses: it
    is here for the refuted variant [ensure_gen equal_fold]. *)
Definition ascii_lower (c : N) : N := if ((65 <=? c) && (c <=? 90))%N then (c + 32)%N else c.
Definition equal_fold (a b : bytes) : bool := eqb_bytes (map ascii_lower a) (map ascii_lower b).

(** * Start-up: what decides [e_auth_present]

    home.go [run]: [globalContext.auth, err = initUsers(); fatalOnError(err)],
    then [initWeb] / [web.start].  [initUsers] calls [InitAuth], which answers
    nil when bbolt cannot open data/sessions.db, and turns that nil into an
    error.  The four places where this can go wrong are read off the source by
    tools/routes ([Gen.Routes.startup]); the model takes them as parameters so
    that the theorem says what they are needed for. *)

Record boot_in := {
  b_users : bool;            (* the configuration lists at least one user *)
  b_db_opens : bool;         (* bbolt.Open(data/sessions.db) succeeds *)
}.

Record boot_code := {
  bc_nil_checked : bool;     (* initUsers: [if auth == nil { ... return ... }] directly follows [auth = InitAuth(...)] *)
  bc_fail_ret_err : bool;    (* ... and every return in that block carries an error expression that is not nil *)
  bc_run_fatal : bool;       (* run: [fatalOnError(err)] directly follows [globalContext.auth, err = initUsers()] *)
  bc_fatal_exits : bool;     (* fatalOnError: [if err != nil { log.Fatal(err) }] *)
  bc_assigns_ok : bool;      (* globalContext.auth is assigned nowhere else, except reset to nil in cleanup after web.close *)
}.

(** [InitAuth]: is the result non-nil? *)
Definition init_auth (b : boot_in) : bool := b_db_opens b.

(** [initUsers]: (auth != nil, err != nil). *)
Definition init_users (k : boot_code) (b : boot_in) : bool * bool :=
  if init_auth b then (true, false)
  else if bc_nil_checked k then (false, bc_fail_ret_err k)
  else (false, false).

Inductive boot_out :=
  | BootFatal                                   (* the process exits before any listener exists *)
  | BootServe (auth_present users : bool).      (* initWeb / web.start: requests are served with this Auth *)

Definition boot (k : boot_code) (b : boot_in) : boot_out :=
  let '(a, err) := init_users k b in
  if err && bc_run_fatal k && bc_fatal_exits k then BootFatal
  else BootServe a (a && b_users b).

Definition boot_code_ok (k : boot_code) : bool :=
  bc_nil_checked k && bc_fail_ret_err k && bc_run_fatal k && bc_fatal_exits k && bc_assigns_ok k.

(** The environment of the requests served after [boot]: everything but the
    two start-up flags is free. *)
Definition env_after (o : boot_out) (e : env) : Prop :=
  match o with
  | BootFatal => False
  | BootServe p u => e_auth_present e = p /\ e_users e = u
  end.

Definition with_boot (p u : bool) (e : env) : env :=
  {| e_first_run := e_first_run e; e_auth_present := p; e_accounts := (if u then e_accounts e else []);
     e_bcrypt := e_bcrypt e; e_https := e_https e;
     e_force_https := e_force_https e; e_now := e_now e; e_ttl := e_ttl e |}.

(** * Routes, as the translator lists them *)

Inductive route_kind :=
  | ViaRegister (m : bytes)              (* a call of a RegisterFunc value / of httpRegister *)
  | Direct (ws : list wrapper)           (* Handle / HandleFunc on a ServeMux, with the chain read off the call *)
  | Unresolved (why : bytes).            (* method or pattern not a constant, unknown idiom *)

Record route := { rt_pattern : bytes; rt_kind : route_kind; rt_mux : bytes; rt_pos : bytes }.

(** Where a RegisterFunc value comes from at a binding site. *)
Inductive bind_src := SrcHttpRegister | SrcFlow | SrcNil | SrcOther.

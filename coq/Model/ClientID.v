(** C16: executable model of ClientID extraction.

    Mirrors internal/dnsforward/clientid.go and Server.clientIDFromDNSContext
    (beforerequest.go) as they are in /repo, with netutil.ValidateHostnameLabel /
    IsImmediateSubdomain from Base/Dom.v, path.Clean from Base/PathClean.v,
    strings.ToLower (Unicode aware: UTF-8 decoding, unicode.CaseRanges, U+FFFD
    for invalid bytes) from Model/GoLower.v and net.SplitHostPort modelled
    here.  The order is the code's: the label is validated AS SENT and the
    valid label is lower-cased.  No proofs in this file. *)
From Coq Require Import List NArith Bool Arith.
From AGH Require Import Base.Run Base.Bytes Base.Dom Base.PathClean Model.GoLower.
Import ListNotations.
Local Open Scope N_scope.

Inductive proto := UDP | TCP | DNSCrypt | DoT | DoQ | DoH.

(** What the code reads from the *http.Request: URL.Path (already
    percent-decoded by net/http), TLS.ServerName if r.TLS != nil, Host.
    [d_tls_sni = None] is r.TLS == nil (plain HTTP); [Some []] is a TLS
    connection whose ClientHello carried no SNI: the two are different inputs. *)
Record doh_req := { d_path : bytes; d_tls_sni : option bytes; d_host_hdr : bytes }.

Inductive cid_err :=
  | ENoReq                       (* DoH context without an HTTP request *)
  | EPathShape                   (* first element is not "dns-query" *)
  | EPathExtra                   (* more than two elements *)
  | EPathLabel (e : label_err)   (* /dns-query/<invalid> *)
  | EHostParse                   (* Host header that net.SplitHostPort rejects *)
  | EConnType                    (* DoT/DoQ context whose connection has no TLS state *)
  | EMismatch                    (* strict check: name outside the configured one *)
  | ESniLabel (e : label_err).   (* <invalid>.<server name> *)

Inductive cid_res := CidOk (id : bytes) | CidErr (k : cid_err).

Definition dns_query : bytes := [100;110;115;45;113;117;101;114;121].  (* "dns-query" *)

(** clientIDFromClientServerName *)
Definition from_server_name (host cli : bytes) (strict : bool) : cid_res :=
  if eqb_bytes host cli then CidOk []
  else if negb (is_immediate_subdomain cli host) then
    (if strict then CidErr EMismatch else CidOk [])
  else
    let id := firstn (length cli - length host - 1) cli in
    match validate_hostname_label id with
    | Some e => CidErr (ESniLabel e)
    | None => CidOk (go_to_lower id)
    end.

(** clientIDFromDNSContextHTTPS, given URL.Path *)
Definition from_doh_path (path : bytes) : cid_res :=
  let parts := split slash (clean path) in
  let parts := match parts with [] :: r => r | _ => parts end in
  match parts with
  | [] => CidErr EPathShape
  | p0 :: r =>
      if negb (eqb_bytes p0 dns_query) then CidErr EPathShape
      else match r with
           | [] => CidOk []
           | [id] =>
               match validate_hostname_label id with
               | Some e => CidErr (EPathLabel e)
               | None => CidOk (go_to_lower id)
               end
           | _ :: _ :: _ => CidErr EPathExtra
           end
  end.

(** net.SplitHostPort *)
Definition colon : N := 58.
Definition lbr : N := 91.
Definition rbr : N := 93.

Inductive shp_res := ShpOk (host port : bytes) | ShpMissingPort | ShpOther.

Definition split_host_port (hp : bytes) : shp_res :=
  match last_index_byte colon hp with
  | None => ShpMissingPort
  | Some i =>
      match hp with
      | [] => ShpMissingPort
      | c0 :: _ =>
          if c0 =? lbr then
            match index_byte rbr hp with
            | None => ShpOther
            | Some e =>
                if Nat.eqb (e + 1) (length hp) then ShpMissingPort
                else if Nat.eqb (e + 1) i then
                  if mem lbr (skipn 1 hp) then ShpOther
                  else if mem rbr (skipn (e + 1) hp) then ShpOther
                  else ShpOk (firstn (e - 1) (skipn 1 hp)) (skipn (i + 1) hp)
                else if nth (e + 1) hp 0 =? colon then ShpOther
                else ShpMissingPort
            end
          else
            let host := firstn i hp in
            if mem colon host then ShpOther
            else if mem lbr hp then ShpOther
            else if mem rbr hp then ShpOther
            else ShpOk host (skipn (i + 1) hp)
      end
  end.

(** netutil.SplitHost: the host without the port; a missing port is fine. *)
Definition split_host (hp : bytes) : option bytes :=
  match split_host_port hp with
  | ShpOk h _ => Some h
  | ShpMissingPort => Some hp
  | ShpOther => None
  end.

(** clientServerNameFromHTTP *)
Definition server_name_from_http (r : doh_req) : cid_err + bytes :=
  match d_tls_sni r with
  | Some n => inr n
  | None =>
      match d_host_hdr r with
      | [] => inr []
      | _ :: _ =>
          match split_host (d_host_hdr r) with
          | Some h => inr h
          | None => inl EHostParse
          end
      end
  end.

(** The [fromHost] result of clientServerNameFromHTTP: the name was read from
    the Host header (never when the request has a TLS state). *)
Definition name_from_host (r : doh_req) : bool :=
  match d_tls_sni r with
  | Some _ => false
  | None =>
      match d_host_hdr r with
      | [] => false
      | _ :: _ => match split_host (d_host_hdr r) with Some _ => true | None => false end
      end
  end.

(** clientServerName.  [sni] is the server name of the TLS / QUIC connection
    state, [None] when the context's connection does not provide one. *)
Definition server_name_of (p : proto) (sni : option bytes) (h : option doh_req)
  : cid_err + bytes :=
  match p with
  | DoH => match h with Some r => server_name_from_http r | None => inl ENoReq end
  | DoT | DoQ => match sni with Some n => inr n | None => inl EConnType end
  | _ => inr []
  end.

(** The part of clientIDFromDNSContext after the protocol dispatch. *)
Definition sni_stage (p : proto) (host_srv : bytes) (strict : bool)
    (sni : option bytes) (h : option doh_req) : cid_res :=
  match host_srv with
  | [] => CidOk []
  | _ :: _ =>
      match server_name_of p sni h with
      | inl e => CidErr e
      | inr cli => from_server_name host_srv cli strict
      end
  end.

(** Server.clientIDFromDNSContext *)
Definition client_id_of (p : proto) (host_srv : bytes) (strict : bool)
    (sni : option bytes) (h : option doh_req) : cid_res :=
  match p with
  | UDP | TCP | DNSCrypt => CidOk []
  | DoH =>
      match h with
      | None => CidErr ENoReq
      | Some r =>
          match from_doh_path (d_path r) with
          | CidErr e => CidErr e
          | CidOk (c :: id) => CidOk (c :: id)
          | CidOk [] => sni_stage p host_srv strict sni h
          end
      end
  | DoT | DoQ => sni_stage p host_srv strict sni h
  end.

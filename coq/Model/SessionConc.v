(** Concurrent model of the session operations of internal/home/auth.go (C12,
    round 5).  No proofs here.

    Granularity: what the code has.  [Auth.sessions] is read and written only
    under [a.lock]; the bbolt file is written in single write transactions
    (bbolt serialises write transactions, each is atomic and, being committed
    before [storeSession] / [removeSessionFromFile] return, durable).  A lock
    section without a transaction inside is one atomic step; a section with a
    transaction inside is three steps (enter + the map accesses, the
    transaction, leave), because transactions of threads that do not hold
    [a.lock] can be ordered before or after it.

      removeSession(sp)   lock { delete(sessions, sp) } ; txn { bucket.Delete(decode sp) }
      checkSession(sp)    lock { lookup; not found -> NotFound
                                 expired -> delete(sessions, sp); txn { bucket.Delete }; Expired
                                 same day -> OK
                                 else s.expire = now+ttl; txn { bucket.Put }; OK }
      addSession(raw, s)  lock { sessions[hex raw] = s } ; txn { bucket.Put(raw, s) }
      authRequired, findUser, getCurrentUser: lock { read only }
      loadSessions        one transaction at process start (no other thread yet)

    The two orders the theorems depend on are parameters so that the variants
    can be stated and refuted: [cc_rm] (memory first, then the file: the code;
    or the file first) and [cc_store] (the daily refresh is stored inside the
    lock section that found the entry: the code; or after it).

    A thread is a request: a list of operations run one after the other; a
    [checkSession] that does not answer OK ends the request (optionalAuth
    answers 403 / redirects and the handler does not run).

      authenticated request      [ORead 0; OCheck now sp]
      GET /control/logout        [ORead 0; OCheck now sp; ORemove sp]
      handleLogout directly      [ORemove sp]
      newCookie (login)          [ORead 1; OAdd now raw user]

    Ghost fields (not in the code, never read by a step): [c_out], the cookie
    strings whose [removeSession] has returned; [c_known], the cookie strings
    that spawned requests carry. *)
From AGH Require Import Base.Run Model.Session.
From stdpp Require Import gmap.
Local Open Scope N_scope.

Inductive rm_order := MemFirst | FileFirst.
Inductive store_place := StoreLocked | StoreUnlocked.

Record ccfg := { cc_ttl : N; cc_rm : rm_order; cc_store : store_place }.

(** The code as it is. *)
Definition code_cfg (ttl : N) : ccfg := {| cc_ttl := ttl; cc_rm := MemFirst; cc_store := StoreLocked |}.

Inductive cop :=
  | ORead (tag : N)                      (* a lock section that changes nothing: 0 authRequired, 1 findUser *)
  | OCheck (now : N) (sp : bytes)        (* checkSession(sp), the clock read at its start *)
  | ORemove (sp : bytes)                 (* removeSession(sp) *)
  | OAdd (now : N) (raw user : bytes).   (* addSession(raw, {user, now + ttl}) *)

Inductive pc :=
  | PStart                               (* before the first synchronisation of the current operation *)
  | PMid                                 (* removeSession / addSession: between their two halves *)
  | PHoldPut (k : bytes) (s : sess)      (* checkSession, inside its section: the refresh store is pending *)
  | PHoldDel (k : bytes)                 (* checkSession, inside its section, expired: the file delete is pending *)
  | PHoldRel (r : cs_result)             (* checkSession, about to leave its section *)
  | PFreePut (k : bytes) (s : sess).     (* variant StoreUnlocked: section left, store pending *)

Record thread := { t_ops : list cop; t_pc : pc; t_res : list cs_result }.

Record cstate := {
  c_mem : gmap bytes sess;
  c_disk : gmap bytes sess;
  c_lock : option nat;                   (* the thread inside a section that contains a transaction *)
  c_thr : list thread;
  c_out : list bytes;                    (* ghost *)
  c_known : list bytes;                  (* ghost *)
}.

Definition mk_thread (ops : list cop) : thread := {| t_ops := ops; t_pc := PStart; t_res := [] |}.

Definition finished (t : thread) : bool := match t_ops t with [] => true | _ => false end.

(** The current operation is over, the next one starts. *)
Definition next_op (t : thread) : thread :=
  {| t_ops := tail (t_ops t); t_pc := PStart; t_res := t_res t |}.

(** [checkSession] answered [r]: the request goes on iff it is OK. *)
Definition checked (r : cs_result) (t : thread) : thread :=
  match r with
  | CSOK => {| t_ops := tail (t_ops t); t_pc := PStart; t_res := r :: t_res t |}
  | _ => {| t_ops := []; t_pc := PStart; t_res := r :: t_res t |}
  end.

Definition at_pc (p : pc) (t : thread) : thread :=
  {| t_ops := t_ops t; t_pc := p; t_res := t_res t |}.

(** What the threads share. *)
Record shared := { h_mem : gmap bytes sess; h_disk : gmap bytes sess; h_lock : option nat; h_out : list bytes }.

Definition lock_free (h : shared) : bool := match h_lock h with None => true | Some _ => false end.

Definition set_mem (m : gmap bytes sess) (h : shared) : shared :=
  {| h_mem := m; h_disk := h_disk h; h_lock := h_lock h; h_out := h_out h |}.
Definition set_disk (d : gmap bytes sess) (h : shared) : shared :=
  {| h_mem := h_mem h; h_disk := d; h_lock := h_lock h; h_out := h_out h |}.
Definition set_lock (l : option nat) (h : shared) : shared :=
  {| h_mem := h_mem h; h_disk := h_disk h; h_lock := l; h_out := h_out h |}.
Definition add_out (sp : bytes) (h : shared) : shared :=
  {| h_mem := h_mem h; h_disk := h_disk h; h_lock := h_lock h; h_out := sp :: h_out h |}.

(** One step of thread number [i]; [None]: it cannot move (finished, or it
    needs [a.lock] and another thread is inside a section). *)
Definition tstep (cfg : ccfg) (i : nat) (t : thread) (h : shared) : option (thread * shared) :=
  match t_ops t with
  | [] => None
  | ORead _ :: _ =>
      match t_pc t with
      | PStart => if lock_free h then Some (next_op t, h) else None
      | _ => None
      end
  | OCheck now sp :: _ =>
      match t_pc t with
      | PStart =>
          if lock_free h then
            let now := u32 now in
            match h_mem h !! sp with
            | None => Some (checked CSNotFound t, h)
            | Some s =>
                if s_expire s <=? now then
                  Some (at_pc (PHoldDel (hex_decode_prefix sp)) t, set_lock (Some i) (set_mem (delete sp (h_mem h)) h))
                else
                  let ne := u32 (now + cc_ttl cfg) in
                  if s_expire s / day =? ne / day then Some (checked CSOK t, h)
                  else
                    let s' := {| s_user := s_user s; s_expire := ne |} in
                    let h' := set_mem (<[sp := s']> (h_mem h)) h in
                    match cc_store cfg with
                    | StoreLocked => Some (at_pc (PHoldPut (hex_decode_prefix sp) s') t, set_lock (Some i) h')
                    | StoreUnlocked => Some (at_pc (PFreePut (hex_decode_prefix sp) s') t, h')
                    end
            end
          else None
      | PHoldPut k s => Some (at_pc (PHoldRel CSOK) t, set_disk (<[k := s]> (h_disk h)) h)
      | PHoldDel k => Some (at_pc (PHoldRel CSExpired) t, set_disk (delete k (h_disk h)) h)
      | PHoldRel r => Some (checked r t, set_lock None h)
      | PFreePut k s =>
          match cc_store cfg with
          | StoreUnlocked => Some (checked CSOK t, set_disk (<[k := s]> (h_disk h)) h)
          | StoreLocked => None
          end
      | PMid => None
      end
  | ORemove sp :: _ =>
      match cc_rm cfg, t_pc t with
      | MemFirst, PStart =>
          if lock_free h then Some (at_pc PMid t, set_mem (delete sp (h_mem h)) h) else None
      | MemFirst, PMid =>
          Some (next_op t, add_out sp (set_disk (delete (hex_decode_prefix sp) (h_disk h)) h))
      | FileFirst, PStart =>
          Some (at_pc PMid t, set_disk (delete (hex_decode_prefix sp) (h_disk h)) h)
      | FileFirst, PMid =>
          if lock_free h then Some (next_op t, add_out sp (set_mem (delete sp (h_mem h)) h)) else None
      | _, _ => None
      end
  | OAdd now raw u :: _ =>
      let s := {| s_user := u; s_expire := u32 (u32 now + cc_ttl cfg) |} in
      match t_pc t with
      | PStart =>
          if lock_free h then Some (at_pc PMid t, set_mem (<[hex_encode raw := s]> (h_mem h)) h) else None
      | PMid => Some (next_op t, set_disk (<[raw := s]> (h_disk h)) h)
      | _ => None
      end
  end.

Definition shared_of (st : cstate) : shared :=
  {| h_mem := c_mem st; h_disk := c_disk st; h_lock := c_lock st; h_out := c_out st |}.

Definition with_shared (h : shared) (thr : list thread) (st : cstate) : cstate :=
  {| c_mem := h_mem h; c_disk := h_disk h; c_lock := h_lock h; c_thr := thr; c_out := h_out h; c_known := c_known st |}.

(** Thread [i] moves. *)
Definition cstep (cfg : ccfg) (i : nat) (st : cstate) : option cstate :=
  match c_thr st !! i with
  | None => None
  | Some t =>
      match tstep cfg i t (shared_of st) with
      | None => None
      | Some (t', h') => Some (with_shared h' (<[i := t']> (c_thr st)) st)
      end
  end.

(** The cookie strings a request carries. *)
Definition op_uses (o : cop) : list bytes :=
  match o with OCheck _ sp | ORemove sp => [sp] | _ => [] end.

Definition uses (ops : list cop) : list bytes := flat_map op_uses ops.

(** A request arrives. *)
Definition cspawn (ops : list cop) (st : cstate) : cstate :=
  {| c_mem := c_mem st; c_disk := c_disk st; c_lock := c_lock st; c_thr := c_thr st ++ [mk_thread ops];
     c_out := c_out st; c_known := uses ops ++ c_known st |}.

(** The process stops wherever its threads are (committed transactions stay,
    nothing else does) and starts again: [InitAuth] -> [loadSessions]. *)
Definition crestart (now : N) (st : cstate) : cstate :=
  let d := filter (fun kv => u32 now < s_expire (snd kv)) (c_disk st) in
  {| c_mem := kmap hex_encode d; c_disk := d; c_lock := None; c_thr := [];
     c_out := c_out st; c_known := c_known st |}.

Definition sstate_of (st : cstate) : sstate := {| ss_mem := c_mem st; ss_disk := c_disk st |}.

Definition of_sstate (s : sstate) : cstate :=
  {| c_mem := ss_mem s; c_disk := ss_disk s; c_lock := None; c_thr := []; c_out := []; c_known := [] |}.

(** A schedule: thread numbers, one per step; a step that cannot be taken ends
    the run with [None]. *)
Fixpoint crun (cfg : ccfg) (sched : list nat) (st : cstate) : option cstate :=
  match sched with
  | [] => Some st
  | i :: sched' => match cstep cfg i st with Some st' => crun cfg sched' st' | None => None end
  end.

(** Where a thread is, as an observer of the process sees it: the function in
    which it waits for [a.lock] or for the write transaction. *)
Inductive label :=
  | WRead (tag : N) | WCheck | WCheckPut | WCheckDel | WRemove | WRemoveDel | WAdd | WAddPut
  | WDone
  | WHidden.                             (* between two steps that nothing separates in the code *)

Definition tlabel (cfg : ccfg) (t : thread) : label :=
  match t_ops t with
  | [] => WDone
  | ORead tag :: _ => match t_pc t with PStart => WRead tag | _ => WHidden end
  | OCheck _ _ :: _ =>
      match t_pc t with
      | PStart => WCheck
      | PHoldPut _ _ | PFreePut _ _ => WCheckPut
      | PHoldDel _ => WCheckDel
      | _ => WHidden
      end
  | ORemove _ :: _ =>
      match cc_rm cfg, t_pc t with
      | MemFirst, PStart | FileFirst, PMid => WRemove
      | MemFirst, PMid | FileFirst, PStart => WRemoveDel
      | _, _ => WHidden
      end
  | OAdd _ _ _ :: _ =>
      match t_pc t with PStart => WAdd | PMid => WAddPut | _ => WHidden end
  end.

(** Does the label name a wait for [a.lock]? *)
Definition label_needs_lock (l : label) : bool :=
  match l with WRead _ | WCheck | WRemove | WAdd => true | _ => false end.

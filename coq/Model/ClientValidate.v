(** Model of the checks of [client.Persistent.validate] that decide whether an
    add / update is accepted beyond name / identifiers / uid (C04):

    - [proxy.ParseUpstreamsConfig] (dnsproxy v0.75.3, proxy/upstreams.go:
      parse, parseLine, splitConfigLine) as far as it decides err == nil:
      comment and empty lines, plain lines, [[/d1/d2/]u1 u2] lines with
      [netutil.ValidateDomainName] on every domain, the [#] exclusion form;
      the leaf [upstream.AddressToUpstream u] succeeding is the oracle
      [addr_ok] (the harness asks the real function for every token);
    - the index-out-of-range panic of parseLine on [[/d/]] followed by white
      space only ([strings.Fields] gives the empty slice, [upstreams[0]] is
      evaluated): outcome [LPanic];
    - the allowed-tags test.

    Byte strings; ASCII only ([strings.Fields] splits on Unicode white space
    and ValidateDomainName starts with idna.ToASCII: on ASCII input without
    [xn--] labels both agree with what is written here; the generator stays
    inside that).  No proofs here. *)
From Coq Require Import List NArith Bool.
From AGH Require Import Base.Run Base.Bytes Base.Dom.
Import ListNotations.
Local Open Scope N_scope.

(** unicode.IsSpace on ASCII: '\t' '\n' '\v' '\f' '\r' ' ' *)
Definition is_space (b : N) : bool := (b =? 32) || ((9 <=? b) && (b <=? 13)).

(** strings.Fields; [cur] is the field being read, reversed. *)
Fixpoint fields_aux (cur : bytes) (s : bytes) : list bytes :=
  match s with
  | [] => match cur with [] => [] | _ => [rev cur] end
  | b :: s' =>
      if is_space b then
        match cur with [] => fields_aux [] s' | _ => rev cur :: fields_aux [] s' end
      else fields_aux (b :: cur) s'
  end.
Definition fields (s : bytes) : list bytes := fields_aux [] s.

(** strings.Cut on a two-byte separator. *)
Fixpoint cut2 (a b : N) (s : bytes) : option (bytes * bytes) :=
  match s with
  | [] => None
  | x :: s' =>
      match s' with
      | [] => None
      | y :: s'' =>
          if (x =? a) && (y =? b) then Some ([], s'')
          else match cut2 a b s' with
               | Some (p, q) => Some (x :: p, q)
               | None => None
               end
      end
  end.

Definition trim_prefix (p s : bytes) : bytes :=
  if has_prefix p s then skipn (length p) s else s.

Definition len_le (l : bytes) (n : nat) : bool := Nat.leb (length l) n.
Definition nonempty (l : bytes) : bool := negb (Nat.eqb (length l) 0).

(** netutil.ValidateDomainNameLabel *)
Definition domain_label_ok (l : bytes) : bool := nonempty l && len_le l 63.
(** netutil.ValidateTLDLabel *)
Definition tld_ok (l : bytes) : bool :=
  match validate_hostname_label l with
  | None => existsb (fun b => negb (is_digit b)) l
  | Some _ => false
  end.
(** netutil.ValidateDomainName (ASCII input) *)
Definition domain_name_ok (name : bytes) : bool :=
  nonempty name && len_le name 253 &&
  let ls := split dot name in
  forallb domain_label_ok (removelast ls) && tld_ok (last ls []).

Definition star_dot : bytes := [42; 46].
(** One domain of a [[/.../]] specification: empty = unqualified names. *)
Definition spec_domain_ok (h : bytes) : bool :=
  match h with
  | [] => true
  | _ => domain_name_ok (trim_prefix star_dot h)
  end.

Inductive lres := LOk | LErr | LPanic.

Definition hash : N := 35.
Definition slash : N := 47.
Definition lbrack : N := 91.
Definition rbrack : N := 93.

(** configParser.parseLine *)
Definition parse_line (addr_ok : bytes -> bool) (l : bytes) : lres :=
  match l with
  | [] => LOk
  | c :: _ =>
      if c =? hash then LOk
      else if negb (has_prefix [lbrack; slash] l) then (if addr_ok l then LOk else LErr)
      else
        match cut2 slash rbrack (skipn 2 l) with
        | None => LErr
        | Some (doms, ups) =>
            match ups with
            | [] => LErr
            | _ =>
                if negb (forallb spec_domain_ok (split slash doms)) then LErr
                else
                  match fields ups with
                  | [] => LPanic                       (* upstreams[0] on an empty slice *)
                  | u0 :: us =>
                      if eqb_bytes u0 [hash] then LOk  (* exclusion; the rest is ignored *)
                      else if forallb addr_ok (u0 :: us) then LOk else LErr
                  end
            end
        end
  end.

(** configParser.parse: every line is parsed (errors are collected, not
    returned at once), so a panicking line panics whatever came before. *)
Definition parse_upstreams (addr_ok : bytes -> bool) (lines : list bytes) : lres :=
  let rs := map (parse_line addr_ok) lines in
  if existsb (fun r => match r with LPanic => true | _ => false end) rs then LPanic
  else if existsb (fun r => match r with LErr => true | _ => false end) rs then LErr
  else LOk.

(** slices.BinarySearch on the storage's sorted tag list = membership. *)
Definition tag_ok (allowed : list bytes) (t : bytes) : bool := existsb (eqb_bytes t) allowed.

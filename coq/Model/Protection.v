(** The protection switch with its timed pause (dnsforward/http.go
    handleSetProtection, setConfig; dnsforward/config.go
    UpdatedProtectionStatus, enableProtectionAfterPause; filtering/filtering.go
    SetProtectionStatus, SetProtectionEnabled, ProtectionStatus), as the Go
    code is NOW (/repo c1dbdb6).

    State: the pair filtering.Config keeps (ProtectionEnabled,
    ProtectionDisabledUntil) and the flag protectionUpdateInProgress of the
    server.  The clock is an input: every operation that reads time.Now()
    carries the instant (milliseconds, any origin).

      POST /control/protection {"enabled":e,"duration":d}   [PSet now e d]
          d > 0 and e        : 400, nothing changes
          d > 0 and not e    : SetProtectionStatus(false, now + d)
          d = 0              : SetProtectionStatus(e, nil)
      POST /control/dns_config {"protection_enabled":e}      [PConf e]
          SetProtectionStatus(e, nil)        (SetProtectionEnabled(e) before 8ae46d5)
      UpdatedProtectionStatus() at the instant now            [PRead now]
          no deadline        : the flag
          now before deadline: off
          otherwise          : on, and (unless one is under way already) the
                               goroutine enableProtectionAfterPause is started
      enableProtectionAfterPause gets the server lock at now  [PWake now]
          if a deadline is (still) set and now is not before it:
          SetProtectionStatus(true, nil); else nothing (the pause has been
          cancelled or replaced meanwhile; before c1dbdb6 the goroutine did
          not look again); protectionUpdateInProgress := false

    Every DNS request reads the state once (process.go: dctx.protectionEnabled,
    _ = s.UpdatedProtectionStatus()), so a query at the instant [now] is a
    [PRead now] whose result is the [protection] input of Model/Pipeline.v.

    The handlers and the goroutine are parameters of the run ([set_policy],
    [conf_policy], [wake_policy]) so that the variants that were seeded /
    repaired can be stated next to the code.  No proofs here. *)
From Coq Require Import List ZArith Bool.
From AGH Require Import Base.Run Base.NetAddr Model.Pipeline.
Import ListNotations.
Local Open Scope Z_scope.

Record prot := mkProt {
  pr_flag : bool;            (* conf.ProtectionEnabled *)
  pr_until : option Z;       (* conf.ProtectionDisabledUntil *)
  pr_waking : bool           (* Server.protectionUpdateInProgress *)
}.

(** DNSFilter.SetProtectionStatus *)
Definition set_status (en : bool) (du : option Z) (s : prot) : prot := mkProt en du (pr_waking s).
(** DNSFilter.SetProtectionEnabled *)
Definition set_flag (en : bool) (s : prot) : prot := mkProt en (pr_until s) (pr_waking s).

(** What a handler does with an accepted request. *)
Definition set_policy := Z -> bool -> Z -> prot -> prot.
Definition conf_policy := bool -> prot -> prot.
Definition wake_policy := Z -> prot -> prot.

(** handleSetProtection after the request has been accepted, as it is. *)
Definition set_as_written : set_policy :=
  fun now en dur s => if 0 <? dur then set_status false (Some (now + dur)) s else set_status en None s.

(** The variant that was seeded (C02-J): a request without a duration only
    stores the flag. *)
Definition set_keeps_deadline : set_policy :=
  fun now en dur s => if 0 <? dur then set_status false (Some (now + dur)) s else set_flag en s.

(** setConfig's protection_enabled member, as it is (8ae46d5) ... *)
Definition conf_as_written : conf_policy := fun en s => set_status en None s.
(** ... and as it was before. *)
Definition conf_flag_only : conf_policy := fun en s => set_flag en s.

(** "Setting a duration is only allowed with protection disabling" *)
Definition set_accepted (en : bool) (dur : Z) : bool := negb ((0 <? dur) && en).

Inductive pop :=
  | PSet (now : Z) (enabled : bool) (dur : Z)   (* dur = 0: no duration given; the JSON member is a uint *)
  | PConf (enabled : bool)
  | PRead (now : Z)
  | PWake (now : Z).

(** UpdatedProtectionStatus *)
Definition read (now : Z) (s : prot) : bool * prot :=
  match pr_until s with
  | None => (pr_flag s, s)
  | Some d => if now <? d then (false, s) else (true, mkProt (pr_flag s) (pr_until s) true)
  end.

Definition in_force (now : Z) (s : prot) : bool := fst (read now s).

(** enableProtectionAfterPause, once it holds the lock, as it is (c1dbdb6): it
    looks at the pair again. *)
Definition wake_as_written : wake_policy :=
  fun now s =>
    if pr_waking s then
      match pr_until s with
      | Some d => if now <? d then mkProt (pr_flag s) (pr_until s) false else mkProt true None false
      | None => mkProt (pr_flag s) None false
      end
    else s.

(** ... and as it was before: whatever the pair holds by now. *)
Definition wake_unconditional : wake_policy :=
  fun _ s => if pr_waking s then mkProt true None false else s.

Section Run.
  Variable on_set : set_policy.
  Variable on_conf : conf_policy.
  Variable on_wake : wake_policy.

  Definition prot_step (s : prot) (o : pop) : prot :=
    match o with
    | PSet now en dur => if set_accepted en dur then on_set now en dur s else s
    | PConf en => on_conf en s
    | PRead now => snd (read now s)
    | PWake now => on_wake now s
    end.

  Definition prot_run (s : prot) (h : list pop) : prot := fold_left prot_step h s.
End Run.

(** The server as it is. *)
Definition step_now := prot_step set_as_written conf_as_written wake_as_written.
Definition run_now := prot_run set_as_written conf_as_written wake_as_written.

(** The pipeline reads the state once per request: the configuration the
    request sees.  [c_prot_deadline] of Model/Pipeline.v says whether a
    deadline is set and still ahead. *)
Definition cfg_at (c : cfg) (s : prot) (now : Z) : cfg :=
  mkCfg (pr_flag s) (option_map (fun d => now <? d) (pr_until s))
        (c_filtering c) (c_safebrowsing c) (c_parental c) (c_mode c) (c_ip4 c) (c_ip6 c) (c_ttl c)
        (c_aaaa_disabled c) (c_services c) (c_services_paused c) (c_service_table c) (c_sb_host c) (c_par_host c)
        (c_rewrites c) (c_hosts_on c) (c_hosts_byname c) (c_hosts_byaddr c) (c_arpa c) (c_safesearch c)
        (c_ddr c) (c_dhcp_on c) (c_local_suffix c) (c_dhcp_hosts c) (c_dhcp_addrs c) (c_dns64 c).

(** The state a server starts with: the configuration file's pair. *)
Definition prot_init (flag : bool) (until : option Z) : prot := mkProt flag until false.

(** * The blocking configuration at run time (dnsforward/http.go setConfig:
    blocking_mode with blocking_ipv4 / blocking_ipv6, blocked_response_ttl;
    filtering/filtering.go SetBlockingMode, SetBlockedResponseTTL), as the code
    is now: a dns_config call that carries a mode always calls SetBlockingMode,
    which stores the mode and, for custom_ip, the two addresses. *)
Inductive bop :=
  | BMode (m : bmode) (v4 v6 : addr)     (* dns_config with blocking_mode (validated: custom_ip comes with both addresses) *)
  | BTTL (ttl : N).                      (* dns_config with blocked_response_ttl *)

Definition with_blocking (c : cfg) (m : bmode) (v4 v6 : addr) (ttl : N) : cfg :=
  mkCfg (c_prot_enabled c) (c_prot_deadline c)
        (c_filtering c) (c_safebrowsing c) (c_parental c) m v4 v6 ttl
        (c_aaaa_disabled c) (c_services c) (c_services_paused c) (c_service_table c) (c_sb_host c) (c_par_host c)
        (c_rewrites c) (c_hosts_on c) (c_hosts_byname c) (c_hosts_byaddr c) (c_arpa c) (c_safesearch c)
        (c_ddr c) (c_dhcp_on c) (c_local_suffix c) (c_dhcp_hosts c) (c_dhcp_addrs c) (c_dns64 c).

Definition is_custom (m : bmode) : bool := match m with MCustomIP => true | _ => false end.
Definition bmode_same (a b : bmode) : bool :=
  match a, b with
  | MDefault, MDefault | MNullIP, MNullIP | MCustomIP, MCustomIP | MNXDomain, MNXDomain | MRefused, MRefused => true
  | _, _ => false
  end.

(** DNSFilter.SetBlockingMode *)
Definition set_blocking (c : cfg) (m : bmode) (v4 v6 : addr) : cfg :=
  if is_custom m then with_blocking c m v4 v6 (c_ttl c) else with_blocking c m (c_ip4 c) (c_ip6 c) (c_ttl c).

(** Whether setConfig passes a requested mode on to the filter. *)
Definition mode_policy := bmode -> bmode -> bool.    (* current, requested *)
Definition mode_always : mode_policy := fun _ _ => true.
(** the variant that was seeded (C01-P): only when the mode differs *)
Definition mode_only_when_changed : mode_policy := fun cur req => negb (bmode_same cur req).

Definition bstep (mp : mode_policy) (c : cfg) (o : bop) : cfg :=
  match o with
  | BMode m v4 v6 => if mp (c_mode c) m then set_blocking c m v4 v6 else c
  | BTTL t => with_blocking c (c_mode c) (c_ip4 c) (c_ip6 c) t
  end.
Definition brun (mp : mode_policy) (c : cfg) (h : list bop) : cfg := fold_left (bstep mp) h c.
Definition brun_now := brun mode_always.

(** C07 model: the periodic rotation check (internal/querylog/querylogfile.go
    checkAndRotate, run at start-up and hourly by periodicRotate).

    It reads the time of the first record of querylog.json, returns when that
    time plus the rotation interval is still ahead, and otherwise renames the
    file to querylog.json.1.  Decision and rename are two steps: neither
    fileFlushLock nor fileWriteLock is held, so a DNS request may record
    ([add], [add_async]) and the goroutine it spawned may flush ([flush])
    between them.

    [missing_is_old] = true is the code as it is: a missing file
    (os.ErrNotExist) is let through with a zero first time, i.e. counts as
    infinitely old, and the rename is attempted.  [false] is the behaviour with
    the early return of notes/fix-drafts/19-C07-rotate-missing-file.patch.

    No proofs in this file. *)
From Coq Require Import ZArith NArith List Bool.
From AGH Require Import Base.Run Model.QLogFile Model.QLog.
Import ListNotations.
Local Open Scope Z_scope.

(** readFileFirstTimeValue: no file / unreadable (empty file: EOF) / time. *)
Inductive first_rec := FMissing | FUnreadable | FTime (t : Z).

Definition first_time (s : state) : first_rec :=
  match cur s with
  | None => FMissing
  | Some [] => FUnreadable
  | Some (e :: _) => FTime (e_time e)
  end.

(** The decision: rotate unless [oldest + ivl] is after [now]. *)
Definition due (missing_is_old : bool) (ivl now : Z) (s : state) : bool :=
  match first_time s with
  | FMissing => missing_is_old
  | FUnreadable => false                 (* error logged, return *)
  | FTime t => negb (now <? t + ivl)     (* rotTime.After(now) -> "not rotating" *)
  end.

(** The check in progress: [decided] = Some (ivl, now) between a decision to
    rotate and the rename. *)
Record rstate := { rs : state; decided : option (Z * Z) }.

Inductive rop :=
  | RPlain (o : op)              (* anything else the program does *)
  | RCheck (ivl now : Z)         (* first half: read and decide *)
  | RRename.                     (* second half: l.rotate *)

Definition rstep (m : bool) (s : rstate) (o : rop) : rstate :=
  match o with
  | RPlain o => {| rs := step (rs s) o; decided := decided s |}
  | RCheck ivl now => {| rs := rs s; decided := if due m ivl now (rs s) then Some (ivl, now) else None |}
  | RRename => {| rs := match decided s with Some _ => rotate (rs s) | None => rs s end; decided := None |}
  end.

Definition rrun (m : bool) (s : state) (ops : list rop) : rstate :=
  fold_left (rstep m) ops {| rs := s; decided := None |}.

(** checkAndRotate without anything in between (what the harness can drive). *)
Definition check_and_rotate (m : bool) (ivl now : Z) (s : state) : state :=
  rs (rrun m s [RCheck ivl now; RRename]).

(** What the DNS path does between the two halves. *)
Definition dns_op (o : op) : bool :=
  match o with OAdd _ | OAddAsync _ | OFlush => true | _ => false end.

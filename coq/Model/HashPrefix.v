(** Model of internal/filtering/hashprefix/{hashprefix.go,cache.go} (C19).
    No proofs here.

    A host name, a hash, a 2-byte prefix and a TXT string are byte strings.
    SHA-256 and the public-suffix lookup are section variables: the theorems
    hold for every such function, the evaluator instantiates them with the
    tables the harness recorded from crypto/sha256 and x/net/publicsuffix.
    The lookup service is a function from the asked prefixes to TXT strings
    (or a failure).  Time is [Z] nanoseconds; stored expiries are whole
    seconds as in [fromCacheItem].  The golibs LRU cache is an association
    list; which entries it evicts is not computed but given: every [Set] of a
    check comes with the entries it evicted (and whether it stored the item),
    and a history may also remove any entries between two checks. *)
From Coq Require Import ZArith NArith List Bool.
From AGH Require Import Base.Run Base.Bytes.
Import ListNotations.

Definition hash := bytes.
Definition prefix := bytes.
Definition dot : N := 46%N.
Definition prefix_len : nat := 2.
Definition hex_size : nat := 64.

Definition prefix_of (h : hash) : prefix := firstn prefix_len h.

(** [slices.Contains] inside a loop over [a]. *)
Definition mem_hash (h : hash) (l : list hash) : bool := existsb (eqb_bytes h) l.
Definition find_match (a b : list hash) : bool := existsb (fun h => mem_hash h b) a.

(** ** encoding/hex *)
Definition hex_digit (n : N) : N := (if n <? 10 then 48 + n else 87 + n)%N.
Definition hex_of (bs : bytes) : bytes :=
  flat_map (fun b => [hex_digit (b / 16); hex_digit (b mod 16)]%N) bs.

Definition unhex (c : N) : option N :=
  (if (48 <=? c) && (c <=? 57) then Some (c - 48)
   else if (97 <=? c) && (c <=? 102) then Some (c - 87)
   else if (65 <=? c) && (c <=? 70) then Some (c - 55)
   else None)%N.

(** [hex.DecodeString]: odd length or a non-hex byte is an error. *)
Fixpoint decode_hex (s : bytes) : option bytes :=
  match s with
  | [] => Some []
  | [_] => None
  | a :: b :: r =>
      match unhex a, unhex b, decode_hex r with
      | Some x, Some y, Some t => Some ((16 * x + y)%N :: t)
      | _, _, _ => None
      end
  end.

(** [appendHashesFromTXT] over all TXT strings of the answer, in order. *)
Definition parse_txt (strs : list bytes) : list hash :=
  flat_map (fun t =>
    if Nat.eqb (length t) hex_size
    then match decode_hex t with Some h => [h] | None => [] end
    else []) strs.

(** ** Sub-domain enumeration *)

(** [strings.LastIndexFunc] counting dots from the end and [host[i+1:]]:
    [r] is the reversed host, [acc] what has been passed so far. *)
Fixpoint last_labels (r : bytes) (nd : nat) (acc : bytes) : bytes :=
  match r with
  | [] => acc
  | b :: r' =>
      if (b =? dot)%N
      then if Nat.eqb (S nd) 4 then acc else last_labels r' (S nd) (b :: acc)
      else last_labels r' nd (b :: acc)
  end.
Definition trim_host (host : bytes) : bytes := last_labels (rev host) 0 [].

(** [netutil.Subdomains]. *)
Fixpoint subdomains_from (d : bytes) : list bytes :=
  match d with
  | [] => []
  | b :: d' => if (b =? dot)%N then d' :: subdomains_from d' else subdomains_from d'
  end.
Definition subdomains (d : bytes) : list bytes :=
  match d with [] => [] | _ => d :: subdomains_from d end.

(** The loop with [break] at the public suffix. *)
Fixpoint take_until_eq (ps : bytes) (l : list bytes) : list bytes :=
  match l with
  | [] => []
  | s :: l' => if eqb_bytes s ps then [] else s :: take_until_eq ps l'
  end.

(** ** The cache *)
Record citem := { c_expiry : Z (* seconds *); c_hashes : list hash }.
Definition cache := list (prefix * citem).

Definition cget (p : prefix) (c : cache) : option citem :=
  match find (fun e => eqb_bytes (fst e) p) c with
  | Some e => Some (snd e)
  | None => None
  end.
Definition cdel (p : prefix) (c : cache) : cache :=
  filter (fun e => negb (eqb_bytes (fst e) p)) c.
Definition cset (p : prefix) (it : citem) (c : cache) : cache := (p, it) :: cdel p c.

Definition ns_sec : Z := 1000000000.
(** [now.After(item.expiry)] *)
Definition expired (now : Z) (it : citem) : bool := (now >? c_expiry it * ns_sec)%Z.

Inductive find_res :=
  | FoundBlocked
  | FoundClean
  | ToRequest (hs : list hash).

(** [l[i] = x] *)
Fixpoint upd {A} (i : nat) (x : A) (l : list A) : list A :=
  match l, i with
  | [], _ => []
  | _ :: l', O => x :: l'
  | a :: l', S i' => a :: upd i' x l'
  end.

(** [findInCache]: [arr] is the caller's slice, compacted in place while it is
    ranged over ([n] iterations left, the next one reads [arr[idx]]); the
    match test sees the partly compacted slice. *)
Fixpoint fic_loop (now : Z) (c : cache) (n idx : nat) (arr : list hash) (i : nat) : find_res :=
  match n with
  | O => if Nat.eqb i 0 then FoundClean else ToRequest (firstn i arr)
  | S n' =>
      let h := nth idx arr [] in
      match cget (prefix_of h) c with
      | None => fic_loop now c n' (S idx) (upd i h arr) (S i)
      | Some it =>
          if expired now it then fic_loop now c n' (S idx) (upd i h arr) (S i)
          else if find_match arr (c_hashes it) then FoundBlocked
          else fic_loop now c n' (S idx) arr i
      end
  end.
Definition find_in_cache (now : Z) (c : cache) (hashes : list hash) : find_res :=
  fic_loop now c (length hashes) 0 hashes 0.

(** Keys of the Go map [hashToStore]. *)
Fixpoint dedup (l : list bytes) : list bytes :=
  match l with
  | [] => []
  | x :: r => x :: filter (fun y => negb (eqb_bytes y x)) (dedup r)
  end.

(** One [cache.Set] of the golibs LRU cache, as the harness observes it: the
    entries the cache evicted to make room (any entries: the model does not
    follow the LRU order) and whether the new item was stored at all (an item
    larger than the cache is dropped). *)
Definition set_ev := (list prefix * bool)%type.

Definition cset_o (e : set_ev) (p : prefix) (it : citem) (c : cache) : cache :=
  let c1 := fold_left (fun c q => cdel q c) (fst e) c in
  if snd e then cset p it c1 else c1.

(** The next [Set] of a check takes the next event; none left = nothing
    evicted, item stored. *)
Definition pop (evs : list set_ev) : set_ev * list set_ev :=
  match evs with
  | [] => (([], true), [])
  | e :: r => (e, r)
  end.

(** [storeInCache], first loop over the Go map [hashToStore]: [ps] is the
    order in which the map was ranged over. *)
Fixpoint store_pos (exp : Z) (resp : list hash) (ps : list prefix) (evs : list set_ev)
    (c : cache) : cache * list set_ev :=
  match ps with
  | [] => (c, evs)
  | p :: r =>
      let '(e, evs') := pop evs in
      store_pos exp resp r evs'
        (cset_o e p {| c_expiry := exp;
                       c_hashes := filter (fun h => eqb_bytes (prefix_of h) p) resp |} c)
  end.

(** Second loop: an empty entry for every requested prefix that has neither
    an entry in the cache nor hashes in the answer ([keys] = the map's keys). *)
Fixpoint store_neg (exp : Z) (keys : list prefix) (to_req : list hash) (evs : list set_ev)
    (c : cache) : cache * list set_ev :=
  match to_req with
  | [] => (c, evs)
  | h :: r =>
      let p := prefix_of h in
      match cget p c with
      | None =>
          if mem_hash p keys then store_neg exp keys r evs c
          else let '(e, evs') := pop evs in
               store_neg exp keys r evs' (cset_o e p {| c_expiry := exp; c_hashes := [] |} c)
      | Some _ => store_neg exp keys r evs c
      end
  end.

(** [storeInCache]; [exp] is the expiry [setCache] computes, [order] the
    iteration order of the map (entries that are not keys are ignored), [evs]
    what each [Set] did.  Returns the events not consumed as well. *)
Definition store_in_cache (exp : Z) (to_req resp : list hash) (order : list prefix)
    (evs : list set_ev) (c : cache) : cache * list set_ev :=
  let keys := dedup (map prefix_of resp) in
  let '(c1, evs1) := store_pos exp resp (filter (fun p => mem_hash p keys) order) evs c in
  store_neg exp keys to_req evs1 c1.

(** [getQuestion] *)
Definition question (suffix : bytes) (hs : list hash) : bytes :=
  flat_map (fun h => hex_of (prefix_of h) ++ [dot]) hs ++ suffix.

Record check_out := {
  o_blocked : bool;
  o_err : bool;
  o_question : option bytes;     (* the question sent upstream, if any *)
  o_sets_left : nat;             (* given [Set] events the check did not consume *)
}.

(** One step of a history sharing a cache. *)
Inductive op :=
  | OCheck (host : bytes) (svc : list prefix -> option (list bytes))
           (order : list prefix) (evs : list set_ev)   (* map order and cache evictions of this check *)
  | OAdvance (d : Z)                (* nanoseconds *)
  | OEvict (ps : list prefix).

Section HashPrefix.
  Variable sha : bytes -> hash.
  Variable pubsuf : bytes -> bytes * bool.     (* publicsuffix.PublicSuffix *)
  Variable suffix : bytes.                     (* Config.TXTSuffix *)
  Variable cache_time : Z.                     (* ns *)

  Definition names_to_hash (host : bytes) : list bytes :=
    let '(ps, icann) := pubsuf host in
    let ps := if icann then ps else [] in
    take_until_eq ps (subdomains (trim_host host)).

  Definition hostname_to_hashes (host : bytes) : list hash := map sha (names_to_hash host).

  (** [Checker.Check] at instant [now]. *)
  Definition check (svc : list prefix -> option (list bytes)) (order : list prefix)
      (evs : list set_ev) (now : Z) (host : bytes) (c : cache) : cache * check_out :=
    let hashes := hostname_to_hashes host in
    match find_in_cache now c hashes with
    | FoundBlocked => (c, {| o_blocked := true; o_err := false; o_question := None;
                             o_sets_left := length evs |})
    | FoundClean => (c, {| o_blocked := false; o_err := false; o_question := None;
                           o_sets_left := length evs |})
    | ToRequest hs =>
        let q := question suffix hs in
        match svc (map prefix_of hs) with
        | None => (c, {| o_blocked := false; o_err := true; o_question := Some q;
                         o_sets_left := length evs |})
        | Some strs =>
            let received := parse_txt strs in
            let matched := find_match hs received in
            let '(c', rest) :=
              store_in_cache ((now + cache_time) / ns_sec)%Z hs received order evs c in
            (c', {| o_blocked := matched; o_err := false; o_question := Some q;
                    o_sets_left := length rest |})
        end
    end.

  Definition step (o : op) (st : Z * cache) : (Z * cache) * option check_out :=
    let '(now, c) := st in
    match o with
    | OCheck host svc order evs =>
        let '(c', out) := check svc order evs now host c in ((now, c'), Some out)
    | OAdvance d => ((now + d)%Z, c, None)
    | OEvict ps => ((now, fold_left (fun c p => cdel p c) ps c), None)
    end.

  (** Runs a history; one entry per operation. *)
  Fixpoint run (ops : list op) (st : Z * cache) : list ((Z * cache) * option check_out) :=
    match ops with
    | [] => []
    | o :: r => let res := step o st in res :: run r (fst res)
    end.
End HashPrefix.

(** A lookup service holding the database [db] of full hashes: answers with
    every hash whose prefix was asked (hex, one per TXT string). *)
Definition db_service (db : list hash) (asked : list prefix) : option (list bytes) :=
  Some (map hex_of (filter (fun h => mem_hash (prefix_of h) asked) db)).

(** ** The caller: [DNSFilter.CheckHost] lower-cases the name of the request
    before the safe-browsing and the parental-control checker see it, whether
    or not rule-list filtering is enabled for the request. *)
Definition caller_name (host : bytes) : bytes := lower host.

Definition check_host (sha : bytes -> hash) (pubsuf : bytes -> bytes * bool) (suffix : bytes)
    (cache_time : Z) (svc : list prefix -> option (list bytes)) (order : list prefix)
    (evs : list set_ev) (now : Z) (spelled : bytes) (c : cache) : cache * check_out :=
  check sha pubsuf suffix cache_time svc order evs now (caller_name spelled) c.

(** C14, program-level supplement: the table of calls that create, truncate,
    write, rename or remove a path in the non-test, linux-built files of the
    packages owning the three kinds of file, plus the lease database of
    dhcpsvc, the configuration manager of the next API and the updater
    (generated into Gen/Writers.v by tools/c14writers, go/ast) is judged by [writer_ok]: a row is fine when it is
    a rename-based writer (renameio / renameio/maybe / aghrenameio and the
    methods of their pending file), an explicitly listed exception that DOES
    concern one of the three kinds, or explicitly listed as concerning some
    other file.  Everything else, in particular anything the scanner could not
    resolve, fails.  Each listed entry also bounds how many such calls its
    function may contain, so a second os.Remove slipped into a function that
    already has an excused one is noticed.  No proofs here. *)
From Coq Require Import List String NArith Bool.
Import ListNotations.
Local Open Scope string_scope.

Inductive wkind :=
  | KRenameio        (* function of renameio, renameio/maybe or aghrenameio *)
  | KPendingMethod   (* CloseAtomicallyReplace / CloseReplace / Cleanup of a pending file *)
  | KWriteFile       (* os.WriteFile, ioutil.WriteFile *)
  | KCreate          (* os.Create, os.CreateTemp, ioutil.TempFile *)
  | KOpenWrite       (* os.OpenFile with a write/create/truncate/append or non-literal flag *)
  | KRename          (* os.Rename *)
  | KRemove          (* os.Remove, os.RemoveAll *)
  | KTruncate        (* os.Truncate, File.Truncate *)
  | KMkdir           (* os.Mkdir, MkdirAll, MkdirTemp, ioutil.TempDir *)
  | KOther           (* os.Link, os.Symlink, os.CopyFS, os.NewFile, os.OpenRoot, bbolt.Open, a lumberjack.Logger literal *)
  | KRawSyscall      (* syscall.* / unix.*: open, write, truncate, rename, link, unlink ... and Syscall* itself *)
  | KHandRolled      (* a function that opens a file for writing and renames: a home-made atomic writer *)
  | KUnresolved.     (* missing package, parse error, dot import *)

Record wcall := mkw { w_file : string; w_func : string; w_callee : string; w_kind : wkind; w_line : N }.

Definition rename_based (w : wcall) : bool :=
  match w_kind w with KRenameio | KPendingMethod => true | _ => false end.

(** (file, enclosing function, callee, max. number of such calls, reason) *)
Definition entry := (string * string * string * N * string)%type.

(** Exceptions that concern the configuration file, the lease database or a
    filter-list file.  None of them writes content. *)
Definition exceptions : list entry := [
  ("internal/filtering/filter.go", "refreshFiltersIntl", "os.Remove", 1%N,
   "removes the <id>.txt.old of a list that was just refreshed (left by handleFilteringRemoveURL or by old versions); never the list file itself");
  ("internal/filtering/filter.go", "filterSetProperties", "os.Remove", 1%N,
   "the user re-enabled a list or changed its URL and the download, which succeeded, has no rules: the <id>.txt stored for the previous source is deleted on purpose so that its rules do not come back; one unlink after the new (empty) contents are known, content untouched, an absent file is the valid empty list for load");
  ("internal/filtering/http.go", "handleFilteringRemoveURL", "os.Rename", 1%N,
   "the user deletes a list: its file is renamed to <id>.txt.old after the list was found under filtersMu and before it is dropped from the configuration; one atomic rename, content untouched, the path is meant to disappear");
  ("internal/dhcpd/http_unix.go", "handleReset", "os.Remove", 1%N,
   "DHCP reset requested by the user: the servers are stopped, then leases.json is deleted on purpose; an absent file is the valid empty table for dbLoad");
  ("internal/dhcpd/migrate.go", "migrateDB", "os.Remove", 1%N,
   "deletes the legacy leases.db only after leases.json has been written through writeDB (rename-based)");
  ("internal/configmigrate/v1.go", "migrateTo1", "os.Remove", 1%N,
   "schema 0->1 deletes dnsfilter.txt, which is no longer used; the configuration file is not touched");
  ("internal/configmigrate/v2.go", "migrateTo2", "os.Remove", 1%N,
   "schema 1->2 deletes Corefile, which is no longer used; the configuration file is not touched")
].

(** Calls that concern other files. *)
Definition other_files : list entry := [
  ("internal/home/auth.go", "InitAuth", "bbolt.Open", 1%N,
   "sessions.db, a bbolt database with its own copy-on-write commit protocol");
  ("internal/home/controlinstall.go", "disableDNSStubListener", "os.MkdirAll", 1%N,
   "/etc/systemd/resolved.conf.d during first-run installation");
  ("internal/home/controlinstall.go", "disableDNSStubListener", "os.WriteFile", 1%N,
   "/etc/systemd/resolved.conf.d/adguardhome.conf, a new drop-in for systemd-resolved");
  ("internal/home/controlinstall.go", "disableDNSStubListener", "os.Rename", 1%N,
   "/etc/resolv.conf to /etc/resolv.conf.backup");
  ("internal/home/controlinstall.go", "disableDNSStubListener", "os.Symlink", 1%N,
   "/etc/resolv.conf symlink to systemd's file");
  ("internal/home/controlinstall.go", "disableDNSStubListener", "os.Remove", 1%N,
   "removes the drop-in just created when the symlink failed");
  ("internal/home/home.go", "run", "os.MkdirAll", 1%N, "creates the data directory");
  ("internal/home/home.go", "writePIDFile", "os.WriteFile", 1%N, "the PID file given with --pidfile");
  ("internal/home/home.go", "cleanupAlways", "os.Remove", 1%N, "removes the PID file at exit");
  ("internal/home/log.go", "configureLogger", "lumberjack.Logger", 1%N, "the log file, appended and rotated by lumberjack");
  ("internal/home/service.go", "handleServiceUninstallCommand", "os.Remove", 2%N,
   "launchd stdout/stderr log files on service uninstall (darwin only at run time)");
  ("internal/filtering/filtering.go", "New", "os.MkdirAll", 1%N, "creates data/filters");
  ("internal/updater/updater.go", "backup", "os.Mkdir", 1%N, "creates the agh-backup directory");
  ("internal/updater/updater.go", "replace", "os.Rename", 2%N,
   "moves the running executable to the backup directory and the new executable into its place");
  ("internal/updater/updater.go", "clean", "os.RemoveAll", 1%N, "removes the directory the update was unpacked into");
  ("internal/updater/updater.go", "downloadPackageFile", "os.Mkdir", 1%N, "creates the update directory");
  ("internal/updater/updater.go", "downloadPackageFile", "os.WriteFile", 1%N, "the downloaded release archive inside the update directory");
  ("internal/updater/updater.go", "tarGzFileUnpackOne", "os.Mkdir", 1%N, "directories of the unpacked archive inside the update directory");
  ("internal/updater/updater.go", "tarGzFileUnpackOne", "os.OpenFile", 1%N, "files of the unpacked archive inside the update directory");
  ("internal/updater/updater.go", "zipFileUnpackOne", "os.Mkdir", 1%N, "directories of the unpacked archive inside the update directory");
  ("internal/updater/updater.go", "zipFileUnpackOne", "os.OpenFile", 1%N, "files of the unpacked archive inside the update directory");
  ("internal/updater/updater.go", "copyFile", "os.WriteFile", 1%N,
   "destinations are the COPY of the configuration file in agh-backup (the configuration file itself is only read), the supporting files of the release (LICENSE, README, CHANGELOG) and, where renaming is impossible, the executable")
].

Definition matches (w : wcall) (e : entry) : bool :=
  match e with (f, fn, c, _, _) =>
    String.eqb f (w_file w) && String.eqb fn (w_func w) && String.eqb c (w_callee w) end.

Definition excepted (w : wcall) : bool := existsb (matches w) exceptions.
Definition other_file (w : wcall) : bool := existsb (matches w) other_files.

Definition writer_ok (w : wcall) : bool := rename_based w || excepted w || other_file w.

Definition count_ok (l : list wcall) (e : entry) : bool :=
  match e with (_, _, _, n, _) => N.leb (N.of_nat (List.length (List.filter (fun w => matches w e) l))) n end.

Definition counts_ok (l : list wcall) : bool := forallb (count_ok l) (List.app exceptions other_files).

Definition count_calls (l : list wcall) (file callee : string) : N :=
  N.of_nat (List.length (List.filter (fun w => String.eqb file (w_file w) && String.eqb callee (w_callee w)) l)).

(** The save paths the property names must be in the table (guards against a
    scanner that silently finds nothing): per file, at least so many calls of
    the rename-based writer.  Keyed by file and callee only, so that moving a
    save into a helper function of the same file (as the fix that split
    configuration.write into write / writeWithTLS did) is not reported. *)
Definition expected_sites : list (string * string * N) := [
  ("internal/home/config.go", "maybe.WriteFile", 2%N);          (* the ordinary save and the upgrade write *)
  ("internal/dhcpd/db.go", "maybe.WriteFile", 1%N);
  ("internal/filtering/filter.go", "aghrenameio.NewPendingFile", 1%N);
  ("internal/filtering/filter.go", "<pending>.CloseReplace", 1%N);
  ("internal/filtering/filter.go", "<pending>.Cleanup", 1%N);
  ("internal/aghrenameio/renameio_unix.go", "renameio.NewPendingFile", 1%N);
  ("internal/aghrenameio/renameio_unix.go", "<pending>.CloseAtomicallyReplace", 1%N);
  ("internal/filtering/rulelist/filter.go", "aghrenameio.NewPendingFile", 2%N);   (* from HTTP and from a file *)
  ("internal/filtering/rulelist/filter.go", "aghrenameio.WithDeferredCleanup", 2%N);
  ("internal/dhcpd/http_unix.go", "os.Remove", 1%N);
  ("internal/dhcpsvc/db.go", "maybe.WriteFile", 1%N);
  ("internal/next/configmgr/configmgr.go", "maybe.WriteFile", 1%N);
  ("internal/updater/updater.go", "os.WriteFile", 1%N)
].

Definition site_present (l : list wcall) (e : string * string * N) : bool :=
  match e with (f, c, n) => N.leb n (count_calls l f c) end.

Definition sites_present (l : list wcall) : bool := forallb (site_present l) expected_sites.

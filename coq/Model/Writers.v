(** C14, program-level supplement: the table of file-modifying calls in the
    anchored files (generated into Gen/Writers.v by tools/c14_writers.py) is
    judged by [writer_ok]: a call is fine when it is one of the rename-based
    writers (renameio / renameio/maybe / aghrenameio and the methods of their
    pending file) or an explicitly listed exception.  No proofs here. *)
From Coq Require Import List String NArith Bool.
Import ListNotations.
Local Open Scope string_scope.

Inductive wkind :=
  | KRenameio        (* function of renameio, renameio/maybe or aghrenameio *)
  | KPendingMethod   (* CloseAtomicallyReplace / CloseReplace / Cleanup of a pending file *)
  | KWriteFile       (* os.WriteFile, ioutil.WriteFile *)
  | KCreate          (* os.Create, os.CreateTemp, ioutil.TempFile *)
  | KOpenWrite       (* os.OpenFile with a write/create/truncate/append flag *)
  | KRename          (* os.Rename *)
  | KRemove          (* os.Remove, os.RemoveAll *)
  | KTruncate        (* os.Truncate, File.Truncate *)
  | KOther.          (* os.Link, os.Symlink, a missing anchored file *)

Record wcall := mkw { w_file : string; w_func : string; w_callee : string; w_kind : wkind; w_line : N }.

Definition rename_based (w : wcall) : bool :=
  match w_kind w with KRenameio | KPendingMethod => true | _ => false end.

(** Exceptions: (file, enclosing function, callee, reason).  None of them
    writes or replaces one of the three saved files. *)
Definition exceptions : list (string * string * string * string) := [
  ("internal/filtering/filter.go", "refreshFiltersIntl", "os.Remove",
   "removes the obsolete <id>.txt.old left by versions that kept a backup copy; never the list file itself");
  ("internal/configmigrate/v1.go", "migrateTo1", "os.Remove",
   "schema 0->1 deletes dnsfilter.txt, which is no longer used; the configuration file is not touched");
  ("internal/dhcpd/migrate.go", "migrateDB", "os.Remove",
   "deletes the legacy leases.db only after leases.json has been written through writeDB (rename-based)")
].

Definition excepted (w : wcall) : bool :=
  existsb (fun e => match e with (f, fn, c, _) =>
             String.eqb f (w_file w) && String.eqb fn (w_func w) && String.eqb c (w_callee w) end)
          exceptions.

Definition writer_ok (w : wcall) : bool := rename_based w || excepted w.

Definition has_call (l : list wcall) (file fn callee : string) : bool :=
  existsb (fun w => String.eqb file (w_file w) && String.eqb fn (w_func w) && String.eqb callee (w_callee w)) l.

(** The save paths the property names must be in the table (guards against a
    scanner that silently finds nothing). *)
Definition expected_sites : list (string * string * string) := [
  ("internal/home/config.go", "write", "maybe.WriteFile");
  ("internal/home/config.go", "parseConfig", "maybe.WriteFile");
  ("internal/dhcpd/db.go", "writeDB", "maybe.WriteFile");
  ("internal/filtering/filter.go", "updateIntl", "aghrenameio.NewPendingFile");
  ("internal/filtering/filter.go", "finalizeUpdate", "<pending>.CloseReplace");
  ("internal/filtering/filter.go", "finalizeUpdate", "<pending>.Cleanup");
  ("internal/aghrenameio/renameio_unix.go", "newPendingFile", "renameio.NewPendingFile");
  ("internal/aghrenameio/renameio_unix.go", "CloseReplace", "<pending>.CloseAtomicallyReplace")
].

Definition sites_present (l : list wcall) : bool :=
  forallb (fun e => match e with (f, fn, c) => has_call l f fn c end) expected_sites.

(** [addQUICPort] of internal/configmigrate/v10.go (step 10), the part that
    handles the shape of an upstream LINE (C13, round 7):

        if ups == "" || ups[0] == '#'            -> ups
        if HasPrefix(ups, "[/"):  parts := Split(TrimPrefix(ups, "[/"), "/]")
            len(parts) != 2                      -> ups
            doms, rest = "[/" + parts[0] + "/]", parts[1]
        if !Contains(rest, "://")                -> ups
        core rest = leave alone                  -> ups
        core rest = r                            -> doms + r

    [core] is what net/url and netutil make of the part after the prefix
    (scheme quic, host without a port: the host gets the port); it stays an
    oracle.  The domain prefix is the model's: whatever [core] answers, the
    prefix of the line is put back byte for byte, and a line [core] leaves
    alone is returned WHOLE.  No proofs here. *)
From Coq Require Import List String Ascii Bool.
Import ListNotations.
Local Open Scope string_scope.

Definition is_char (c : ascii) (s : string) : bool :=
  match s with String c' EmptyString => Ascii.eqb c c' | _ => false end.

(** The first occurrence of "/]": what is before and after it. *)
Fixpoint cut_sep (s : string) : option (string * string) :=
  match s with
  | EmptyString => None
  | String c r =>
      match r with
      | String d r' =>
          if is_char c "/" && is_char d "]" then Some (EmptyString, r')
          else match cut_sep r with Some (a, b) => Some (String c a, b) | None => None end
      | EmptyString => None
      end
  end.

(** [strings.Contains(s, "://")]. *)
Fixpoint has_scheme_sep (s : string) : bool :=
  match s with
  | String c1 ((String c2 (String c3 _)) as r) =>
      (is_char c1 ":" && is_char c2 "/" && is_char c3 "/") || has_scheme_sep r
  | _ => false
  end.

(** The line split as [addQUICPort] splits it: [None] = returned as it is
    before the upstream is looked at; [Some (doms, rest)]: [doms] is "" or
    "[/.../]". *)
Definition quic_split (s : string) : option (string * string) :=
  match s with
  | EmptyString => None
  | String c r =>
      if is_char c "#" then None
      else match r with
           | String d t =>
               if is_char c "[" && is_char d "/" then
                 match cut_sep t with
                 | Some (doms, rest) =>
                     match cut_sep rest with
                     | Some _ => None                                   (* three parts or more *)
                     | None => Some ("[/" ++ doms ++ "/]", rest)
                     end
                 | None => None                                          (* one part *)
                 end
               else Some (EmptyString, s)
           | EmptyString => Some (EmptyString, s)
           end
  end.

Definition add_quic_port (core : string -> option string) (s : string) : string :=
  match quic_split s with
  | None => s
  | Some (doms, rest) =>
      if has_scheme_sep rest then
        match core rest with Some r => doms ++ r | None => s end
      else s
  end.

(** The variant of seeded change C13-M: a line the core leaves alone is
    returned WITHOUT its prefix. *)
Definition add_quic_port_drop (core : string -> option string) (s : string) : string :=
  match quic_split s with
  | None => s
  | Some (doms, rest) =>
      if has_scheme_sep rest then
        match core rest with Some r => doms ++ r | None => rest end
      else s
  end.

(** The "[/.../]" prefix of a line as the Go monitor reads it. *)
Definition domain_prefix (s : string) : string :=
  match s with
  | String c (String d t) =>
      if is_char c "[" && is_char d "/" then
        match cut_sep t with Some (doms, _) => "[/" ++ doms ++ "/]" | None => EmptyString end
      else EmptyString
  | _ => EmptyString
  end.

(** Model of the CONFIGURATION path of the persistent-client registry (C04,
    round 3): internal/home/clients.go

      clientObject                      the YAML object of clients.persistent
      clientObject.toPersistent          file object -> client.Persistent
      clientsContainer.Init             all objects converted, then
                                        client.NewStorage adds them one by one
                                        (first error: start-up fails)
      clientsContainer.forConfig        registry -> file objects, in name order

    and internal/client/persistent.go SetIDs / IDs.  No proofs here.

    The registry itself is Model/ClientIndex.v's [index]; what that record does
    not carry (the whole safe-search configuration, the upstream cache
    settings) is the [extra] part kept beside it, keyed by uid.

    An identifier of the file ([ids]) is handed over parsed ([pid]: what
    netip.ParseAddr / ParsePrefix / net.ParseMAC / ValidateClientID +
    strings.ToLower make of the string; [PBad]: setID returns an error);
    printing them back ([Addr.String] ...) and parsing again is the identity on
    these values (trusted, validated by the harness; since /repo 5c9e5b4 also
    for 8-byte MACs, which [macString] writes with hyphens because their colon
    form is IPv6 text).  Time zones are numbers;
    0 is time.Local (what schedule.EmptyWeekly carries). *)
From Coq Require Import ZArith.
From AGH Require Import Base.Run Base.Bytes.
From AGH Require Model.Schedule.
From AGH Require Import Model.ClientIndex.
Local Open Scope N_scope.

(** filtering.SafeSearchConfig *)
Record ssconf := {
  ss_enabled : bool; ss_bing : bool; ss_ddg : bool; ss_ecosia : bool;
  ss_google : bool; ss_pixabay : bool; ss_yandex : bool; ss_youtube : bool
}.

(** The fields of client.Persistent outside ClientIndex's [client]. *)
Record extra := {
  x_ss : ssconf; x_cache_enabled : bool; x_cache_size : N;
  (* BlockedServices.Schedule is a nil pointer ([c_blocked] then carries the
     empty schedule as a placeholder; see [query_panics]) *)
  x_nil_sched : bool
}.

(** The [blocked_services] section of the file: the [schedule] key may be
    absent or null (a nil *schedule.Weekly after decoding). *)
Record fblocked := { fb_ids : list bytes; fb_sched : option (Schedule.weekly * N) }.

Inductive pid :=
  | PIp (a : addr) | PNet (p : prefix) | PMac (m : bytes) | PCid (c : bytes)
  | PBad.

(** clientObject.  Optional keys: an absent boolean / number / list key is the
    Go zero value ([false], 0, nil = []); [o_uid = 0]: key absent or the zero
    UUID; [o_blocked = None]: [blocked_services] absent or null; [fb_sched =
    None]: the section has no (or a null) [schedule] key; an absent
    [safe_search] section is the all-false [ssconf]. *)
Record cobj := {
  o_name : bytes;
  o_ids : list pid;
  o_tags : list bytes;
  o_upstreams : list bytes;
  o_uid : uid;
  o_ss : ssconf;
  o_blocked : option fblocked;
  o_cache_size : N;
  o_cache_enabled : bool;
  o_use_global_settings : bool;
  o_filtering : bool;
  o_parental : bool;
  o_safebrowsing : bool;
  o_use_global_blocked : bool;
  o_ignore_qlog : bool;
  o_ignore_stats : bool
}.

(** * Persistent.SetIDs: by kind, each kind sorted *)
Section Sort.
  Context {A : Type} (cmp : A -> A -> comparison).
  Fixpoint ins_by (n : A) (l : list A) : list A :=
    match l with
    | [] => [n]
    | x :: l' => match cmp n x with Lt => n :: l | _ => x :: ins_by n l' end
    end.
  (** slices.SortFunc is not stable; under the four orders used here two
      elements that compare equal ARE equal, so every sorting algorithm gives
      this list. *)
  Definition sort_by (l : list A) : list A := fold_right ins_by [] l.
End Sort.

(** netip.Addr.Compare: bit length, value, zone. *)
Definition addr_z_compare (a b : addr) : comparison :=
  match addr_compare (fst a) (fst b) with Eq => cmp_bytes (snd a) (snd b) | c => c end.

Definition is_bad (p : pid) : bool := match p with PBad => true | _ => false end.
Definition ips_of (l : list pid) : list addr := flat_map (fun p => match p with PIp a => [a] | _ => [] end) l.
Definition nets_of (l : list pid) : list prefix := flat_map (fun p => match p with PNet a => [a] | _ => [] end) l.
Definition macs_of (l : list pid) : list bytes := flat_map (fun p => match p with PMac a => [a] | _ => [] end) l.
Definition cids_of (l : list pid) : list bytes := flat_map (fun p => match p with PCid a => [a] | _ => [] end) l.

(** Persistent.IDs: addresses, subnets, MACs, ClientIDs, as the READER of the
    file parses the strings written.  (Before /repo 5c9e5b4 an 8-byte MAC was
    written in its colon form, which setID reads as an IPv6 address; macString
    now writes those with hyphens, which only net.ParseMAC accepts.) *)
Definition ids_of (c : client) : list pid :=
  map PIp (c_ips c) ++ map PNet (c_subnets c) ++ map PMac (c_macs c) ++ map PCid (c_cids c).

(** schedule.EmptyWeekly: seven zero ranges in time.Local. *)
Definition empty_weekly : Schedule.weekly := repeat Schedule.zero_range 7.
Definition default_blocked : blocked := {| b_ids := []; b_sched := empty_weekly; b_zone := 0 |}.

(** The section as stored: a nil schedule is kept nil ([x_nil_sched]); the
    record then carries the empty schedule as a placeholder. *)
Definition blocked_of (fb : fblocked) : blocked :=
  match fb_sched fb with
  | Some (w, z) => {| b_ids := fb_ids fb; b_sched := w; b_zone := z |}
  | None => {| b_ids := fb_ids fb; b_sched := empty_weekly; b_zone := 0 |}
  end.
Definition nil_sched_of (o : option fblocked) : bool :=
  match o with Some fb => match fb_sched fb with None => true | Some _ => false end | None => false end.
Definition stored_blocked (o : option fblocked) : blocked :=
  match o with Some fb => blocked_of fb | None => default_blocked end.
Definition written_blocked (b : blocked) (nil_sched : bool) : fblocked :=
  {| fb_ids := b_ids b; fb_sched := if nil_sched then None else Some (b_sched b, b_zone b) |}.

(** * toPersistent *)
Inductive conv_err := CErrIds | CErrService.
Inductive conv := CErr (e : conv_err) | COk (c : client) (x : extra).

(** [known]: the service ids of filtering's serviceRules map
    (BlockedServices.Validate); [gen]: the value client.NewUID returns when
    the object carries no uid. *)
Definition to_persistent (known : list bytes) (gen : uid) (o : cobj) : conv :=
  if existsb is_bad (o_ids o) then CErr CErrIds else
  let b := stored_blocked (o_blocked o) in
  if negb (forallb (fun i => existsb (eqb_bytes i) known) (b_ids b)) then CErr CErrService else
  COk {| c_uid := if o_uid o =? 0 then gen else o_uid o;
         c_name := o_name o;
         c_cids := sort_by cmp_bytes (cids_of (o_ids o));
         c_ips := sort_by addr_z_compare (ips_of (o_ids o));
         c_subnets := sort_by subnet_compare (nets_of (o_ids o));
         c_macs := sort_by cmp_bytes (macs_of (o_ids o));
         c_own_settings := negb (o_use_global_settings o);
         c_filtering := o_filtering o;
         c_safesearch := ss_enabled (o_ss o);
         c_safebrowsing := o_safebrowsing o;
         c_parental := o_parental o;
         c_own_blocked := negb (o_use_global_blocked o);
         c_blocked := Some b;
         c_ignore_qlog := o_ignore_qlog o;
         c_ignore_stats := o_ignore_stats o;
         c_tags := o_tags o;
         c_upstreams := o_upstreams o |}
      {| x_ss := o_ss o; x_cache_enabled := o_cache_enabled o; x_cache_size := o_cache_size o;
         x_nil_sched := nil_sched_of (o_blocked o) |}.

(** * One object of forConfig *)
Definition for_config (c : client) (x : extra) : cobj :=
  {| o_name := c_name c;
     o_ids := ids_of c;
     o_tags := c_tags c;
     o_upstreams := c_upstreams c;
     o_uid := c_uid c;
     o_ss := x_ss x;
     o_blocked := option_map (fun b => written_blocked b (x_nil_sched x)) (c_blocked c);
     o_cache_size := x_cache_size x;
     o_cache_enabled := x_cache_enabled x;
     o_use_global_settings := negb (c_own_settings c);
     o_filtering := c_filtering c;
     o_parental := c_parental c;
     o_safebrowsing := c_safebrowsing c;
     o_use_global_blocked := negb (c_own_blocked c);
     o_ignore_qlog := c_ignore_qlog c;
     o_ignore_stats := c_ignore_stats c |}.

(** * clientsContainer.Init *)
Definition registry := (index * list (uid * extra))%type.
Definition ext_get (u : uid) (ext : list (uid * extra)) : option extra := al_get N.eqb u ext.

Inductive lres :=
  | LConvErr (i : N) (e : conv_err)     (* "init persistent client at index i" *)
  | LAddErr (i : N) (e : err)           (* "init client storage: adding client ... at index i" *)
  | LOk (r : registry).

(** Every object is converted before the storage exists; each comes with the
    uid NewUID would give it. *)
Fixpoint conv_all (known : list bytes) (i : N) (objs : list (uid * cobj))
    : (N * conv_err) + list (client * extra) :=
  match objs with
  | [] => inr []
  | (g, o) :: rest =>
      match to_persistent known g o with
      | CErr e => inl (i, e)
      | COk c x =>
          match conv_all known (i + 1) rest with
          | inl e => inl e
          | inr l => inr ((c, x) :: l)
          end
      end
  end.

(** client.NewStorage: Storage.Add for every initial client. *)
Fixpoint add_all (cfg : config) (i : N) (pcs : list (client * extra)) (r : registry) : lres :=
  match pcs with
  | [] => LOk r
  | (c, x) :: rest =>
      match add cfg c (fst r) with
      | (ix', EOk) => add_all cfg (i + 1) rest (ix', (c_uid c, x) :: snd r)
      | (_, e) => LAddErr i e
      end
  end.

Definition empty_registry : registry := (empty_index, []).

Definition load (cfg : config) (known : list bytes) (objs : list (uid * cobj)) : lres :=
  match conv_all known 0 objs with
  | inl (i, e) => LConvErr i e
  | inr pcs => add_all cfg 0 pcs empty_registry
  end.

(** * forConfig: the stored clients in name order (index.rangeByName) *)
Fixpoint ins_client (c : client) (l : list client) : list client :=
  match l with
  | [] => [c]
  | x :: l' => match cmp_bytes (c_name c) (c_name x) with Lt => c :: l | _ => x :: ins_client c l' end
  end.
Definition clients_by_name (ix : index) : list client :=
  fold_right ins_client [] (map snd (by_uid ix)).

Definition zero_ss : ssconf :=
  {| ss_enabled := false; ss_bing := false; ss_ddg := false; ss_ecosia := false;
     ss_google := false; ss_pixabay := false; ss_yandex := false; ss_youtube := false |}.
Definition zero_extra : extra :=
  {| x_ss := zero_ss; x_cache_enabled := false; x_cache_size := 0; x_nil_sched := false |}.

Definition extra_of (r : registry) (u : uid) : extra :=
  match ext_get u (snd r) with Some x => x | None => zero_extra end.

Definition save (r : registry) : list cobj :=
  map (fun c => for_config c (extra_of r (c_uid c))) (clients_by_name (fst r)).

(** The file objects read back: every object has its uid, so the generated
    one ([g], any value) is not used. *)
Definition reload (cfg : config) (known : list bytes) (g : uid) (r : registry) : lres :=
  load cfg known (map (fun o => (g, o)) (save r)).

(** * clientsContainer.Init: the storage's configuration (round 4)

    [config.Clients.Sources] (clients.runtime_sources in the file): which
    sources of RUNTIME client information are enabled. *)
Record sources := {
  src_whois : bool; src_arp : bool; src_rdns : bool; src_dhcp : bool; src_hosts : bool
}.

(** client.StorageConfig as Init fills it, the fields that matter here: [DHCP]
    is the DHCP server handed to Init, WHATEVER the switches say (the storage
    asks it for the MAC of a request's address when it matches persistent
    clients); [RuntimeSourceDHCP] is the dhcp switch (it only governs whether
    leases are shown as runtime clients); [EtcHosts] is the hosts container
    only when the hosts switch is on and a container exists.  The whois, arp
    and rdns switches are not read by Init at all. *)
Record storage_conf := {
  sc_dhcp : addr -> option bytes;       (* MACByIP of StorageConfig.DHCP *)
  sc_runtime_dhcp : bool;
  sc_hosts : bool
}.

Definition init_conf (s : sources) (server : addr -> option bytes) (have_hosts : bool) : storage_conf :=
  {| sc_dhcp := server; sc_runtime_dhcp := src_dhcp s; sc_hosts := src_hosts s && have_hosts |}.

(** Init: the objects loaded into a storage configured by [init_conf]. *)
Definition init (cfg : config) (known : list bytes) (s : sources) (server : addr -> option bytes)
    (have_hosts : bool) (objs : list (uid * cobj)) : lres * storage_conf :=
  (load cfg known objs, init_conf s server have_hosts).

(** Attribution of a request by an initialised container
    (filteringConf.ApplyClientFiltering = storage.ApplyClientFiltering). *)
Definition container_lookup (sc : storage_conf) (r : registry) (id : bytes) (a : addr) : option uid :=
  acf_find (fst r) (sc_dhcp sc) id a.
Definition container_acf (sc : storage_conf) (r : registry) (id : bytes) (a : addr) (g : settings)
    : option settings :=
  apply_client_filtering (fst r) (sc_dhcp sc) id a g.

(** * OBSERVATION (not a clause of C04): a section without a schedule

    DNSFilter.ApplyAdditionalFiltering evaluates
    [setts.BlockedServices.Schedule.Contains(now)] whenever the chosen client
    applies its own blocked services; with a nil schedule that is a nil
    pointer dereference: the request PANICS.  Explicit outcome of the model. *)
Definition query_panics (r : registry) (dhcp : addr -> option bytes) (id : bytes) (a : addr) : bool :=
  match acf_find (fst r) dhcp id a with
  | None => false
  | Some u =>
      match deref (fst r) u with
      | Some c => c_own_blocked c && x_nil_sched (extra_of r u)
      | None => false
      end
  end.

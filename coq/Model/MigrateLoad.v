(** What the typed loader demands of the keys the upgrade steps write (C13,
    "output accepted by the loader").  Executable definitions, no proofs.

    [yaml.Unmarshal] into the [configuration] type checks the KIND of every
    value it knows a field for and ignores keys it has no field for.  [sh] is
    that kind check; [schema v] gives, for a document of schema version [v],
    the shape of every key some step reads or writes, for as long as the
    steps keep the key ([from]..[to]); a key that only a later version
    introduces must be absent (a file written by the program at version [v]
    does not hold it), a key a step has retired is not looked at.

    The shapes are kinds, not values: whether a duration text parses, an
    address is an address or a service id is known is validation, which the
    harness runs on the real code (stages of the loader monitor). *)
From Coq Require Import List String Bool Arith.
From AGH Require Import Model.Migrate.
Import ListNotations.
Local Open Scope string_scope.
Local Open Scope list_scope.

Inductive sh :=
  | SAny
  | SNone                                   (* the key must be absent *)
  | SBool | SInt
  | SStr                                    (* any scalar decodes into a string field *)
  | SDur                                    (* timeutil.Duration: text *)
  | SArr (e : sh)
  | SObj (nullable : bool) (fs : list (string * sh)).
      (* [nullable = false]: a pointer the start-up code dereferences; an
         explicit null leaves it nil (observed: nil dereference in
         validateConfig / initContextClients for filtering, dhcp, clients) *)

Definition scalar_val (v : val) : bool :=
  match v with
  | VBool _ | VInt _ | VStr _ | VFloat _ _ | VOther _ | VDur _ | VMode _ => true
  | _ => false
  end.

Fixpoint conforms (s : sh) (v : val) {struct s} : bool :=
  match s with
  | SAny => true
  | SNone => false
  | SBool => match v with VNull | VBool _ => true | _ => false end
  | SInt => match v with VNull | VInt _ | VFloat (Some _) _ => true | _ => false end
  | SStr => match v with VNull => true | _ => scalar_val v end
  | SDur => match v with VNull | VStr _ | VDur _ => true | _ => false end
  | SArr e =>
      match v with
      | VNull => true
      | VArr l => forallb (conforms e) l
      | VStrs _ => match e with SStr | SAny => true | _ => false end
      | _ => false
      end
  | SObj nullable fs =>
      match v with
      | VNull => nullable
      | VObj m =>
          (fix go (fs : list (string * sh)) : bool :=
             match fs with
             | [] => true
             | (k, s') :: fs' =>
                 match get k m with None => true | Some x => conforms s' x end && go fs'
             end) fs
      | _ => false
      end
  end.

(** ** The versioned table *)

(** A key with the version ranges in which it is live and its shape there. *)
Inductive vs :=
  | VS (s : sh)
  | VArrOf (e : vs)
  | VObjOf (nullable : bool) (fs : list (string * list (nat * nat * vs))).

Fixpoint at_version (v : nat) (x : vs) {struct x} : sh :=
  match x with
  | VS s => s
  | VArrOf e => SArr (at_version v e)
  | VObjOf nullable fs =>
      SObj nullable
        ((fix go (fs : list (string * list (nat * nat * vs))) : list (string * sh) :=
            match fs with
            | [] => []
            | (k, l) :: fs' =>
                match
                  (fix pk (l : list (nat * nat * vs)) : option sh :=
                     match l with
                     | [] => None
                     | (a, b, x') :: l' =>
                         if Nat.leb a v && Nat.leb v b then Some (at_version v x')
                         else match pk l' with
                              | Some s => Some s
                              | None => if Nat.ltb v a then Some SNone else None
                              end
                     end) l
                with
                | Some s => (k, s) :: go fs'
                | None => go fs'
                end
            end) fs)
  end.

Definition always (x : vs) : list (nat * nat * vs) := [(0, 29, x)].
Definition during (a b : nat) (x : vs) : list (nat * nat * vs) := [(a, b, x)].
Definition str := VS SStr.
Definition int := VS SInt.
Definition boolean := VS SBool.
Definition strs := VS (SArr SStr).

Definition safe_search_t : vs :=
  VObjOf true [("enabled", always boolean); ("bing", always boolean); ("duckduckgo", always boolean);
               ("google", always boolean); ("pixabay", always boolean); ("yandex", always boolean);
               ("youtube", always boolean)].

Definition blocked_t : vs :=
  VObjOf true [("ids", always strs); ("schedule", always (VObjOf true [("time_zone", always str)]))].

Definition client_t : vs :=
  VObjOf false
    [("ip", during 0 5 str); ("mac", during 0 5 str); ("ids", during 6 29 strs);
     ("use_global_blocked_services", during 4 29 boolean);
     ("safesearch_enabled", during 0 18 boolean); ("safe_search", during 19 29 safe_search_t);
     ("blocked_services", [(0, 21, strs); (22, 29, blocked_t)])].

Definition rewrite_t : vs := VObjOf true [("domain", always str); ("answer", always str)].

(** The settings step 26 moves from [dns] to [filtering], with the type each
    is moved with. *)
Definition moved26 (a b : nat) : list (string * list (nat * nat * vs)) :=
  [("filtering_enabled", during a b boolean); ("filters_update_interval", during a b int);
   ("parental_enabled", during a b boolean); ("safebrowsing_enabled", during a b boolean);
   ("safebrowsing_cache_size", during a b int); ("safesearch_cache_size", during a b int);
   ("parental_cache_size", during a b int);
   ("rewrites", during a b (VArrOf rewrite_t));
   ("protection_enabled", during a b boolean); ("blocking_mode", during a b str);
   ("blocking_ipv4", during a b str); ("blocking_ipv6", during a b str);
   ("blocked_response_ttl", during a b int); ("protection_disabled_until", during a b (VS SAny));
   ("parental_block_host", during a b str); ("safebrowsing_block_host", during a b str)].

Definition dns_t : vs :=
  VObjOf true
    ([("bootstrap_dns", [(0, 2, str); (3, 29, strs)]);
      ("bind_host", during 0 7 str); ("bind_hosts", during 8 29 strs);
      ("autohost_tld", during 0 8 str); ("local_domain_name", during 9 12 str);
      ("upstream_dns", always strs); ("local_ptr_upstreams", always strs);
      ("querylog_interval", [(0, 11, int); (12, 14, VS SDur)]);
      ("querylog_enabled", during 0 14 boolean); ("querylog_file_enabled", during 0 14 boolean);
      ("querylog_size_memory", during 0 14 int);
      ("resolve_clients", during 0 13 boolean);
      ("statistics_interval", during 0 15 int);
      ("edns_client_subnet",
         [(0, 16, boolean);
          (17, 29, VObjOf true [("enabled", always boolean); ("use_custom", always boolean); ("custom_ip", always str)])]);
      ("safesearch_enabled", during 0 17 boolean);
      ("safe_search", during 18 25 safe_search_t);
      ("blocked_services", [(0, 20, strs); (21, 25, blocked_t)]);
      ("all_servers", during 0 27 boolean); ("fastest_addr", during 0 27 boolean);
      ("upstream_mode", during 28 29 str)]
     ++ moved26 0 25).

Definition dhcpv4_t : vs :=
  VObjOf true [("gateway_ip", always str); ("subnet_mask", always str); ("range_start", always str);
               ("range_end", always str); ("lease_duration", always int); ("icmp_timeout_msec", always int)].

Definition dhcp_t : vs :=
  VObjOf false
    [("gateway_ip", during 0 6 str); ("subnet_mask", during 0 6 str); ("range_start", during 0 6 str);
     ("range_end", during 0 6 str); ("lease_duration", during 0 6 int); ("icmp_timeout_msec", during 0 6 int);
     ("dhcpv4", during 7 29 dhcpv4_t); ("local_domain_name", during 13 29 str)].

Definition runtime_t : vs :=
  VObjOf false [("whois", always boolean); ("arp", always boolean); ("rdns", always boolean);
                ("dhcp", always boolean); ("hosts", always boolean)].

Definition top_t : vs :=
  VObjOf false
    [("schema_version", always int);
     ("coredns", during 0 1 dns_t); ("dns", during 2 29 dns_t);
     ("clients", [(0, 13, VArrOf client_t);
                  (14, 29, VObjOf false [("persistent", always (VArrOf client_t)); ("runtime_sources", always runtime_t)])]);
     ("auth_name", during 0 4 str); ("auth_pass", during 0 4 str);
     ("users", during 5 29 (VArrOf (VObjOf true [("name", always str); ("password", always str)])));
     ("dhcp", always dhcp_t);
     ("rlimit_nofile", during 0 10 int);
     ("os", during 11 29 (VObjOf true [("group", always str); ("user", always str); ("rlimit_nofile", always int)]));
     ("querylog", during 15 29
        (VObjOf true [("enabled", always boolean); ("file_enabled", always boolean); ("interval", always (VS SDur));
                      ("size_memory", always int); ("ignored", always strs)]));
     ("statistics", during 16 29
        (VObjOf true [("enabled", always boolean); ("interval", [(16, 19, int); (20, 29, VS SDur)]);
                      ("ignored", always strs)]));
     ("bind_host", during 0 22 str); ("bind_port", during 0 22 int); ("web_session_ttl", during 0 22 int);
     ("http", during 23 29
        (VObjOf true [("address", always str); ("session_ttl", always (VS SDur));
                      ("pprof", during 25 29 (VObjOf false [("enabled", always boolean); ("port", always int)]))]));
     ("log_file", during 0 23 str); ("log_max_backups", during 0 23 int); ("log_max_size", during 0 23 int);
     ("log_max_age", during 0 23 int); ("log_compress", during 0 23 boolean);
     ("log_localtime", during 0 23 boolean); ("verbose", during 0 23 boolean);
     ("log", during 24 29
        (VObjOf true [("file", always str); ("max_backups", always int); ("max_size", always int);
                      ("max_age", always int); ("compress", always boolean); ("local_time", always boolean);
                      ("verbose", always boolean)]));
     ("debug_pprof", during 0 24 boolean);
     ("filtering", during 26 29
        (VObjOf false (moved26 26 29 ++
                       [("safe_search", during 26 29 safe_search_t); ("blocked_services", during 26 29 blocked_t);
                        ("safe_fs_patterns", during 29 29 strs)])))].

Definition schema (v : nat) : sh := at_version v top_t.

(** A document of schema version [v] the loader of that version accepts, as
    far as the keys the steps touch go. *)
Definition loadable (v : nat) (m : obj) : bool := conforms (schema v) (VObj m).

(** The global filtering switch next to the queue of engine rebuilds
    (filtering/http.go handleFilteringConfig, filtering/filter.go
    enableFiltersLocked, filtering/filtering.go SetEnabled / Settings), as the
    Go code is NOW.

    conf.FilteringEnabled is a per-request SETTING (the default a client's own
    settings override: client.Storage.ApplyClientFiltering), not a condition
    of building the engines: enableFiltersLocked builds them whatever the
    flag says and then publishes the flag (SetEnabled).  POST
    /control/filtering/config stores the flag and calls EnableFilters(true).

    State: the flag and the queue state of Model/FilterQueue.v.  Whether
    enableFiltersLocked goes on to build is a parameter of the run ([gate]):
    [gate_as_written] always; [gate_only_when_on] is the variant that was
    seeded (C01-N: an early return while the flag is off).  No proofs. *)
From Coq Require Import List NArith Bool.
From AGH Require Import Base.Run Base.NetAddr Base.RuleEngine Model.Pipeline Model.PipelineLists Model.FilterQueue.
From AGH Require Model.Rewrites.
Import ListNotations.

Record gstate := mkG {
  g_on : bool;        (* the atomic flag Settings() reads: what SetEnabled published last *)
  g_conf : bool;      (* conf.FilteringEnabled: what config / status report *)
  g_q : pstate
}.

(** Whether handleFilteringConfig goes on to EnableFilters(true), given the
    requested flag: always, as written; only when enabling in the variant that
    was seeded (C02-P).  enableFiltersLocked is the only place that publishes
    conf.FilteringEnabled to the flag the requests read. *)
Definition config_trigger := bool -> bool.
Definition config_always : config_trigger := fun _ => true.
Definition config_only_when_enabling : config_trigger := fun en => en.

Definition gate := bool -> bool.
Definition gate_as_written : gate := fun _ => true.
Definition gate_only_when_on : gate := fun on => on.

Inductive gop :=
  | GConfig (enabled : bool)   (* POST /control/filtering/config *)
  | GOp (o : hop).             (* everything Model/FilterQueue.v knows *)

Section Run.
  Variable gt : gate.
  Variable ct : config_trigger.

  (** A handler call: the change, then EnableFilters(true) if the handler
      asks for it and enableFiltersLocked gets as far as setFilters. *)
  Definition handle_g (on : bool) (s : pstate) (ch : qchange) : pstate :=
    prun s (OChange ch :: (if restarts (q_conf s) ch && gt on then [OTrigger] else [])).

  (** enableFiltersLocked ends with SetEnabled(conf.FilteringEnabled). *)
  Definition publish (g : gstate) (ran : bool) : bool := if ran then g_conf g else g_on g.

  Definition gstep (g : gstate) (o : gop) : gstate :=
    match o with
    | GConfig en =>
        if ct en then mkG (if gt en then en else g_on g) en (handle_g en (g_q g) QTouch)
        else mkG (g_on g) en (g_q g)
    | GOp (HHandle ch) =>
        mkG (publish g (restarts (q_conf (g_q g)) ch && gt (g_conf g))) (g_conf g) (handle_g (g_conf g) (g_q g) ch)
    | GOp HSync => mkG (publish g (gt (g_conf g))) (g_conf g) (if gt (g_conf g) then hstep (g_q g) HSync else g_q g)
    | GOp o' => mkG (g_on g) (g_conf g) (hstep (g_q g) o')
    end.

  Definition grun (g : gstate) (hs : list gop) : gstate := fold_left gstep hs g.

  (** Start-up: EnableFilters(false) from the configuration. *)
  Definition ginit (on : bool) (st : lstate) : gstate :=
    mkG on on (if gt on then pinit st else mkQ st [] None ([], []) false).
End Run.

(** The configuration a request sees: the global filtering flag is the
    published one. *)
Definition cfg_filt (c : cfg) (on : bool) : cfg :=
  mkCfg (c_prot_enabled c) (c_prot_deadline c)
        on (c_safebrowsing c) (c_parental c) (c_mode c) (c_ip4 c) (c_ip6 c) (c_ttl c)
        (c_aaaa_disabled c) (c_services c) (c_services_paused c) (c_service_table c) (c_sb_host c) (c_par_host c)
        (c_rewrites c) (c_hosts_on c) (c_hosts_byname c) (c_hosts_byaddr c) (c_arpa c) (c_safesearch c)
        (c_ddr c) (c_dhcp_on c) (c_local_suffix c) (c_dhcp_hosts c) (c_dhcp_addrs c) (c_dns64 c).

Section Ask.
  Variable sb_oracle par_oracle : bytes -> bool.
  Variable ss_oracle : bytes -> N -> option ssverdict.
  Variable rw_sort : list Rewrites.entry -> list Rewrites.entry.

  Definition ask_g (g : gstate) (c : cfg) (up : upstream) (q : request) : outcome :=
    ask_q sb_oracle par_oracle ss_oracle rw_sort (g_q g) (cfg_filt c (g_on g)) up q.
End Ask.

(** Forgetting the switch: a config call is, for the queue, a handler call
    that changes nothing and asks for a rebuild. *)
Definition erase (o : gop) : hop := match o with GConfig _ => HHandle QTouch | GOp o' => o' end.

(** The periodic worker of the statistics as part of the system (C09, round 6).
    No proofs here.

    Model/Stats.v has [flush s id] as an operation somebody performs with the
    clock at [id].  In the program that somebody is ONE goroutine, started by
    [StatsCtx.Start] (stats.go):

      func (s *StatsCtx) periodicFlush() {
          for cont, sleepFor := true, time.Duration(0); cont; time.Sleep(sleepFor) {
              cont, sleepFor = s.flush()
          }
      }

      func (s *StatsCtx) flush() (cont bool, sleepFor time.Duration) {
          id := s.unitIDGen()              // the read: BEFORE the locks
          s.confMu.Lock(); s.currMu.Lock() // ...
          if limit == 0 || ptr.id == id { return true, time.Second }
          return s.flushDB(id, limit, ptr) // every path: true, 0
      }

    and [Update] adds to [s.curr] whatever its id is.  So the hour a query is
    attributed to is not "the hour of the clock when it was counted" but the
    hour the worker READ at its last completed pass; how far the two are apart
    is decided by how long the worker sleeps.  Two layers:

    - untimed ([wstate], [wop]): the id source is a variable [w_clk] that the
      environment changes ([WClock]); a pass of the worker is its read
      ([WRead]: id := unitIDGen()) and, later, its locked part ([WApply]:
      [flush] with the id that was read); everything else is an operation of
      Model/Stats.v ([WOp]).  This is what the harness replays on the real
      worker (Run/C09.v, case [CWork]).

    - timed ([world], [tev]): a monotonic clock [t_now] (what time.Sleep
      counts on), the wall clock [t_wall] in milliseconds (what the default
      unit id, newUnitID = Unix hours, is computed from, and what may be
      stepped: a suspended machine, a paused VM, a corrected clock:
      [TStep]), the earliest instant of the worker's next pass [t_due].  How
      long the worker sleeps after a pass that found nothing to roll over is a
      parameter, the [policy]; [policy_as_written] is the code's time.Second,
      [policy_until_next_hour] the variant that sleeps until the wall clock's
      next full hour.  [tvalid lat]: the worker does not start a pass before
      [t_due] (time.Sleep sleeps at least that long) and has finished it at
      most [lat] after (scheduling and the wait for the two mutexes): time does
      not pass beyond [t_due + lat] without the pass. *)
From Coq Require Import ZArith List Bool.
From AGH Require Import Model.Stats.
Import ListNotations.
Local Open Scope Z_scope.

(** * Untimed: id source, worker passes, operations *)

Inductive wop :=
  | WOp (o : op)        (* an operation of Model/Stats.v (Update, a handler, a restart) *)
  | WClock (h : Z)      (* the id source reads [h] from now on *)
  | WRead               (* the worker: id := s.unitIDGen() *)
  | WApply.             (* the worker: the locked part of flush with that id *)

Record wstate := {
  w_clk : Z;            (* what unitIDGen() returns now *)
  w_st : state;
  w_pend : option Z     (* the id the worker has read and not yet acted on *)
}.

Definition wstep (w : wstate) (o : wop) : wstate :=
  match o with
  | WOp o' => {| w_clk := w_clk w; w_st := step (w_st w) o'; w_pend := w_pend w |}
  | WClock h => {| w_clk := h; w_st := w_st w; w_pend := w_pend w |}
  | WRead => {| w_clk := w_clk w; w_st := w_st w; w_pend := Some (w_clk w) |}
  | WApply =>
      match w_pend w with
      | Some id => {| w_clk := w_clk w; w_st := flush (w_st w) id; w_pend := None |}
      | None => w
      end
  end.

Definition wrun (w : wstate) (h : list wop) : wstate := fold_left wstep h w.

(** New on a fresh file with the id source at [id]; Start right after. *)
Definition winit (id ms : Z) (en : bool) : wstate :=
  {| w_clk := id; w_st := init id ms en; w_pend := None |}.

(** The operations of Model/Stats.v a worker history amounts to: the worker's
    passes are the flushes, each with the id it had read. *)
Fixpoint wops (w : wstate) (h : list wop) : list op :=
  match h with
  | [] => []
  | o :: h' =>
      match o with
      | WOp o' => [o']
      | WApply => match w_pend w with Some id => [OFlush id] | None => [] end
      | _ => []
      end ++ wops (wstep w o) h'
  end.

(** * What a pass of the worker finds, and how long it sleeps then *)

(** flush's own test "nothing to roll over" *)
Definition flush_idle (s : state) (id : Z) : bool := (lim s =? 0) || (cur_id s =? id).

Inductive fl_out :=
  | FIdle       (* limit == 0 || ptr.id == id: return true, <the policy> *)
  | FNoDb       (* flushDB: db == nil: return true, 0 *)
  | FRolled.    (* flushDB went through: return true, 0 *)

Definition flush_out (s : state) (id : Z) : fl_out :=
  if flush_idle s id then FIdle else if dbnil s then FNoDb else FRolled.

(** sleep after an idle pass, in milliseconds, from the wall clock (ms) and the state *)
Definition policy := Z -> state -> Z.

Definition sleep_for (pol : policy) (wall : Z) (s : state) (o : fl_out) : Z :=
  match o with FIdle => pol wall s | _ => 0 end.

(** stats.go as it is: time.Second *)
Definition policy_as_written : policy := fun _ _ => 1000.

(** "unit ids change on the hour, nothing to do until the next one begins":
    time.Until(time.Now().Truncate(time.Hour).Add(time.Hour)) *)
Definition policy_until_next_hour : policy := fun wall _ => ms_hour - wall mod ms_hour.

(** * Timed *)

Record world := {
  t_now : Z;      (* monotonic clock, ms *)
  t_wall : Z;     (* wall clock, ms since the epoch *)
  t_due : Z;      (* the worker does not begin its next pass before this instant *)
  t_in : wstate
}.

(** newUnitID *)
Definition hour_of (wall : Z) : Z := wall / ms_hour.

Inductive tev :=
  | TPass (d : Z)       (* d ms go by on both clocks *)
  | TStep (dw : Z)      (* the wall clock jumps ahead by dw ms; no time goes by *)
  | TUpdate (e : entry)
  | TRead
  | TApply.

Definition tstep (pol : policy) (W : world) (ev : tev) : world :=
  match ev with
  | TPass d =>
      {| t_now := t_now W + d; t_wall := t_wall W + d; t_due := t_due W;
         t_in := wstep (t_in W) (WClock (hour_of (t_wall W + d))) |}
  | TStep dw =>
      {| t_now := t_now W; t_wall := t_wall W + dw; t_due := t_due W;
         t_in := wstep (t_in W) (WClock (hour_of (t_wall W + dw))) |}
  | TUpdate e =>
      {| t_now := t_now W; t_wall := t_wall W; t_due := t_due W;
         t_in := wstep (t_in W) (WOp (OUpdate e)) |}
  | TRead =>
      {| t_now := t_now W; t_wall := t_wall W; t_due := t_due W;
         t_in := wstep (t_in W) WRead |}
  | TApply =>
      match w_pend (t_in W) with
      | Some id =>
          {| t_now := t_now W; t_wall := t_wall W;
             t_due := t_now W + sleep_for pol (t_wall W) (w_st (t_in W)) (flush_out (w_st (t_in W)) id);
             t_in := wstep (t_in W) WApply |}
      | None => W
      end
  end.

Definition trun (pol : policy) (W : world) (h : list tev) : world := fold_left (tstep pol) h W.

(** every world visited, the first one included *)
Fixpoint ttrace (pol : policy) (W : world) (h : list tev) : list world :=
  W :: match h with
       | [] => []
       | ev :: h' => ttrace pol (tstep pol W ev) h'
       end.

Definition tvalid (lat : Z) (W : world) (ev : tev) : bool :=
  match ev with
  | TPass d => (0 <=? d) && (t_now W + d <=? t_due W + lat)
  | TStep dw => 0 <=? dw
  | TUpdate _ => true
  | TRead => (t_due W <=? t_now W) && match w_pend (t_in W) with None => true | Some _ => false end
  | TApply => match w_pend (t_in W) with None => false | Some _ => true end
  end.

Fixpoint tvalid_hist (pol : policy) (lat : Z) (W : world) (h : list tev) : bool :=
  match h with
  | [] => true
  | ev :: h' => tvalid lat W ev && tvalid_hist pol lat (tstep pol W ev) h'
  end.

(** New and Start at instant [t] with the wall clock at [wall]: the first pass
    is due at once (sleepFor starts at 0). *)
Definition world0 (t wall : Z) (s : state) : world :=
  {| t_now := t; t_wall := wall; t_due := t;
     t_in := {| w_clk := hour_of wall; w_st := s; w_pend := None |} |}.

(** the untimed history a timed one amounts to *)
Definition tproj (W : world) (ev : tev) : list wop :=
  match ev with
  | TPass d => [WClock (hour_of (t_wall W + d))]
  | TStep dw => [WClock (hour_of (t_wall W + dw))]
  | TUpdate e => [WOp (OUpdate e)]
  | TRead => [WRead]
  | TApply => [WApply]
  end.

Fixpoint tprojs (pol : policy) (W : world) (h : list tev) : list wop :=
  match h with
  | [] => []
  | ev :: h' => tproj W ev ++ tprojs pol (tstep pol W ev) h'
  end.

(** The source names of the pipeline's order tables, derived from the
    literals [checker_order] and [stage_order] the model (and hence every C01 /
    C02 theorem) is built on.  Since round 2 every checker of filtering.New
    and every stage of handleDNSRequest has its constructor in the model, so
    the expected tables are just the images of the model's literals.
    No proofs here. *)
From Coq Require Import List String Bool Arith.
From AGH Require Import Model.Pipeline.
Import ListNotations.
Local Open Scope string_scope.

Definition checker_fn (k : checker) : string :=
  match k with
  | ChkSysHosts => "matchSysHosts"
  | ChkRules => "matchHost"
  | ChkServices => "matchBlockedServicesRules"
  | ChkSafeBrowsing => "checkSafeBrowsing"
  | ChkParental => "checkParental"
  | ChkSafeSearch => "checkSafeSearch"
  end.

Definition stage_fn (s : stage) : string :=
  match s with
  | StInitial => "processInitial"
  | StDDR => "processDDRQuery"
  | StDHCPHosts => "processDHCPHosts"
  | StDHCPAddrs => "processDHCPAddrs"
  | StFilterBefore => "processFilteringBeforeRequest"
  | StUpstream => "processUpstream"
  | StFilterAfter => "processFilteringAfterResponse"
  | StIpset => "processIpset"
  | StLog => "processQueryLogsAndStats"
  end.

Definition expected_checkers : list string := map checker_fn checker_order.

Definition expected_stages : list string := map stage_fn stage_order.

(** Positions where two tables differ: (index, expected, found). *)
Fixpoint table_extra (i : nat) (found : list string) : list (nat * string * string) :=
  match found with
  | [] => []
  | f :: fs => (i, "<nothing>", f) :: table_extra (S i) fs
  end.

Fixpoint table_diff (i : nat) (expected found : list string) {struct expected}
    : list (nat * string * string) :=
  match expected with
  | [] => table_extra i found
  | e :: es =>
      match found with
      | [] => (i, e, "<missing>") :: table_diff (S i) es []
      | f :: fs => (if String.eqb e f then [] else [(i, e, f)]) ++ table_diff (S i) es fs
      end
  end.

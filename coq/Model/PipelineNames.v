(** The source names of the pipeline's order tables, derived from the
    literals [checker_order] and [stage_order] the model (and hence every C01 /
    C02 theorem) is built on.  The checkers and stages the model does not
    cover are named explicitly with their position: they are switched off in
    the harness (hosts-file container, safe search; DDR, DHCP hosts / addrs,
    ipset).  No proofs here. *)
From Coq Require Import List String Bool Arith.
From AGH Require Import Model.Pipeline.
Import ListNotations.
Local Open Scope string_scope.

Definition checker_fn (k : checker) : string :=
  match k with
  | ChkRules => "matchHost"
  | ChkServices => "matchBlockedServicesRules"
  | ChkSafeBrowsing => "checkSafeBrowsing"
  | ChkParental => "checkParental"
  end.

Definition stage_fn (s : stage) : string :=
  match s with
  | StInitial => "processInitial"
  | StFilterBefore => "processFilteringBeforeRequest"
  | StUpstream => "processUpstream"
  | StFilterAfter => "processFilteringAfterResponse"
  | StLog => "processQueryLogsAndStats"
  end.

(** The hosts-file container runs first, safe search last; the modelled
    checkers in between, in the model's order. *)
Definition expected_checkers : list string :=
  ["matchSysHosts"] ++ map checker_fn checker_order ++ ["checkSafeSearch"].

(** The modelled stages in the model's order, with the unmodelled ones at
    their places. *)
Definition expected_stages : list string :=
  match map stage_fn stage_order with
  | [ini; before; up; after; lg] =>
      [ini; "processDDRQuery"; "processDHCPHosts"; "processDHCPAddrs"; before; up; after; "ipset.process"; lg]
  | other => other
  end.

(** Positions where two tables differ: (index, expected, found). *)
Fixpoint table_extra (i : nat) (found : list string) : list (nat * string * string) :=
  match found with
  | [] => []
  | f :: fs => (i, "<nothing>", f) :: table_extra (S i) fs
  end.

Fixpoint table_diff (i : nat) (expected found : list string) {struct expected}
    : list (nat * string * string) :=
  match expected with
  | [] => table_extra i found
  | e :: es =>
      match found with
      | [] => (i, e, "<missing>") :: table_diff (S i) es []
      | f :: fs => (if String.eqb e f then [] else [(i, e, f)]) ++ table_diff (S i) es fs
      end
  end.

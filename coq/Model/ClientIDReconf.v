(** C16 (round 4): the ClientID of a request from the proxy's context to
    [dctx.clientID], across reconfigurations of the server.  No proofs here.

    dnsproxy gives every request context [RequestID: p.counter.Add(1)]
    (proxy/dnscontext.go), calls [Server.HandleBefore] (beforerequest.go: the
    ClientID that [clientIDFromDNSContext] extracted is put into
    [Server.clientIDCache] under the RequestID when it is not empty) and then
    the request handler, whose [Server.processInitial] (process.go) reads the
    cache under the same RequestID unless it returns early.  [Server.Prepare]
    (dnsforward.go; reached by Reconfigure from every settings handler)
    installs the new TLS settings and a NEW proxy, whose counter starts again,
    and clears the cache.  The cache itself is the C04 model
    (Model/ClientIDCache.v: golibs LRU cache, MaxCount 1024).

    [clears] is the one point where the tree before the fix
    "dnsforward: forget saved ClientIDs when a new proxy is installed"
    differed: [clears = false] is that tree, kept for the refutation in
    Proofs/ClientIDReconf.v. *)
From Coq Require Import List NArith Bool.
From AGH Require Import Base.Run Base.Bytes Model.ClientID Model.ClientIDCache.
Import ListNotations.
Local Open Scope N_scope.

(** What the hook sees of a request, and whether processInitial returns before
    it reads the cache ([q_early]: AAAA disabled, the Firefox canary domain,
    the health-check name). *)
Record req_in := {
  q_proto : proto;
  q_sni : option bytes;        (* server name of the TLS / QUIC connection *)
  q_http : option doh_req;     (* the HTTP request of a DoH context *)
  q_early : bool;
}.

(** A request context that exists: its RequestID, what it is, and what
    HandleBefore made of it. *)
Record pending := { p_rid : N; p_in : req_in; p_res : cid_res }.

Record srv := {
  s_host : bytes;              (* conf.TLSConf.ServerName *)
  s_strict : bool;             (* conf.TLSConf.StrictSNICheck *)
  s_counter : N;               (* the current proxy's request counter *)
  s_cache : cache;             (* Server.clientIDCache *)
  s_reqs : list pending;       (* request contexts in order of arrival *)
}.

(** NewServer + the first Prepare. *)
Definition srv_init (host : bytes) (strict : bool) : srv :=
  {| s_host := host; s_strict := strict; s_counter := 0; s_cache := []; s_reqs := [] |}.

Inductive op :=
  | OArrive (q : req_in)        (* the proxy creates the context and calls HandleBefore *)
  | OProcess (i : nat)          (* the handler of the i-th context (0-based) runs processInitial *)
  | OReconf (host : bytes) (strict : bool).   (* Prepare with these TLS settings *)

Inductive obs :=
  | BArrive (rid : N) (r : cid_res)   (* RequestID given, result of the hook *)
  | BProcess (cid : bytes)            (* dctx.clientID after processInitial *)
  | BEarly                            (* processInitial returned before reading *)
  | BRefused                          (* the hook failed the request: no handler call *)
  | BNoSuch                           (* no such context *)
  | BReconf.

Definition hook_value (r : cid_res) : bytes :=
  match r with CidOk id => id | CidErr _ => [] end.

Definition arrive (cf : cache_conf) (st : srv) (q : req_in) : srv * obs :=
  let rid := s_counter st + 1 in
  let r := client_id_of (q_proto q) (s_host st) (s_strict st) (q_sni q) (q_http q) in
  let c := match hook_value r with
           | [] => s_cache st
           | id => cache_set cf rid id (s_cache st)
           end in
  ({| s_host := s_host st; s_strict := s_strict st; s_counter := rid; s_cache := c;
      s_reqs := s_reqs st ++ [{| p_rid := rid; p_in := q; p_res := r |}] |},
   BArrive rid r).

Definition with_cache (st : srv) (c : cache) : srv :=
  {| s_host := s_host st; s_strict := s_strict st; s_counter := s_counter st; s_cache := c;
     s_reqs := s_reqs st |}.

Definition process (st : srv) (i : nat) : srv * obs :=
  match nth_error (s_reqs st) i with
  | None => (st, BNoSuch)
  | Some p =>
      match p_res p with
      | CidErr _ => (st, BRefused)
      | CidOk _ =>
          if q_early (p_in p) then (st, BEarly)
          else match cache_get (p_rid p) (s_cache st) with
               | (Some v, c) => (with_cache st c, BProcess v)
               | (None, c) => (with_cache st c, BProcess [])
               end
      end
  end.

Definition reconf (clears : bool) (st : srv) (host : bytes) (strict : bool) : srv * obs :=
  ({| s_host := host; s_strict := strict; s_counter := 0;
      s_cache := if clears then [] else s_cache st;
      s_reqs := s_reqs st |}, BReconf).

Definition step (clears : bool) (cf : cache_conf) (st : srv) (o : op) : srv * obs :=
  match o with
  | OArrive q => arrive cf st q
  | OProcess i => process st i
  | OReconf host strict => reconf clears st host strict
  end.

Fixpoint run (clears : bool) (cf : cache_conf) (st : srv) (ops : list op) : srv * list obs :=
  match ops with
  | [] => (st, [])
  | o :: ops' =>
      let (st1, b) := step clears cf st o in
      let (st2, bs) := run clears cf st1 ops' in
      (st2, b :: bs)
  end.

(** The server as it is: Prepare clears the cache; the server's cache
    configuration. *)
Definition run_server := run true server_cache_conf.

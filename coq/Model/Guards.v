(** C05: which lock guards which field, as declared by the comments in the
    source, and the shape of the generated lock table (Gen/LockTable.v).

    Fields and locks are named by their named struct type:
    "pkg.Type.field".  tools/locktable READS [guard_table] and
    [mutating_methods] from this file (one pair per line), so this is the only
    place where the guard map is written down. *)
From Coq Require Import List String Bool Arith.
From AGH Require Import Base.Conc.
Import ListNotations.
Local Open Scope string_scope.

(** field, guarding locks: a write must hold ALL of them in write mode, a read
    ANY of them.  A second guard "home.homeContext.controlLock" is listed for
    fields that are only ever written by state-changing admin handlers (which
    run under that global lock, see home.ensure) and are also read by such
    handlers outside the module's own lock. *)
Definition guard_table : list (string * list string) := [
  (* internal/client/storage.go: "mu protects indexes of persistent and runtime clients" *)
  ("client.Storage.index", ["client.Storage.mu"]);
  ("client.Storage.runtimeIndex", ["client.Storage.mu"]);
  ("client.index.nameToUID", ["client.Storage.mu"]);
  ("client.index.clientIDToUID", ["client.Storage.mu"]);
  ("client.index.ipToUID", ["client.Storage.mu"]);
  ("client.index.macToUID", ["client.Storage.mu"]);
  ("client.index.uidToClient", ["client.Storage.mu"]);
  ("client.index.subnetToUID", ["client.Storage.mu"]);
  ("client.runtimeIndex.index", ["client.Storage.mu"]);
  ("client.upstreamManager.uidToCustomConf", ["client.Storage.mu"]);
  ("client.upstreamManager.commonConf", ["client.Storage.mu"]);
  ("client.upstreamManager.confUpdate", ["client.Storage.mu"]);
  (* internal/stats/stats.go: "currMu protects curr", "confMu protects ignored, limit, and enabled" *)
  ("stats.StatsCtx.curr", ["stats.StatsCtx.currMu"]);
  ("stats.StatsCtx.ignored", ["stats.StatsCtx.confMu"]);
  ("stats.StatsCtx.limit", ["stats.StatsCtx.confMu"]);
  ("stats.StatsCtx.enabled", ["stats.StatsCtx.confMu"]);
  (* internal/querylog/qlog.go: "confMu protects conf", "bufferLock protects buffer" *)
  ("querylog.queryLog.conf", ["querylog.queryLog.confMu"; "home.homeContext.controlLock"]);
  ("querylog.queryLog.buffer", ["querylog.queryLog.bufferLock"]);
  ("querylog.queryLog.flushPending", ["querylog.queryLog.bufferLock"]);
  ("querylog.queryLog.logFile", ["querylog.queryLog.confMu"]);
  ("querylog.queryLog.findClient", ["querylog.queryLog.confMu"]);
  (* internal/dhcpd/v4_unix.go: "leasesLock protects leases, hostsIndex, ipIndex, and leasedOffsets" *)
  ("dhcpd.v4Server.leases", ["dhcpd.v4Server.leasesLock"]);
  ("dhcpd.v4Server.hostsIndex", ["dhcpd.v4Server.leasesLock"]);
  ("dhcpd.v4Server.ipIndex", ["dhcpd.v4Server.leasesLock"]);
  ("dhcpd.v4Server.leasedOffsets", ["dhcpd.v4Server.leasesLock"]);
  ("dhcpd.v6Server.leases", ["dhcpd.v6Server.leasesLock"]);
  (* internal/dnsforward/dnsforward.go: "serverLock protects Server" *)
  ("dnsforward.Server.access", ["dnsforward.Server.serverLock"]);
  ("dnsforward.Server.conf", ["dnsforward.Server.serverLock"]);
  ("dnsforward.Server.dnsProxy", ["dnsforward.Server.serverLock"]);
  ("dnsforward.Server.internalProxy", ["dnsforward.Server.serverLock"]);
  ("dnsforward.Server.isRunning", ["dnsforward.Server.serverLock"]);
  ("dnsforward.Server.stats", ["dnsforward.Server.serverLock"]);
  ("dnsforward.Server.queryLog", ["dnsforward.Server.serverLock"]);
  ("dnsforward.Server.addrProc", ["dnsforward.Server.serverLock"]);
  ("dnsforward.Server.ipset", ["dnsforward.Server.serverLock"]);
  ("dnsforward.Server.bootstrap", ["dnsforward.Server.serverLock"]);
  ("dnsforward.Server.bootResolvers", ["dnsforward.Server.serverLock"]);
  ("dnsforward.Server.dnsNames", ["dnsforward.Server.serverLock"]);
  ("dnsforward.Server.hasIPAddrs", ["dnsforward.Server.serverLock"]);
  ("dnsforward.Server.dhcpServer", ["dnsforward.Server.serverLock"]);
  ("dnsforward.Server.etcHosts", ["dnsforward.Server.serverLock"]);
  ("dnsforward.Server.privateNets", ["dnsforward.Server.serverLock"]);
  ("dnsforward.Server.sysResolvers", ["dnsforward.Server.serverLock"]);
  ("dnsforward.Server.clientIDCache", ["dnsforward.Server.serverLock"]);
  ("dnsforward.Server.dnsFilter", ["dnsforward.Server.serverLock"]);
  ("dnsforward.Server.anonymizer", ["dnsforward.Server.serverLock"]);
  ("dnsforward.Server.dns64Pref", ["dnsforward.Server.serverLock"]);
  ("dnsforward.Server.localDomainSuffix", ["dnsforward.Server.serverLock"]);
  (* internal/filtering/filtering.go: engineLock (engines and rule storages), "confMu protects conf", "filtersMu protects filter lists" *)
  ("filtering.DNSFilter.rulesStorage", ["filtering.DNSFilter.engineLock"]);
  ("filtering.DNSFilter.filteringEngine", ["filtering.DNSFilter.engineLock"]);
  ("filtering.DNSFilter.rulesStorageAllow", ["filtering.DNSFilter.engineLock"]);
  ("filtering.DNSFilter.filteringEngineAllow", ["filtering.DNSFilter.engineLock"]);
  ("filtering.Config.Filters", ["filtering.Config.filtersMu"]);
  ("filtering.Config.WhitelistFilters", ["filtering.Config.filtersMu"]);
  ("filtering.Config.UserRules", ["filtering.Config.filtersMu"]);
  ("filtering.Config.FilteringEnabled", ["filtering.Config.filtersMu"]);
  ("filtering.Config.FiltersUpdateIntervalHours", ["filtering.Config.filtersMu"]);
  ("filtering.Config.ProtectionEnabled", ["filtering.DNSFilter.confMu"]);
  ("filtering.Config.ProtectionDisabledUntil", ["filtering.DNSFilter.confMu"]);
  ("filtering.Config.BlockingMode", ["filtering.DNSFilter.confMu"]);
  ("filtering.Config.BlockingIPv4", ["filtering.DNSFilter.confMu"]);
  ("filtering.Config.BlockingIPv6", ["filtering.DNSFilter.confMu"]);
  ("filtering.Config.BlockedResponseTTL", ["filtering.DNSFilter.confMu"]);
  ("filtering.Config.SafeBrowsingEnabled", ["filtering.DNSFilter.confMu"]);
  ("filtering.Config.ParentalEnabled", ["filtering.DNSFilter.confMu"]);
  ("filtering.Config.SafeSearchConf", ["filtering.DNSFilter.confMu"]);
  ("filtering.Config.BlockedServices", ["filtering.DNSFilter.confMu"]);
  ("filtering.Config.Rewrites", ["filtering.DNSFilter.confMu"]);
  ("filtering.Config.SafeBrowsingBlockHost", ["filtering.DNSFilter.confMu"]);
  ("filtering.Config.ParentalBlockHost", ["filtering.DNSFilter.confMu"]);
  (* the remaining Config fields (EtcHosts, DataDir, cache sizes, ConfigModified,
     HTTPClient ...) are set once; WriteDiskConfig's `*c = *d.conf` (c aliases
     d.conf) rewrites them with their own values, which the race detector does
     report against every unlocked read.  That single defect is listed under
     the WriteDiskConfig$1 keys; the fields are left out of the map so that it
     is not repeated once per reader. *)
  ("filtering.DNSFilter.conf", ["filtering.DNSFilter.confMu"]);
  ("filtering.DNSFilter.safeSearch", ["filtering.DNSFilter.confMu"]);
  ("filtering.DNSFilter.hostCheckers", ["filtering.DNSFilter.confMu"]);
  ("stats.StatsCtx.filename", ["stats.StatsCtx.confMu"]);
  ("stats.StatsCtx.shouldCountClient", ["stats.StatsCtx.confMu"]);
  ("stats.StatsCtx.unitIDGen", ["stats.StatsCtx.confMu"]);
  (* round 2: the rest of the state named by the property *)
  (* internal/home/tls.go: "mu protects status, certLastMod, conf, and servePlainDNS" *)
  ("home.tlsManager.status", ["home.tlsManager.mu"]);
  ("home.tlsManager.certLastMod", ["home.tlsManager.mu"]);
  ("home.tlsManager.conf", ["home.tlsManager.mu"]);
  ("home.tlsManager.servePlainDNS", ["home.tlsManager.mu"]);
  (* internal/home/signal.go: "mu protects clientStorage and tlsManager" *)
  ("home.signalHandler.clientStorage", ["home.signalHandler.mu"]);
  ("home.signalHandler.tlsManager", ["home.signalHandler.mu"]);
  (* internal/home/auth.go: the session table and the user list; no comment, but
     every method of Auth that touches them (checkSession, storeSession,
     removeSession, findUser, usersList, addUser, ...) takes a.lock *)
  ("home.Auth.sessions", ["home.Auth.lock"]);
  ("home.Auth.users", ["home.Auth.lock"]);
  (* internal/home/authratelimiter.go: "failedAuthsLock protects failedAuths" *)
  ("home.authRateLimiter.failedAuths", ["home.authRateLimiter.failedAuthsLock"]);
  (* internal/home/clients.go: "lock protects all fields" (those that change at
     run time; the storage pointer is set once and the Storage behind it has its
     own mutex, see client.Storage.* above) *)
  ("home.clientsContainer.clientChecker", ["home.clientsContainer.lock"]);
  (* internal/dhcpd/v6_unix.go: ipAddrs is the occupancy map of leases, updated
     by addLease / leaseRemoveSwapByIndex together with leases under leasesLock *)
  ("dhcpd.v6Server.ipAddrs", ["dhcpd.v6Server.leasesLock"]);
  (* internal/filtering/safesearch/safesearch.go: "mu protects engine";
     internal/ipset/ipset_linux.go: "mu protects all properties below" (the two
     netfilter connections).  Their constructors initialise these fields
     through helper methods (NewDefault -> resetEngine, newManagerWithDialer ->
     dialNetfilter / parseIpsetConfig -> ipsets -> ipsetProps) on the object
     that is not published yet; the translator follows an unpublished receiver
     into such helpers (round 3) and skips those initialisations only there. *)
  ("filtering/safesearch.Default.engine", ["filtering/safesearch.Default.mu"]);
  ("ipset.manager.ipv4Conn", ["ipset.manager.mu"]);
  ("ipset.manager.ipv6Conn", ["ipset.manager.mu"]);
  (* internal/filtering/rulelist/{engine,textengine}.go: "mu protects engine and storage" *)
  ("filtering/rulelist.Engine.engine", ["filtering/rulelist.Engine.mu"]);
  ("filtering/rulelist.Engine.storage", ["filtering/rulelist.Engine.mu"]);
  ("filtering/rulelist.TextEngine.engine", ["filtering/rulelist.TextEngine.mu"]);
  ("filtering/rulelist.TextEngine.storage", ["filtering/rulelist.TextEngine.mu"]);
  (* internal/ipset/ipset_linux.go: "mu protects all properties below" *)
  ("ipset.manager.addedIPs", ["ipset.manager.mu"]);
  (* internal/updater/updater.go: "mu protects all fields below" *)
  ("updater.Updater.currentExeName", ["updater.Updater.mu"]);
  ("updater.Updater.updateDir", ["updater.Updater.mu"]);
  ("updater.Updater.packageName", ["updater.Updater.mu"]);
  ("updater.Updater.backupDir", ["updater.Updater.mu"]);
  ("updater.Updater.backupExeName", ["updater.Updater.mu"]);
  ("updater.Updater.updateExeName", ["updater.Updater.mu"]);
  ("updater.Updater.unpackedFiles", ["updater.Updater.mu"]);
  ("updater.Updater.newVersion", ["updater.Updater.mu"]);
  ("updater.Updater.packageURL", ["updater.Updater.mu"]);
  ("updater.Updater.prevCheckError", ["updater.Updater.mu"]);
  ("updater.Updater.prevCheckTime", ["updater.Updater.mu"]);
  ("updater.Updater.prevCheckResult", ["updater.Updater.mu"]);
  (* internal/aghuser/{sessionstorage,db}.go: "mu protects sessions", "mu protects all properties below" *)
  ("aghuser.DefaultSessionStorage.sessions", ["aghuser.DefaultSessionStorage.mu"]);
  ("aghuser.DefaultDB.loginToUserID", ["aghuser.DefaultDB.mu"]);
  ("aghuser.DefaultDB.userIDToUser", ["aghuser.DefaultDB.mu"]);
  (* internal/dhcpsvc/server.go: "leasesMu protects the leases index as well as leases in the interfaces" *)
  ("dhcpsvc.DHCPServer.leases", ["dhcpsvc.DHCPServer.leasesMu"]);
  (* internal/filtering/rewrite/storage.go: "mu protects items" *)
  ("filtering/rewrite.DefaultStorage.items", ["filtering/rewrite.DefaultStorage.mu"])
].

(** Method names that modify their receiver: a call of such a method on a value
    loaded from a guarded field (or on the field's address) counts as a write
    of the field. *)
Definition mutating_methods : list string := [
  "add"; "Add"; "Push"; "Clear"; "Set"; "Del"; "Delete"; "Remove"; "Reset";
  "set"; "remove"; "clear"; "Store"; "Append"; "deserialize"
].

(** A field that has no write site reachable from any root (set once before the
    server starts) may be read without its guard; the check decides this from
    the regenerated table on every run, so the first runtime write of such a
    field makes all its unlocked reads reportable.

    Guards of a field; a field outside the table has none, so no access to it
    passes the check. *)
Definition guards (f : field) : list lock :=
  match find (fun p => String.eqb (fst p) f) guard_table with
  | Some p => snd p
  | None => []
  end.

(** * Shape of the generated table *)

Record access := Access {
  a_root : string;     (* one root from which the access is reached with this lock set *)
  a_fn : string;       (* function containing the access *)
  a_field : field;
  a_write : bool;
  a_held : held;       (* locks certainly held at the access *)
  a_pos : string       (* file:line *)
}.

Record order_pair := OrderPair {
  o_root : string;
  o_fn : string;
  o_held : lock * mode;   (* held while ... *)
  o_acq : lock * mode;    (* ... this one is acquired *)
  o_pos : string
}.

(** One acquisition site with EVERYTHING held there (round 4), abstract locks
    included: an abstract lock stands for an external blocking resource, e.g.
    "stats.StatsCtx.db.writer" for bbolt's single-writer lock of the statistics
    database, held from db.Begin(true) to tx.Commit() / tx.Rollback()
    (Gen/LockTableAcq.v lists them with what they stand for). *)
Record acq_site := AcqSite {
  s_root : string;
  s_fn : string;
  s_held : held;          (* all locks held while ... *)
  s_acq : lock * mode;    (* ... this one is acquired *)
  s_pos : string
}.

(** Stable name of an access site for KNOWN_FINDINGS.txt: field@function. *)
Definition access_key (a : access) : string := a_field a ++ "@" ++ a_fn a.
Definition order_key (o : order_pair) : string :=
  fst (o_held o) ++ "<" ++ fst (o_acq o) ++ "@" ++ o_fn o.
(** the pair keys of an acquisition site: one per held lock, spelt like [order_key] *)
Definition site_keys (s : acq_site) : list string :=
  map (fun y => fst y ++ "<" ++ fst (s_acq s) ++ "@" ++ s_fn s) (s_held s).

(** C16: executable model of the strict server-name check done in the TLS
    handshake (internal/dnsforward/config.go as it is in /repo):

      isWildcard, matchesDomainWildcard, anyNameMatches (with the
      slices.BinarySearch loop of go1.24 as written), the part of
      Server.prepareTLS that collects the names of the certificate (SAN DNS
      names sorted with slices.Sort, else the subject's CommonName), and
      Server.onGetCertificate.

    The gate in front of anyNameMatches, netutil.IsValidHostname ||
    netutil.IsValidIPString (golibs v0.32.8), is modelled for ASCII names:
    IsValidHostname completely (idna.ToASCII is the identity on ASCII names
    without an "xn--" label: trusted), IsValidIPString with its scan of the
    first five bytes and the dotted-quad branch; the verdict of the IPv6 branch
    is an input [v6] (the harness supplies what golibs answered).
    No proofs in this file. *)
From Coq Require Import List NArith Bool Arith.
From AGH Require Import Base.Run Base.Bytes Base.Dom.
Import ListNotations.
Local Open Scope N_scope.

Definition star : N := 42.

(** isWildcard: strings.HasPrefix(host, "*.") *)
Definition is_wildcard (h : bytes) : bool := has_prefix [star; dot] h.

(** matchesDomainWildcard: isWildcard(pat) && strings.HasSuffix(host, pat[1:]) *)
Definition matches_domain_wildcard (host pat : bytes) : bool :=
  is_wildcard pat && has_suffix (skipn 1 pat) host.

(** Go's < on strings: byte-wise lexicographic, a proper prefix is smaller. *)
Fixpoint cmp_bytes (a b : bytes) : comparison :=
  match a, b with
  | [], [] => Eq
  | [], _ :: _ => Lt
  | _ :: _, [] => Gt
  | x :: a', y :: b' =>
      match x ?= y with
      | Eq => cmp_bytes a' b'
      | c => c
      end
  end.

Definition ltb_bytes (a b : bytes) : bool :=
  match cmp_bytes a b with Lt => true | _ => false end.

Definition leb_bytes (a b : bytes) : bool := negb (ltb_bytes b a).

(** slices.BinarySearch: the loop  for i < j { h := (i+j)>>1; if x[h] < t
    { i = h+1 } else { j = h } }.  [None] = out of fuel (never with the fuel
    [binary_search] gives it). *)
Fixpoint bsearch_loop (fuel : nat) (x : list bytes) (t : bytes) (i j : nat) : option nat :=
  match fuel with
  | O => None
  | S f =>
      if Nat.ltb i j then
        let h := Nat.div2 (i + j) in
        if ltb_bytes (nth h x []) t then bsearch_loop f x t (h + 1) j
        else bsearch_loop f x t i h
      else Some i
  end.

Definition binary_search (x : list bytes) (t : bytes) : bool :=
  match bsearch_loop (S (length x)) x t 0 (length x) with
  | Some i => Nat.ltb i (length x) && eqb_bytes (nth i x []) t
  | None => false
  end.

(** netutil.IsValidHostname on an ASCII name. *)
Definition is_valid_hostname_label (l : bytes) : bool :=
  match validate_hostname_label l with None => true | Some _ => false end.

Definition has_valid_tld_chars (l : bytes) : bool := existsb (fun b => negb (is_digit b)) l.

Definition is_valid_tld_label (l : bytes) : bool :=
  is_valid_hostname_label l && has_valid_tld_chars l.

Definition max_domain_name_len : nat := 253.

Definition is_valid_hostname (name : bytes) : bool :=
  match name with
  | [] => false
  | _ :: _ =>
      if Nat.ltb max_domain_name_len (length name) then false
      else
        let ls := split dot name in
        forallb is_valid_hostname_label (removelast ls) && is_valid_tld_label (last ls [])
  end.

(** netutil.isIPv4Label: 0..255 in decimal without leading zeros. *)
Definition digit_val (b : N) : N := b - 48.

Definition is_ipv4_label (l : bytes) : bool :=
  match l with
  | [] => false
  | [c] => is_digit c
  | c :: _ =>
      if Nat.ltb 3 (length l) then false
      else if c =? 48 then false
      else forallb is_digit l &&
           (fold_left (fun acc b => acc * 10 + digit_val b) l 0 <=? 255)
  end.

(** netutil.isValidIPv4String: exactly four labels, each an IPv4 label. *)
Definition is_valid_ipv4_string (s : bytes) : bool :=
  let ls := split dot s in
  Nat.eqb (length ls) 4 && forallb is_ipv4_label ls.

(** netutil.IsValidIPString: the first '.' or ':' among the first five bytes
    decides the family; none there = not an address. *)
Definition colon_b : N := 58.

Fixpoint ip_scan (fuel : nat) (rest whole : bytes) (v6 : bool) : bool :=
  match fuel with
  | O => false
  | S f =>
      match rest with
      | [] => false
      | c :: r =>
          if c =? dot then is_valid_ipv4_string whole
          else if c =? colon_b then v6
          else ip_scan f r whole v6
      end
  end.

Definition is_valid_ip_string (s : bytes) (v6 : bool) : bool := ip_scan 5 s s v6.

(** The gate of anyNameMatches. *)
Definition sni_wellformed (sni : bytes) (v6 : bool) : bool :=
  is_valid_hostname sni || is_valid_ip_string sni v6.

(** anyNameMatches *)
Definition any_name_matches (names : list bytes) (sni : bytes) (v6 : bool) : bool :=
  if negb (sni_wellformed sni v6) then false
  else if binary_search names sni then true
  else existsb (fun dn => matches_domain_wildcard sni dn) names.

(** slices.Sort on strings: a sorted permutation (insertion sort here; the
    result of any correct sort is the same list, see Proofs/CertNames.v). *)
Fixpoint insert_name (n : bytes) (l : list bytes) : list bytes :=
  match l with
  | [] => [n]
  | m :: r => if leb_bytes n m then n :: l else m :: insert_name n r
  end.

Definition sort_names (l : list bytes) : list bytes := fold_right insert_name [] l.

(** What the code reads from the parsed certificate. *)
Record cert := { c_dns_names : list bytes; c_common_name : bytes }.

(** Server.prepareTLS with StrictSNICheck: s.dnsNames. *)
Definition collect_names (c : cert) : list bytes :=
  match c_dns_names c with
  | [] => [c_common_name c]
  | _ :: _ => sort_names (c_dns_names c)
  end.

(** Server.onGetCertificate after Server.prepareTLS: [true] = the certificate
    is handed out, [false] = the handshake is terminated ("invalid SNI"). *)
Definition handshake_accepts (strict : bool) (c : cert) (sni : bytes) (v6 : bool) : bool :=
  if strict then any_name_matches (collect_names c) sni v6 else true.

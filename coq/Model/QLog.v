(** C07 model: the query log (internal/querylog: qlog.go, querylogfile.go,
    search.go, searchcriterion.go, searchparams.go, http.go).

    State: ring buffer, current file, rotated file (entries oldest first).
    The file part of a search goes through the reader model of C20
    (Model/QLogFile.v) on the (length, time) projection of the files.
    Flushing after an [add] is synchronous here (the harness waits for the
    asynchronous flush: the property's stated exclusion).

    No proofs in this file. *)
From Coq Require Import ZArith NArith List Bool.
From AGH Require Import Base.Run Model.QLogFile.
Import ListNotations.
Local Open Scope Z_scope.

(** ** Entries, clients, configuration *)
Record entry := {
  e_id : N;            (* identity given by the harness; not used by the model *)
  e_time : Z;          (* Unix ns *)
  e_len : Z;           (* bytes of the JSON line, without newline *)
  e_host : bytes; e_ip : bytes; e_cid : bytes;
  e_reason : Z;        (* filtering.Reason *)
  e_filtered : bool    (* Result.IsFiltered *)
}.

Record client := { c_name : bytes; c_ignore : bool }.

Record config := {
  enabled : bool; file_enabled : bool; mem_size : Z;
  ignored : list bytes;                 (* hosts the ignore engine matches (oracle) *)
  clients : list (bytes * client)       (* FindClient table: id -> client *)
}.

Record state := {
  cfg : config;
  buf : list entry;                     (* ring buffer, oldest first *)
  cur : option (list entry);            (* querylog.json, None = absent *)
  rot : option (list entry);            (* querylog.json.1 *)
  pending : bool                        (* queryLog.flushPending *)
}.

Definition init (c : config) : state := {| cfg := c; buf := []; cur := None; rot := None; pending := false |}.

(** ** Operations *)
Definition cap (c : config) : Z := Z.max 1 (mem_size c).

Definition lenZ {A} (l : list A) : Z := Z.of_nat (length l).

(** RingBuffer.Push: the oldest element is overwritten when full. *)
Definition push (c : config) (b : list entry) (e : entry) : list entry :=
  let b' := b ++ [e] in
  if lenZ b' >? cap c then tl b' else b'.

(** flushLogBuffer: on an empty buffer encodeEntries returns an error before
    it touches anything (also the pending flag); else append, clear the
    buffer, reset the flag. *)
Definition flush (s : state) : state :=
  match buf s with
  | [] => s
  | b => {| cfg := cfg s; buf := [];
            cur := Some (match cur s with Some c => c ++ b | None => b end); rot := rot s;
            pending := false |}
  end.

(** Add without the goroutine it may spawn: the entry is pushed; when no
    flush is pending, file logging is on and the buffer is full, the flag is
    set (and `go flushLogBuffer` is started: a later [flush]). *)
Definition add_async (s : state) (e : entry) : state :=
  if negb (enabled (cfg s)) then s else
  let b := push (cfg s) (buf s) e in
  {| cfg := cfg s; buf := b; cur := cur s; rot := rot s;
     pending := pending s || (file_enabled (cfg s) && (lenZ b >=? mem_size (cfg s))) |}.

(** Add followed at once by the flush it spawned (the harness waits for it:
    the property's stated exclusion). *)
Definition add (s : state) (e : entry) : state :=
  let s' := add_async s e in
  if negb (pending s) && pending s' then flush s' else s'.

(** rotate: rename querylog.json -> querylog.json.1 when it exists. *)
Definition rotate (s : state) : state :=
  match cur s with
  | None => s
  | Some c => {| cfg := cfg s; buf := buf s; cur := None; rot := Some c; pending := pending s |}
  end.

(** clear also resets the pending flag (a flush goroutine that comes later
    finds the buffer empty and leaves the flag alone). *)
Definition clear (s : state) : state :=
  {| cfg := cfg s; buf := []; cur := None; rot := None; pending := false |}.

(** Runtime configuration change (HTTP API / client settings). *)
Definition set_config (s : state) (en : bool) (ign : list bytes) (cl : list (bytes * client)) : state :=
  {| cfg := {| enabled := en; file_enabled := file_enabled (cfg s); mem_size := mem_size (cfg s);
               ignored := ign; clients := cl |};
     buf := buf s; cur := cur s; rot := rot s; pending := pending s |}.

(** Shutdown (flush when file logging is on) + newQueryLog with [c]. *)
Definition restart (s : state) (c : config) : state :=
  let s' := if file_enabled (cfg s) then flush s else s in
  {| cfg := c; buf := []; cur := cur s'; rot := rot s'; pending := false |}.

(** ** Matching *)
Definition lower (b : N) : N := if (65 <=? b)%N && (b <=? 90)%N then (b + 32)%N else b.
Definition fold_case (s : bytes) : bytes := map lower s.

(** U+212A (Kelvin sign, E2 84 AA) and U+017F (long s, C5 BF) are the only
    non-ASCII code points whose simple case fold is an ASCII letter (k, s):
    strings.EqualFold treats them as equal to K/k and S/s.  Every other
    non-ASCII byte is compared as it is. *)
Fixpoint fold_ascii_orbit (s : bytes) : bytes :=
  match s with
  | [] => []
  | b0 :: r0 =>
      match r0 with
      | [] => [b0]
      | b1 :: r1 =>
          if ((b0 =? 197) && (b1 =? 191))%N then 115%N :: fold_ascii_orbit r1
          else match r1 with
               | b2 :: r2 =>
                   if ((b0 =? 226) && (b1 =? 132) && (b2 =? 170))%N then 107%N :: fold_ascii_orbit r2
                   else b0 :: fold_ascii_orbit r0
               | [] => b0 :: fold_ascii_orbit r0
               end
      end
  end.

(** strings.EqualFold (rune-wise, lengths in bytes may differ). *)
Definition equal_fold (a b : bytes) : bool :=
  eqb_bytes (fold_case (fold_ascii_orbit a)) (fold_case (fold_ascii_orbit b)).

Fixpoint prefix_b (p s : bytes) : bool :=
  match p, s with
  | [], _ => true
  | x :: p, y :: s => (x =? y)%N && prefix_b p s
  | _, [] => false
  end.

Fixpoint contains_b (s sub : bytes) : bool :=
  prefix_b sub s || match s with [] => false | _ :: r => contains_b r sub end.

(** Containment (searchcriterion.go containsFold): EqualFold on windows of the
    BYTE length of the term; for an ASCII term such a window matches only if
    it consists of ASCII bytes, so the two code points above play no role. *)
Definition contains_fold (s sub : bytes) : bool := contains_b (fold_case s) (fold_case sub).

Inductive crit :=
  | CTerm (value ascii : bytes) (strict : bool)
  | CStatus (code : Z).     (* index in filteringStatusValues *)

Definition is_empty (b : bytes) : bool := match b with [] => true | _ => false end.

Fixpoint assoc (k : bytes) (t : list (bytes * client)) : option client :=
  match t with
  | [] => None
  | (k', c) :: r => if eqb_bytes k k' then Some c else assoc k r
  end.

(** queryLog.client: ClientID first, then the address. *)
Definition find_client (c : config) (e : entry) : option client :=
  let ids := (if is_empty (e_cid e) then [] else [e_cid e]) ++
             (if is_empty (e_ip e) then [] else [e_ip e]) in
  fold_right (fun i acc => match assoc i (clients c) with Some x => Some x | None => acc end) None ids.

Definition client_name (c : config) (e : entry) : bytes :=
  match find_client c e with Some x => c_name x | None => [] end.

Definition term_match (c : config) (e : entry) (v a : bytes) (strict : bool) : bool :=
  let name := client_name c e in
  if strict then
    equal_fold (e_host e) v || (negb (is_empty a) && equal_fold (e_host e) a) ||
    equal_fold (e_cid e) v || equal_fold (e_ip e) v || equal_fold name v
  else
    contains_fold (e_cid e) v || contains_fold (e_host e) v ||
    (negb (is_empty a) && contains_fold (e_host e) a) ||
    contains_fold (e_ip e) v || contains_fold name v.

Definition reason_in (r : Z) (l : list Z) : bool := existsb (Z.eqb r) l.

(** ctFilteringStatusCase; reasons: 0 NotFound, 1 AllowList, 2 Error,
    3 BlockList, 4 SafeBrowsing, 5 Parental, 6 Invalid, 7 SafeSearch,
    8 BlockedService, 9 Rewritten, 10 RewrittenAutoHosts, 11 RewrittenRule. *)
Definition status_match (code : Z) (r : Z) (f : bool) : bool :=
  match code with
  | 0 => true                                         (* all *)
  | 1 => f || reason_in r [1; 9; 10; 11]              (* filtered *)
  | 2 => f && reason_in r [3; 8]                      (* blocked *)
  | 3 => f && (r =? 8)                                (* blocked_services *)
  | 4 => f && (r =? 4)                                (* blocked_safebrowsing *)
  | 5 => f && (r =? 5)                                (* blocked_parental *)
  | 6 => r =? 1                                       (* whitelisted *)
  | 7 => reason_in r [9; 10; 11]                      (* rewritten *)
  | 8 => f && (r =? 7)                                (* safe_search *)
  | 9 => negb (reason_in r [3; 8; 1])                 (* processed *)
  | _ => false
  end.

Definition crit_match (c : config) (e : entry) (k : crit) : bool :=
  match k with
  | CTerm v a s => term_match c e v a s
  | CStatus code => status_match code (e_reason e) (e_filtered e)
  end.

(** searchCriterion.quickMatch on the raw line: same term test on the four
    values read from the line; status criteria always pass. *)
Definition crit_quick (c : config) (e : entry) (k : crit) : bool :=
  match k with
  | CTerm v a s => term_match c e v a s
  | CStatus _ => true
  end.

Record params := {
  p_older : option Z; p_limit : Z; p_offset : Z; p_scan : Z; p_crits : list crit
}.

Definition older_ok (p : params) (e : entry) : bool :=
  match p_older p with None => true | Some t => e_time e <? t end.

Definition p_match (c : config) (p : params) (e : entry) : bool :=
  older_ok p e && forallb (crit_match c e) (p_crits p).

Definition is_ignored (c : config) (e : entry) : bool := existsb (eqb_bytes (e_host e)) (ignored c).

Definition client_ignored (c : config) (e : entry) : bool :=
  match find_client c e with Some x => c_ignore x | None => false end.

(** ** Search *)
Definition search_memory (s : state) (p : params) : list entry :=
  if mem_size (cfg s) =? 0 then [] else
  filter (fun e => negb (is_ignored (cfg s) e || client_ignored (cfg s) e) && p_match (cfg s) p e)
         (rev (buf s)).

(** readNextEntry after the line has been read: the entry if it is to be
    returned, and the stamp reported for it (always the entry's own time). *)
Definition process (c : config) (p : params) (e : entry) : option entry * Z :=
  if negb (forallb (crit_quick c e) (p_crits p)) then (None, e_time e)
  else if is_ignored c e then (None, e_time e)
  else if client_ignored c e then (None, e_time e)
  else if negb (p_match c p e) then (None, e_time e)
  else (Some e, e_time e).

(** readEntries over the lines the reader yields. [total] lines processed,
    [n] entries collected so far, [oldest] stamp of the last processed line. *)
Fixpoint collect (c : config) (p : params) (lim : Z) (ls : list (option entry))
    (total n oldest : Z) : list entry * Z :=
  (* the loop condition is tested before the next line is read: an exhausted
     window reports the last scanned stamp even at the end of the files *)
  if (0 <? p_scan p) && (p_scan p <=? total) then ([], oldest) else
  match ls with
  | [] => ([], 0)
  | x :: ls =>
      let (ent, ts) := match x with Some e => process c p e | None => (None, 0) end in
      match ent with
      | None => collect c p lim ls (total + 1) n ts
      | Some e =>
          if n + 1 =? lim then ([e], ts)
          else let (r, o) := collect c p lim ls (total + 1) (n + 1) ts in (e :: r, o)
      end
  end.

Definition files_of (s : state) : list (list entry) :=
  (match rot s with Some r => [r] | None => [] end) ++
  (match cur s with Some c => [c] | None => [] end).

Definition qf (es : list entry) : qfile := map (fun e => (e_len e, e_time e)) es.

(** The entry whose line starts at byte [p] and has [len] bytes. *)
Fixpoint entry_at (es : list entry) (o p len : Z) : option entry :=
  match es with
  | [] => None
  | e :: r => if o =? p then (if e_len e =? len then Some e else None)
              else entry_at r (o + e_len e + 1) p len
  end.

Definition lookup (fs : list (list entry)) (x : Z * Z * Z) : option entry :=
  let '(i, st, len) := x in
  match nth_error fs (Z.to_nat i) with
  | Some es => entry_at es 0 st len
  | None => None
  end.

(** seekRecord: position the reader after the cursor entry; [None] = the
    reader is dropped (no file results). *)
Definition seek_record (me bf : Z) (older : option Z) (r : reader) : option reader :=
  match older with
  | None => Some (reader_seek_start r)
  | Some ts =>
      let (res, r') := reader_seek_ts me ts r in
      match res with
      | RFound => match reader_read_next me bf r' with
                  | (None, _) => None
                  | (Some _, r'') => Some r''
                  end
      | RFellBack => Some r'
      | RNotFound | ROther => None
      end
  end.

Definition total_lines (fs : list (list entry)) : nat := fold_right (fun f n => (length f + n)%nat) O fs.

Definition search_files (me bf : Z) (s : state) (p : params) : list entry * Z :=
  let fs := files_of s in
  match seek_record me bf (p_older p) (new_reader (map qf fs)) with
  | None => ([], 0)
  | Some r =>
      let raw := reader_read_all me bf (S (total_lines fs)) r in
      collect (cfg s) p (p_offset p + p_limit p) (map (lookup fs) raw) 0 0 0
  end.

Fixpoint firstnZ {A} (n : Z) (l : list A) : list A :=
  match l with [] => [] | a :: r => if n <=? 0 then [] else a :: firstnZ (n - 1) r end.

Fixpoint skipnZ {A} (n : Z) (l : list A) : list A :=
  match l with [] => [] | a :: r => if n <=? 0 then l else skipnZ (n - 1) r end.

(** Stable sort, newest first (slices.SortStableFunc with -Compare). *)
Fixpoint insert_desc (x : entry) (l : list entry) : list entry :=
  match l with
  | [] => [x]
  | y :: r => if e_time y >? e_time x then y :: insert_desc x r else x :: l
  end.

Definition sort_desc (l : list entry) : list entry := fold_right insert_desc [] l.

Inductive outcome :=
  | Ok (es : list entry) (oldest : Z)     (* oldest = 0: empty string in the JSON *)
  | BadRequest
  | Panic.

Definition search (me bf : Z) (s : state) (p : params) : outcome :=
  if p_limit p =? 0 then Ok [] 0 else
  let m := search_memory s p in
  let (fe, fo) := search_files me bf s p in
  let tl := p_offset p + p_limit p in
  let all := m ++ fe in
  if (lenZ all >? tl) && (tl <? 0) then Panic else
  let cut := if lenZ all >? tl then firstnZ tl all else all in
  let sorted := sort_desc cut in
  let (es, o) :=
    if p_offset p >? 0 then
      (if lenZ sorted >? p_offset p then (skipnZ (p_offset p) sorted, fo) else ([], 0))
    else (sorted, fo) in
  Ok es (match es with [] => o | _ => e_time (last es (Build_entry 0 0 0 [] [] [] 0 false)) end).

(** ** HTTP layer: parseSearchParams + handleQueryLog *)
Record request := {
  q_older : option (option Z);    (* absent / unparsable / Unix ns *)
  q_limit : option Z;             (* None: absent or not an int64 *)
  q_offset : option Z;
  q_term : option (bytes * bytes * bool);  (* value, IDN form ("" if same), quoted *)
  q_status : option Z             (* index in filteringStatusValues, -1 = unknown value *)
}.

Definition max_int32 : Z := 2147483647.

Definition bad_int (z : Z) : bool := (z <? 0) || (z >? max_int32).

Definition parse (q : request) : option params :=
  match q_older q with
  | Some None => None
  | _ =>
    if match q_limit q with Some l => bad_int l | None => false end then None else
    if match q_offset q with Some o => bad_int o | None => false end then None else
    if match q_status q with Some st => (st <? 0) || (st >? 9) | None => false end then None else
    Some {| p_older := match q_older q with Some (Some t) => Some t | _ => None end;
            p_limit := match q_limit q with Some l => l | None => 500 end;
            p_offset := match q_offset q with Some o => o | None => 0 end;
            (* an explicit offset lifts the scan limit *)
            p_scan := match q_offset q with Some _ => 0 | None => 50000 end;
            p_crits := (match q_term q with Some (v, a, st) => [CTerm v a st] | None => [] end) ++
                       (match q_status q with Some st => [CStatus st] | None => [] end) |}
  end.

Definition handle (me bf : Z) (s : state) (q : request) : outcome :=
  match parse q with None => BadRequest | Some p => search me bf s p end.

(** *** Which requests lift the scan cap (round 7)

    [parseSearchParams] with the cap ([newSearchParams]: maxFileScanEntries
    50000) and the rule that lifts it as parameters.  The code as it is:
    every request that carries a valid [offset], 0 included, scans without a
    cap ([scan_now]); [parse] is [parse_with (scan_now 50000)].  [scan_pos]:
    the cap lifted only for a positive offset. *)
Definition default_scan : Z := 50000.

Definition scan_now (cap : Z) (off : option Z) : Z :=
  match off with Some _ => 0 | None => cap end.

Definition scan_pos (cap : Z) (off : option Z) : Z :=
  match off with Some o => if o >? 0 then 0 else cap | None => cap end.

Definition parse_with (scan : option Z -> Z) (q : request) : option params :=
  match q_older q with
  | Some None => None
  | _ =>
    if match q_limit q with Some l => bad_int l | None => false end then None else
    if match q_offset q with Some o => bad_int o | None => false end then None else
    if match q_status q with Some st => (st <? 0) || (st >? 9) | None => false end then None else
    Some {| p_older := match q_older q with Some (Some t) => Some t | _ => None end;
            p_limit := match q_limit q with Some l => l | None => 500 end;
            p_offset := match q_offset q with Some o => o | None => 0 end;
            p_scan := scan (q_offset q);
            p_crits := (match q_term q with Some (v, a, st) => [CTerm v a st] | None => [] end) ++
                       (match q_status q with Some st => [CStatus st] | None => [] end) |}
  end.

Definition handle_with (scan : option Z -> Z) (me bf : Z) (s : state) (q : request) : outcome :=
  match parse_with scan q with None => BadRequest | Some p => search me bf s p end.

(** [search] behind its two sources: cut, sort, offset, cursor. *)
Definition search_post (p : params) (m fe : list entry) (fo : Z) : outcome :=
  let tl := p_offset p + p_limit p in
  let all := m ++ fe in
  if (lenZ all >? tl) && (tl <? 0) then Panic else
  let cut := if lenZ all >? tl then firstnZ tl all else all in
  let sorted := sort_desc cut in
  let (es, o) :=
    if p_offset p >? 0 then
      (if lenZ sorted >? p_offset p then (skipnZ (p_offset p) sorted, fo) else ([], 0))
    else (sorted, fo) in
  Ok es (match es with [] => o | _ => e_time (last es (Build_entry 0 0 0 [] [] [] 0 false)) end).

(** ** Histories *)
Inductive op :=
  | OAdd (e : entry)
  | OAddAsync (e : entry)      (* Add whose spawned flush has not run yet *)
  | OFlush | ORotate | OClear
  | OSetConfig (en : bool) (ign : list bytes) (cl : list (bytes * client))
  | ORestart (c : config).

Definition step (s : state) (o : op) : state :=
  match o with
  | OAdd e => add s e
  | OAddAsync e => add_async s e
  | OFlush => flush s
  | ORotate => rotate s
  | OClear => clear s
  | OSetConfig en ign cl => set_config s en ign cl
  | ORestart c => restart s c
  end.

Definition run (c : config) (ops : list op) : state := fold_left step ops (init c).

(** ** The stamp of a record (qlog.go Add since 3418b11)

    [newLogEntry] builds the entry outside every lock and stamps it there;
    since 3418b11 [Add] overwrites that stamp with a clock reading taken AFTER
    [bufferLock.Lock()], right before the push: the i-th pushed entry carries
    the i-th reading of the clock, whatever stamp its caller brought along.
    [run c ops] with the callers' stamps is the code as it was before (push
    order and stamp order independent of each other). *)
Definition set_time (e : entry) (t : Z) : entry :=
  {| e_id := e_id e; e_time := t; e_len := e_len e; e_host := e_host e; e_ip := e_ip e; e_cid := e_cid e;
     e_reason := e_reason e; e_filtered := e_filtered e |}.

Fixpoint stamp_ops (clock : list Z) (ops : list op) : list op :=
  match ops with
  | [] => []
  | OAdd e :: r =>
      match clock with t :: cl => OAdd (set_time e t) :: stamp_ops cl r | [] => OAdd e :: stamp_ops [] r end
  | OAddAsync e :: r =>
      match clock with t :: cl => OAddAsync (set_time e t) :: stamp_ops cl r | [] => OAddAsync e :: stamp_ops [] r end
  | o :: r => o :: stamp_ops clock r
  end.

(** A history of the code as it is: [clock] = the readings taken under the
    buffer lock, in push order. *)
Definition run_locked (c : config) (clock : list Z) (ops : list op) : state := run c (stamp_ops clock ops).

(** C20 model: how qLogFile.seekTS decides between a probed stamp and the
    wanted one (internal/querylog/qlogfile.go, the loop of seekTS).

    Both are int64 Unix nanoseconds.  The code compares them with Go's [==]
    and [>] on int64, which never wrap: [go_cmp].  A decision taken on the
    DIFFERENCE of the two would go through int64 subtraction, which wraps
    ([wrap64]): [sub_cmp], the subtracting comparator, is here to state where
    it is right and where not.  [seek_loop_c] is the loop of seekTS
    ([seek_loop] of Model/QLogFile.v) with the decision as a parameter.

    No proofs in this file. *)
From Coq Require Import ZArith List Bool.
From AGH Require Import Model.QLogFile.
Import ListNotations.
Local Open Scope Z_scope.

Definition int64_ok (z : Z) : Prop := - 2 ^ 63 <= z < 2 ^ 63.

(** int64 arithmetic result of the unbounded value [z]. *)
Definition wrap64 (z : Z) : Z := (z + 2 ^ 63) mod 2 ^ 64 - 2 ^ 63.

(** if ts == timestamp {found}; if ts > timestamp {left} else {right} *)
Definition go_cmp (a b : Z) : comparison :=
  if a =? b then Eq else if a >? b then Gt else Lt.

(** diff := ts - timestamp (int64); diff == 0, diff > 0 *)
Definition sub_cmp (a b : Z) : comparison :=
  let d := wrap64 (a - b) in
  if d =? 0 then Eq else if d >? 0 then Gt else Lt.

(** The loop of seekTS deciding through [cmp]. *)
Fixpoint seek_loop_c (cmp : Z -> Z -> comparison) (fuel : nat) (me : Z) (f : qfile) (ts : Z)
    (start end_ probe last depth : Z) : seek_res :=
  match fuel with
  | O => DepthExceeded
  | S fuel =>
      match probe_line me f probe with
      | None => IOEof
      | Some (li, le, len, lts) =>
          if li =? last then (if li =? 0 then TooEarly else NotFound)
          else if li =? fsize f then TooLate
          else if lts =? 0 then EmptyStamp
          else
            match cmp lts ts with
            | Eq => Found (li + len) depth
            | c =>
                let older := match c with Gt => true | _ => false end in
                let start' := if older then start else le in
                let end' := if older then li else end_ in
                seek_loop_c cmp fuel me f ts start' end' (start' + (end' - start') ÷ 2) li (depth + 1)
            end
      end
  end.

Definition seek_ts_c (cmp : Z -> Z -> comparison) (me : Z) (f : qfile) (ts : Z) : seek_res :=
  seek_loop_c cmp max_depth me f ts 0 (fsize f) (fsize f ÷ 2) (-1) 0.

(** Model of the session table of internal/home/auth.go (C12): the in-memory
    map [Auth.sessions] and its mirror in the bbolt bucket of sessions.db.
    No proofs here.

    Times are Unix seconds; the code keeps them in [uint32], so every
    addition is taken modulo 2^32 ([u32]).

    Keys.  A token is 16 random bytes ([newSessionToken]).  The bucket is keyed
    by the raw bytes; the map in memory is keyed by a STRING: the lower-case
    hex spelling [hex.EncodeToString] at creation and at reload, and whatever
    string the cookie carries at lookup and removal ([a.sessions[sess]],
    [delete(a.sessions, sess)]).  The paths to the bucket decode the cookie
    string with [key, _ := hex.DecodeString(sess)], which accepts upper- and
    lower-case digits and, the error being dropped, yields the bytes decoded
    before the first bad pair.  Both maps are modelled with the keys the code
    uses: [ss_mem] by spelling, [ss_disk] by raw bytes.

    bbolt operations are assumed to succeed (a failed write is only logged by
    the code; Put refuses an empty key, which a 16-byte token never is). *)
From AGH Require Import Base.Run.
From stdpp Require Import gmap.
Local Open Scope N_scope.

Definition u32 (n : N) : N := n mod 4294967296.
Definition day : N := 86400.

(** * Hex *)

(** [hex.EncodeToString]: two lower-case digits per byte. *)
Definition hex_digit (n : N) : N := if n <? 10 then 48 + n else 87 + n.

Fixpoint hex_encode (k : bytes) : bytes :=
  match k with
  | [] => []
  | b :: k' => hex_digit (b / 16) :: hex_digit (b mod 16) :: hex_encode k'
  end.

(** [fromHexChar]. *)
Definition hex_val (c : N) : option N :=
  if (48 <=? c) && (c <=? 57) then Some (c - 48)
  else if (97 <=? c) && (c <=? 102) then Some (c - 87)
  else if (65 <=? c) && (c <=? 70) then Some (c - 55)
  else None.

(** [key, _ := hex.DecodeString(s)]: the bytes decoded before the first
    character that is not a hex digit; a trailing odd character is dropped. *)
Fixpoint hex_decode_prefix (s : bytes) : bytes :=
  match s with
  | a :: b :: s' =>
      match hex_val a, hex_val b with
      | Some x, Some y => (16 * x + y) :: hex_decode_prefix s'
      | _, _ => []
      end
  | _ => []
  end.

(** * The table *)

Record sess := { s_user : bytes; s_expire : N }.

Record sstate := {
  ss_mem : gmap bytes sess;       (* Auth.sessions: cookie spelling -> session *)
  ss_disk : gmap bytes sess;      (* bucket "sessions-2": raw token -> session *)
}.

Definition s_init : sstate := {| ss_mem := ∅; ss_disk := ∅ |}.

Inductive cs_result := CSOK | CSNotFound | CSExpired.

(** [newCookie] after a successful password check: [addSession(raw, s)] with
    [expire = uint32(now) + sessionTTL]; the cookie value is
    [hex_encode raw]. *)
Definition new_session (ttl now : N) (raw : bytes) (user : bytes) (st : sstate) : sstate :=
  let s := {| s_user := user; s_expire := u32 (u32 now + ttl) |} in
  {| ss_mem := <[hex_encode raw := s]> (ss_mem st); ss_disk := <[raw := s]> (ss_disk st) |}.

(** [checkSession(sp)], [sp] the cookie value as sent. *)
Definition check_session (ttl now : N) (sp : bytes) (st : sstate) : sstate * cs_result :=
  let now := u32 now in
  match ss_mem st !! sp with
  | None => (st, CSNotFound)
  | Some s =>
      if s_expire s <=? now then
        ({| ss_mem := delete sp (ss_mem st); ss_disk := delete (hex_decode_prefix sp) (ss_disk st) |}, CSExpired)
      else
        let ne := u32 (now + ttl) in
        if s_expire s / day =? ne / day then (st, CSOK)
        else
          (* once a day: move the expiry, store the record *)
          let s' := {| s_user := s_user s; s_expire := ne |} in
          ({| ss_mem := <[sp := s']> (ss_mem st); ss_disk := <[hex_decode_prefix sp := s']> (ss_disk st) |}, CSOK)
  end.

(** [removeSession(sp)]. *)
Definition logout (sp : bytes) (st : sstate) : sstate :=
  {| ss_mem := delete sp (ss_mem st); ss_disk := delete (hex_decode_prefix sp) (ss_disk st) |}.

(** GET /control/logout with cookie [sp]: the route is registered through
    httpRegister, so the request first passes optionalAuth, which (users being
    configured) runs [checkSession(sp)] and lets [handleLogout] run only on
    [checkSessionOK]; [handleLogout] then calls [removeSession(sp)]. *)
Definition logout_request (ttl now : N) (sp : bytes) (st : sstate) : sstate * cs_result :=
  let '(st', r) := check_session ttl now sp st in
  match r with CSOK => (logout sp st', r) | _ => (st', r) end.

(** Process restart: [Close], then [InitAuth] -> [loadSessions]: records with
    [expire <= now] are deleted from the file, the rest goes into the map
    under [hex.EncodeToString(k)]. *)
Definition restart (now : N) (st : sstate) : sstate :=
  let d := filter (fun kv => u32 now < s_expire (snd kv)) (ss_disk st) in
  {| ss_mem := kmap hex_encode d; ss_disk := d |}.

Inductive sop :=
  | SNew (now : N) (raw : bytes) (user : bytes)   (* a successful login issuing token [raw] *)
  | SCheck (now : N) (sp : bytes)                 (* a request carrying cookie [sp] *)
  | SLogout (now : N) (sp : bytes)                (* GET /control/logout carrying cookie [sp] *)
  | SRemove (sp : bytes)                          (* removeSession(sp) called directly (not reachable over HTTP) *)
  | SRestart (now : N).

Definition sstep (ttl : N) (o : sop) (st : sstate) : sstate * option cs_result :=
  match o with
  | SNew now raw u => (new_session ttl now raw u st, None)
  | SCheck now sp => let '(st', r) := check_session ttl now sp st in (st', Some r)
  | SLogout now sp => let '(st', r) := logout_request ttl now sp st in (st', Some r)
  | SRemove sp => (logout sp st, None)
  | SRestart now => (restart now st, None)
  end.

Fixpoint srun (ttl : N) (st : sstate) (h : list sop) : sstate :=
  match h with
  | [] => st
  | o :: h' => srun ttl (fst (sstep ttl o st)) h'
  end.

(** Does a request carrying the cookie value [sp] authenticate at [now]? *)
Definition authenticates (ttl now : N) (sp : bytes) (st : sstate) : bool :=
  match snd (check_session ttl now sp st) with CSOK => true | _ => false end.

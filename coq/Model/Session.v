(** Model of the session table of internal/home/auth.go (C12): the in-memory
    map [Auth.sessions] and its mirror in the bbolt bucket of sessions.db.
    No proofs here.

    Times are Unix seconds; the code keeps them in [uint32], so every
    addition is taken modulo 2^32 ([u32]).  Tokens are abstract identifiers
    ([N]): the code uses 16 random bytes, as a lower-case hex string in
    memory and as raw bytes on disk; the harness numbers the tokens it sees.
    bbolt operations are assumed to succeed (a failed write is only logged by
    the code). *)
From AGH Require Import Base.Run.
From stdpp Require Import gmap.
Local Open Scope N_scope.

Definition u32 (n : N) : N := n mod 4294967296.
Definition day : N := 86400.

Record sess := { s_user : bytes; s_expire : N }.

Record sstate := { ss_mem : gmap N sess; ss_disk : gmap N sess }.

Definition s_init : sstate := {| ss_mem := ∅; ss_disk := ∅ |}.

Inductive cs_result := CSOK | CSNotFound | CSExpired.

(** [newCookie] after a successful password check: [addSession] with
    [expire = uint32(now) + sessionTTL]. *)
Definition new_session (ttl now tok : N) (user : bytes) (st : sstate) : sstate :=
  let s := {| s_user := user; s_expire := u32 (u32 now + ttl) |} in
  {| ss_mem := <[tok := s]> (ss_mem st); ss_disk := <[tok := s]> (ss_disk st) |}.

(** [checkSession]. *)
Definition check_session (ttl now tok : N) (st : sstate) : sstate * cs_result :=
  let now := u32 now in
  match ss_mem st !! tok with
  | None => (st, CSNotFound)
  | Some s =>
      if s_expire s <=? now then
        ({| ss_mem := delete tok (ss_mem st); ss_disk := delete tok (ss_disk st) |}, CSExpired)
      else
        let ne := u32 (now + ttl) in
        if s_expire s / day =? ne / day then (st, CSOK)
        else
          (* once a day: move the expiry, store the record *)
          let s' := {| s_user := s_user s; s_expire := ne |} in
          ({| ss_mem := <[tok := s']> (ss_mem st); ss_disk := <[tok := s']> (ss_disk st) |}, CSOK)
  end.

(** [removeSession] (handleLogout). *)
Definition logout (tok : N) (st : sstate) : sstate :=
  {| ss_mem := delete tok (ss_mem st); ss_disk := delete tok (ss_disk st) |}.

(** Process restart: [Close], then [InitAuth] -> [loadSessions]: records with
    [expire <= now] are deleted from the file, the rest becomes the map. *)
Definition restart (now : N) (st : sstate) : sstate :=
  let d := filter (fun kv => u32 now < s_expire (snd kv)) (ss_disk st) in
  {| ss_mem := d; ss_disk := d |}.

Inductive sop :=
  | SNew (now tok : N) (user : bytes)
  | SCheck (now tok : N)
  | SLogout (tok : N)
  | SRestart (now : N).

Definition sstep (ttl : N) (o : sop) (st : sstate) : sstate * option cs_result :=
  match o with
  | SNew now tok u => (new_session ttl now tok u st, None)
  | SCheck now tok => let '(st', r) := check_session ttl now tok st in (st', Some r)
  | SLogout tok => (logout tok st, None)
  | SRestart now => (restart now st, None)
  end.

Fixpoint srun (ttl : N) (st : sstate) (h : list sop) : sstate :=
  match h with
  | [] => st
  | o :: h' => srun ttl (fst (sstep ttl o st)) h'
  end.

(** Does a request carrying [tok] authenticate at [now]? *)
Definition authenticates (ttl now tok : N) (st : sstate) : bool :=
  match snd (check_session ttl now tok st) with CSOK => true | _ => false end.

(** Concrete text syntax of the serialised pause schedule (C18).  No proofs.

    YAML form: [timeutil.Duration] text, i.e. Go's [time.Duration.String]
    followed by the cutting of a trailing "0s" / "0m0s", and Go's
    [time.ParseDuration] (which [UnmarshalText] calls).  JSON form: the
    millisecond number text of [aghhttp.JSONDuration].

    Strings are [bytes] (list of byte values), numbers are [Z]; the uint64 /
    int64 bounds of the Go code are explicit comparisons against [two63] and a
    reduction modulo [two64] where the Go code can wrap. *)
From Coq Require Import ZArith NArith List Bool.
From AGH Require Import Base.Run Model.Schedule.
Import ListNotations.
Local Open Scope Z_scope.

Definition two63 := 9223372036854775808.
Definition two64 := 18446744073709551616.

(** Byte values. *)
Definition ch_0 : N := 48.
Definition ch_dot : N := 46.
Definition ch_minus : N := 45.
Definition ch_plus : N := 43.
Definition ch_h : N := 104.
Definition ch_m : N := 109.
Definition ch_n : N := 110.
Definition ch_s : N := 115.
Definition ch_u : N := 117.

Definition is_digit (c : N) : bool := (48 <=? c)%N && (c <=? 57)%N.
Definition digit_val (c : N) : Z := Z.of_N c - 48.
Definition digit_ch (d : Z) : N := Z.to_N (48 + d).

(** * time.Duration.String *)

(** [fmtInt]: decimal digits of [v] in front of [acc].  uint64 values have at
    most 20 digits; the fuel is never exhausted for them. *)
Fixpoint fmt_int_loop (fuel : nat) (v : Z) (acc : bytes) : bytes :=
  match fuel with
  | O => acc
  | S fuel => if v <=? 0 then acc
              else fmt_int_loop fuel (v / 10) (digit_ch (v mod 10) :: acc)
  end.
Definition fmt_int (acc : bytes) (v : Z) : bytes :=
  if v =? 0 then ch_0 :: acc else fmt_int_loop 20 v acc.

(** [fmtFrac]: the fraction of v/10^prec without trailing zeros, the point
    omitted when the fraction is zero; returns also v/10^prec. *)
Fixpoint fmt_frac_loop (prec : nat) (v : Z) (print : bool) (acc : bytes) : bytes * Z * bool :=
  match prec with
  | O => (acc, v, print)
  | S prec =>
      let digit := v mod 10 in
      let print := print || negb (digit =? 0) in
      fmt_frac_loop prec (v / 10) print (if print then digit_ch digit :: acc else acc)
  end.
Definition fmt_frac (acc : bytes) (v : Z) (prec : nat) : bytes * Z :=
  let '(acc, v, print) := fmt_frac_loop prec v false acc in
  (if print then ch_dot :: acc else acc, v).

Definition micro_s : bytes := [194; 181; 115]%N.      (* "µs", U+00B5 *)

(** [time.Duration.format] for an int64 [d]. *)
Definition duration_string (d : Z) : bytes :=
  let u := Z.abs d in
  let body :=
    if u <? ns_sec then
      if u =? 0 then [ch_0; ch_s]
      else if u <? 1000 then fmt_int [ch_n; ch_s] u
      else if u <? 1000000 then let (acc, v) := fmt_frac micro_s u 3 in fmt_int acc v
      else let (acc, v) := fmt_frac [ch_m; ch_s] u 6 in fmt_int acc v
    else
      let (acc, v) := fmt_frac [ch_s] u 9 in
      let acc := fmt_int acc (v mod 60) in
      let v := v / 60 in
      if 0 <? v then
        let acc := fmt_int (ch_m :: acc) (v mod 60) in
        let v := v / 60 in
        if 0 <? v then fmt_int (ch_h :: acc) v else acc
      else acc in
  if d <? 0 then ch_minus :: body else body.

Definition cut_tail (n : nat) (s : bytes) : bytes := firstn (length s - n) s.

(** [timeutil.Duration.String]: Go's [/] and [%] on int64 are [Z.quot] and
    [Z.rem]. *)
Definition tu_string (d : Z) : bytes :=
  let str := duration_string d in
  let rounded := Z.quot d ns_sec in
  if (rounded =? 0) || negb (rounded * ns_sec =? d) || negb (Z.rem rounded 60 =? 0) then str
  else if negb (Z.quot (Z.rem rounded 3600) 60 =? 0) then cut_tail 2 str
  else cut_tail 4 str.

(** * time.ParseDuration *)

Inductive dur_err := EInvalid | EMissingUnit | EUnknownUnit | EFuel.

(** [leadingInt]: [None] is errLeadingInt. *)
Fixpoint leading_int (s : bytes) (x : Z) : option (Z * bytes) :=
  match s with
  | c :: s' =>
      if is_digit c then
        if two63 / 10 <? x then None
        else let x' := x * 10 + digit_val c in
             if two63 <? x' then None else leading_int s' x'
      else Some (x, s)
  | [] => Some (x, [])
  end.

(** [leadingFraction]: stops accumulating precision on overflow. *)
Fixpoint leading_fraction (s : bytes) (x scale : Z) (overflow : bool) : Z * Z * bytes :=
  match s with
  | c :: s' =>
      if is_digit c then
        if overflow then leading_fraction s' x scale true
        else if (two63 - 1) / 10 <? x then leading_fraction s' x scale true
        else let y := x * 10 + digit_val c in
             if two63 <? y then leading_fraction s' x scale true
             else leading_fraction s' y (scale * 10) false
      else (x, scale, s)
  | [] => (x, scale, [])
  end.

(** The unit runs up to the next '.' or digit. *)
Fixpoint span_unit (s : bytes) : bytes * bytes :=
  match s with
  | c :: s' => if (c =? ch_dot)%N || is_digit c then ([], s)
               else let (u, r) := span_unit s' in (c :: u, r)
  | [] => ([], [])
  end.

Definition unit_map : list (bytes * Z) :=
  [ ([110; 115]%N, 1);                 (* ns *)
    ([117; 115]%N, 1000);              (* us *)
    ([194; 181; 115]%N, 1000);         (* U+00B5 s *)
    ([206; 188; 115]%N, 1000);         (* U+03BC s *)
    ([109; 115]%N, 1000000);           (* ms *)
    ([115]%N, ns_sec); ([109]%N, ns_min); ([104]%N, ns_hour) ].

Fixpoint lookup_unit (m : list (bytes * Z)) (u : bytes) : option Z :=
  match m with
  | [] => None
  | (k, v) :: m => if eqb_bytes k u then Some v else lookup_unit m u
  end.

(** [uint64(float64(f) * (float64(unit) / scale))], as exact arithmetic:
    [f * (unit / scale)] when the power of ten [scale] divides the unit, the
    floor of [f * unit / scale] otherwise (where float64 rounding could
    differ; see props/C18.json assumptions). *)
Definition frac_part (f unit scale : Z) : Z :=
  if unit mod scale =? 0 then f * (unit / scale) else (f * unit) / scale.

(** The main loop; every round consumes at least the one byte of its unit,
    so [length s] rounds of fuel suffice. *)
Fixpoint parse_loop (fuel : nat) (s : bytes) (d : Z) : dur_err + Z :=
  match s with
  | [] => inr d
  | c0 :: _ =>
    match fuel with
    | O => inl EFuel
    | S fuel =>
      if negb ((c0 =? ch_dot)%N || is_digit c0) then inl EInvalid else
      match leading_int s 0 with
      | None => inl EInvalid
      | Some (v, s1) =>
        let pre := negb (length s =? length s1)%nat in
        let '(f, scale, s2, post) :=
          match s1 with
          | c1 :: s1' =>
              if (c1 =? ch_dot)%N then
                let '(f, scale, r) := leading_fraction s1' 0 1 false in
                (f, scale, r, negb (length s1' =? length r)%nat)
              else (0, 1, s1, false)
          | [] => (0, 1, s1, false)
          end in
        if negb pre && negb post then inl EInvalid else
        let (u, s3) := span_unit s2 in
        match u with
        | [] => inl EMissingUnit
        | _ :: _ =>
          match lookup_unit unit_map u with
          | None => inl EUnknownUnit
          | Some unit =>
            if two63 / unit <? v then inl EInvalid else
            let v := v * unit in
            let v := if 0 <? f then v + frac_part f unit scale else v in
            if (0 <? f) && (two63 <? v) then inl EInvalid else
            let d := (d + v) mod two64 in          (* uint64 addition *)
            if two63 <? d then inl EInvalid else parse_loop fuel s3 d
          end
        end
      end
    end
  end.

Definition parse_duration (s : bytes) : dur_err + Z :=
  let '(neg, s1) :=
    match s with
    | c :: r => if (c =? ch_minus)%N then (true, r)
                else if (c =? ch_plus)%N then (false, r) else (false, s)
    | [] => (false, s)
    end in
  if eqb_bytes s1 [ch_0] then inr 0
  else match s1 with
  | [] => inl EInvalid
  | _ :: _ =>
    match parse_loop (length s1) s1 0 with
    | inl e => inl e
    | inr d => if neg then inr (- d)          (* d <= 2^63: fits int64 *)
               else if two63 - 1 <? d then inl EInvalid else inr d
    end
  end.

(** * aghhttp.JSONDuration number text *)

(** Plain decimals: optional sign, digits, optionally a point and more
    digits, at least one digit in all, as
    [strconv.ParseFloat] reads them; [None] is a syntax error.  Exponents,
    hex floats, inf/nan and underscores are outside this model (the harness
    does not emit them).  The value is the exact rational num/10^k;
    [int64(msec * 1e6)] truncates toward zero. *)
Fixpoint digits_acc (s : bytes) (x k : Z) : Z * Z * bytes :=
  match s with
  | c :: s' => if is_digit c then digits_acc s' (x * 10 + digit_val c) (k + 1) else (x, k, s)
  | [] => (x, k, [])
  end.

Definition ns_per_msec := 1000000.

Definition parse_ms_text (s : bytes) : option Z :=
  let '(neg, s1) :=
    match s with
    | c :: r => if (c =? ch_minus)%N then (true, r)
                else if (c =? ch_plus)%N then (false, r) else (false, s)
    | [] => (false, s)
    end in
  let '(x, k1, s2) := digits_acc s1 0 0 in
  let '(num, k2, s3) :=
    match s2 with
    | c :: r => if (c =? ch_dot)%N then digits_acc r x 0 else (x, 0, s2)
    | [] => (x, 0, s2)
    end in
  match s3 with
  | _ :: _ => None
  | [] =>
    if k1 + k2 =? 0 then None
    else let v := Z.quot (num * ns_per_msec) (10 ^ k2) in
         Some (if neg then - v else v)
  end.

(** [strconv.AppendFloat(float64(d)/1e6, 'f', -1, 64)] for |d| < 10^15: the
    exact decimal expansion of d/10^6 without trailing zeros. *)
Definition print_ms_text (d : Z) : bytes :=
  let (acc, v) := fmt_frac [] (Z.abs d) 6 in
  let body := fmt_int acc v in
  if d <? 0 then ch_minus :: body else body.

(** * Documents as fields in document order *)

(** A field: weekday index, [true] for "end" ([false] for "start"), and the
    text handed to the duration's unmarshaller.  Decoders run in document
    order and stop at the first syntax error; absent fields stay zero; then
    the ranges are validated Sunday first. *)
Definition field := (nat * bool * bytes)%type.

Inductive text_err :=
  | TSyntax (code : Z)
  | TRange (i : Z) (e : range_err).

Fixpoint upd {A} (l : list A) (n : nat) (f : A -> A) : list A :=
  match l, n with
  | [], _ => []
  | x :: l, O => f x :: l
  | x :: l, S n => x :: upd l n f
  end.

Definition set_field (is_end : bool) (v : Z) (r : day_range) : day_range :=
  if is_end then {| dr_start := dr_start r; dr_end := v |}
  else {| dr_start := v; dr_end := dr_end r |}.

Fixpoint apply_fields (parse : bytes -> Z + Z) (w : weekly) (fs : list field) : Z + weekly :=
  match fs with
  | [] => inr w
  | (i, is_end, s) :: fs =>
      match parse s with
      | inl code => inl code
      | inr v => apply_fields parse (upd w i (set_field is_end v)) fs
      end
  end.

Definition unmarshal_fields (parse : bytes -> Z + Z) (ndays : nat) (fs : list field)
  : text_err + weekly :=
  match apply_fields parse (repeat zero_range ndays) fs with
  | inl code => inl (TSyntax code)
  | inr w => match unmarshal_ranges w with
             | inl (i, e) => inl (TRange i e)
             | inr w => inr w
             end
  end.

Definition dur_err_code (e : dur_err) : Z :=
  match e with EInvalid => 1 | EMissingUnit => 2 | EUnknownUnit => 3 | EFuel => 9 end.

Definition parse_yaml_dur (s : bytes) : Z + Z :=
  match parse_duration s with inl e => inl (dur_err_code e) | inr v => inr v end.
Definition parse_json_dur (s : bytes) : Z + Z :=
  match parse_ms_text s with None => inl 1 | Some v => inr v end.

(** Documents in canonical order: per weekday, absent or (start, end). *)
Definition text_day := option (bytes * bytes).

Fixpoint flatten_days (i : nat) (days : list text_day) : list field :=
  match days with
  | [] => []
  | None :: days => flatten_days (S i) days
  | Some (s, e) :: days => (i, false, s) :: (i, true, e) :: flatten_days (S i) days
  end.

Definition unmarshal_yaml_text (days : list text_day) : text_err + weekly :=
  unmarshal_fields parse_yaml_dur (length days) (flatten_days 0 days).
Definition unmarshal_json_text (days : list text_day) : text_err + weekly :=
  unmarshal_fields parse_json_dur (length days) (flatten_days 0 days).

(** Marshalling: a zero range is left out (yaml.v3 [omitempty] on the zero
    struct; nil pointer in the JSON form). *)
Definition marshal_text (print : Z -> bytes) (w : weekly) : list text_day :=
  map (fun r => if is_zero_range r then None
                else Some (print (dr_start r), print (dr_end r))) w.
Definition marshal_yaml_text := marshal_text tu_string.
Definition marshal_json_text := marshal_text print_ms_text.

(** Model of the glue between [DNSFilter.CheckHost] and the safe-browsing /
    parental-control checkers (internal/filtering/filtering.go: [CheckHost],
    [checkSafeBrowsing], [checkParental]) (C19, round 5).  No proofs here.

    Which requests reach [Checker.Check] at all: the per-request settings
    (protection, the switch of the service) and nothing else; the host is
    looked at only to answer the root query [""] at once and to lower-case it;
    the question type (round 6: an explicit argument, as in the Go
    signatures) is passed along to every host checker and ignored by the two
    of this path.
    The checkers are parameters (anything with the signature of
    [Checker.Check] on some state), so that the glue can be composed with the
    Checker of Model/HashPrefix.v or with any other implementation.

    Not here because nothing of it is configured in the harness' DNSFilter and
    every one of them comes BEFORE the two checkers in [d.hostCheckers] and
    returns "no match" when empty: legacy rewrites, the hosts container, the
    rule lists, blocked services; after them: safe search (nil).  *)
From Coq Require Import ZArith NArith List Bool.
From AGH Require Import Base.Run Base.Bytes Model.HashPrefix.
Import ListNotations.

(** [filtering.Settings], the fields the path reads. *)
Record settings := {
  st_protection : bool;      (* ProtectionEnabled *)
  st_filtering : bool;       (* FilteringEnabled: rewrites and rule lists only *)
  st_safebrowsing : bool;    (* SafeBrowsingEnabled *)
  st_parental : bool;        (* ParentalEnabled *)
}.

Inductive service := SafeBrowsing | Parental.

Definition svc_enabled (s : service) (st : settings) : bool :=
  match s with SafeBrowsing => st_safebrowsing st | Parental => st_parental st end.

(** The type of the question (the [qtype uint16] argument of [CheckHost], of
    every entry of [d.hostCheckers] and so of [checkSafeBrowsing] /
    [checkParental], where it is the blank parameter [_]). *)
Definition qtype := N.

(** The test at the top of [checkSafeBrowsing] / [checkParental]: does the
    glue call the checker of service [s] for a question of type [qt] about
    [host]?  Neither the type nor the host is looked at. *)
Definition glue_calls (s : service) (st : settings) (qt : qtype) (host : bytes) : bool :=
  st_protection st && svc_enabled s st.

(** [Result.Reason], as far as this path can set it. *)
Inductive reason := RNotFiltered | RSafeBrowsing | RParental.

Record glue_out := {
  g_reason : reason;
  g_err : bool;                            (* CheckHost returned an error *)
  g_sb : option (bytes * check_out);       (* what the safe-browsing checker was called with and did *)
  g_pc : option (bytes * check_out);       (* the same for parental control *)
}.

Section Glue.
  Context {C1 C2 : Type}.
  (** [calls] is a parameter only so that variants of the test can be stated
      (and refuted); the code is [glue_calls]. *)
  Variable calls : service -> settings -> qtype -> bytes -> bool.
  Variable sb : bytes -> C1 -> C1 * check_out.   (* d.safeBrowsingChecker.Check *)
  Variable pc : bytes -> C2 -> C2 * check_out.   (* d.parentalControlChecker.Check *)

  (** The entry "parental" of [d.hostCheckers] and what follows it. *)
  Definition glue_parental (st : settings) (qt : qtype) (host : bytes) (c1 : C1) (c2 : C2)
      (o1 : option (bytes * check_out)) : (C1 * C2) * glue_out :=
    if calls Parental st qt host then
      let '(c2', o2) := pc host c2 in
      ((c1, c2'),
       {| g_reason := if o_err o2 then RNotFiltered else if o_blocked o2 then RParental else RNotFiltered;
          g_err := o_err o2; g_sb := o1; g_pc := Some (host, o2) |})
    else ((c1, c2), {| g_reason := RNotFiltered; g_err := false; g_sb := o1; g_pc := None |}).

  (** [CheckHost]: the root query is answered at once; the name is
      lower-cased; the host checkers run in their order and the first error or
      match ends the loop. *)
  Definition glue_check_host_with (st : settings) (qt : qtype) (spelled : bytes) (c1 : C1) (c2 : C2)
      : (C1 * C2) * glue_out :=
    match spelled with
    | [] => ((c1, c2), {| g_reason := RNotFiltered; g_err := false; g_sb := None; g_pc := None |})
    | _ =>
        let host := caller_name spelled in
        if calls SafeBrowsing st qt host then
          let '(c1', o1) := sb host c1 in
          if o_err o1 then
            ((c1', c2), {| g_reason := RNotFiltered; g_err := true; g_sb := Some (host, o1); g_pc := None |})
          else if o_blocked o1 then
            ((c1', c2), {| g_reason := RSafeBrowsing; g_err := false; g_sb := Some (host, o1); g_pc := None |})
          else glue_parental st qt host c1' c2 (Some (host, o1))
        else glue_parental st qt host c1 c2 None
    end.
End Glue.

Definition glue_check_host {C1 C2 : Type} := @glue_check_host_with C1 C2 glue_calls.

(** A history of requests through one DNSFilter: the two checkers keep their
    caches from one request to the next. *)
Fixpoint glue_run {C1 C2 : Type} (sb : bytes -> C1 -> C1 * check_out) (pc : bytes -> C2 -> C2 * check_out)
    (reqs : list (settings * qtype * bytes)) (c1 : C1) (c2 : C2) : list glue_out :=
  match reqs with
  | [] => []
  | (st, qt, spelled) :: r =>
      let '((c1', c2'), out) := glue_check_host sb pc st qt spelled c1 c2 in
      out :: glue_run sb pc r c1' c2'
  end.

(** ** A variant that is NOT the code (red-team change C19-I): the checkers
    are skipped for a name that "is a public suffix itself", decided the way
    [publicsuffix.EffectiveTLDPlusOne] fails: an empty label at either end or
    inside, or a name no longer than its public suffix, of whichever section
    of the list. *)
Fixpoint has_empty_inner_label (h : bytes) : bool :=
  match h with
  | a :: ((b :: _) as r) => ((a =? dot) && (b =? dot))%N || has_empty_inner_label r
  | _ => false
  end.

Definition is_bare_suffix (pubsuf : bytes -> bytes * bool) (host : bytes) : bool :=
  match host with
  | [] => true
  | a :: _ =>
      (a =? dot)%N || (last host 0 =? dot)%N || has_empty_inner_label host
      || (length host <=? length (fst (pubsuf host)))%nat
  end.

Definition glue_calls_bare (pubsuf : bytes -> bytes * bool) (s : service) (st : settings) (qt : qtype)
    (host : bytes) : bool :=
  glue_calls s st qt host && negb (is_bare_suffix pubsuf host).

(** ** Another variant that is NOT the code (red-team change C19-L): the
    question type is used; the lookup is made only for the types that are
    answered with the blocking host (A = 1, AAAA = 28, HTTPS = 65), "to save
    the round trip" for the others. *)
Definition is_block_host_qtype (qt : qtype) : bool :=
  ((qt =? 1) || (qt =? 28) || (qt =? 65))%N.

Definition glue_calls_addr (s : service) (st : settings) (qt : qtype) (host : bytes) : bool :=
  glue_calls s st qt host && is_block_host_qtype qt.

(** C16 (round 8): the KEY of the ClientID hand-over cache.

    HandleBefore (beforerequest.go) and processInitial (process.go) both build
    the key of Server.clientIDCache from pctx.RequestID (uint64) as

      key := [8]byte{};  binary.BigEndian.PutUint64(key[:], pctx.RequestID)

    Round 4 (Model/ClientIDReconf.v, Model/ClientIDCache.v) took the key to BE
    the id.  Here the key function is explicit: [kf : N -> N] maps a RequestID
    to the number its key bytes spell; the cache events of a history are those
    of C04's model under [kf].  The code: [key64] (8 bytes big-endian).
    [key32] is the variant that keeps the low 32 bits (4 bytes; refuted in
    Proofs/ClientIDKey.v).  No proofs in this file. *)
From Coq Require Import List NArith Bool.
From AGH Require Import Base.Run Base.Bytes Model.ClientID Model.ClientIDCache.
Import ListNotations.
Local Open Scope N_scope.

(** binary.BigEndian.PutUint64 / AppendUint32 of the low bits of [n]. *)
Fixpoint be_bytes (len : nat) (n : N) : bytes :=
  match len with
  | O => []
  | S l => be_bytes l (n / 256) ++ [n mod 256]
  end.

Definition be_value (b : bytes) : N := fold_left (fun a x => a * 256 + x) b 0.

Definition key64_bytes (rid : N) : bytes := be_bytes 8 rid.
Definition key32_bytes (rid : N) : bytes := be_bytes 4 rid.

(** The keys as numbers (what the bytes spell). *)
Definition key64 (rid : N) : N := rid mod 2 ^ 64.
Definition key32 (rid : N) : N := rid mod 2 ^ 32.

Definition ev_rid (e : ev) : N := match e with EvBefore r _ => r | EvInitial r => r end.

Definition keyed (kf : N -> N) (e : ev) : ev :=
  match e with
  | EvBefore r cid => EvBefore (kf r) cid
  | EvInitial r => EvInitial (kf r)
  end.

(** What processInitial of the request with id [rid] reads after [evs]. *)
Definition seen_keyed (cf : cache_conf) (kf : N -> N) (evs : list ev) (rid : N) : bytes :=
  seen_after cf (map (keyed kf) evs) (kf rid).

(** One request served at once on a context whose RequestID is given: the hook
    (extraction under the settings, a non-empty id cached under the key), then
    processInitial (read under the key).  [None]: the hook failed the
    request. *)
Definition serve_keyed (cf : cache_conf) (kf : N -> N) (host : bytes) (strict : bool)
    (c : cache) (rid : N) (p : proto) (sni : option bytes) (h : option doh_req)
  : cache * option bytes :=
  match client_id_of p host strict sni h with
  | CidErr _ => (c, None)
  | CidOk id =>
      let c1 := match id with [] => c | _ => cache_set cf (kf rid) id c end in
      match cache_get (kf rid) c1 with
      | (Some v, c2) => (c2, Some v)
      | (None, c2) => (c2, Some [])
      end
  end.

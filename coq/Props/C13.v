(** C13 (placeholder while the pipeline is brought up). *)
From Coq Require Import List ZArith String.
From AGH Require Import Model.Migrate.

Theorem C13_table_length : forall O, Z.of_nat (List.length (steps O)) = last_version.
Proof. reflexivity. Qed.
Print Assumptions C13_table_length.

(** C13: the configuration upgrade never panics, reaches the requested schema
    version, keeps the input on error, is idempotent at the current version,
    preserves settings no step concerns, and does not depend on the path.
    Only statements here; proofs live in Proofs/Migrate*.v.  All theorems hold
    for every instance of the external functions (bcrypt, URL splitting,
    address parsing, data directory), which enter as the oracle record [O]. *)
From Coq Require Import List ZArith String.
From AGH Require Import Model.Migrate Proofs.Migrate Proofs.MigrateFrame Proofs.MigrateSim
  Proofs.MigrateTable Gen.MigrateTable Proofs.MigrateFrameDns Proofs.MigrateElems
  Model.MigrateLoad Proofs.MigrateLoadable Proofs.MigrateLoadableC Proofs.MigrateLoadableH Proofs.MigrateBack
  Model.MigrateKinds Proofs.MigrateKinds Model.MigrateFootprint Proofs.MigrateFootprint Proofs.MigrateValues
  Model.MigrateFile Proofs.MigrateFile Model.MigratePorts Proofs.MigratePorts Model.MigrateQuic Proofs.MigrateQuic.
Import ListNotations.
Local Open Scope string_scope.
Local Open Scope Z_scope.

(** The step table read out of migrator.go at this run is the one the model
    composes: same step functions in the same order, entry [i] stamping
    version [i+1], same LastSchemaVersion, nothing the reader could not resolve. *)
Theorem C13_table_matches_source : forall O,
  map (fun e => snd (fst e)) step_table = map fst (steps O) /\
  map (fun e => fst (fst e)) step_table = seq 0 (List.length (steps O)) /\
  map snd step_table = map (fun i => Z.of_nat (S i)) (seq 0 (List.length (steps O))) /\
  last_schema_version = last_version /\
  Z.of_nat (List.length (steps O)) = last_version /\
  unresolved = [].
Proof. exact table_matches. Qed.
Print Assumptions C13_table_matches_source.

(** For every decoded document (including the nil map an explicit null
    document leaves), every target: no run-time panic. *)
Theorem C13_no_panic : forall O top target, migrate O top target <> OPanic.
Proof. exact migrate_no_panic. Qed.
Print Assumptions C13_no_panic.

(** Every step assigns into the top-level map first: without the guard that
    replaces a nil map by an empty one, a null document would panic. *)
Theorem C13_steps_need_non_nil_map : forall O s, In s (map snd (steps O)) -> s None = Panic.
Proof. exact nil_map_would_panic. Qed.
Print Assumptions C13_steps_need_non_nil_map.

(** An error comes with the unchanged input body and "not upgraded". *)
Theorem C13_error_keeps_input : forall O top target,
  migrate O top target = OErr ->
  returned_body (migrate O top target) = None /\ is_upgraded (migrate O top target) = false.
Proof. exact migrate_error_keeps_input. Qed.
Print Assumptions C13_error_keeps_input.

(** A new body carries the target version. *)
Theorem C13_stamped : forall O top target m',
  migrate O top target = ONew m' -> get "schema_version" m' = Some (VInt target).
Proof. exact migrate_stamped. Qed.
Print Assumptions C13_stamped.

(** A document at the target version is returned unchanged, and so is the
    re-read result of any upgrade. *)
Theorem C13_idempotent_at_current : forall O m target,
  get "schema_version" m = Some (VInt target) -> 0 <= target <= last_version ->
  migrate O (Some m) target = OSame.
Proof. exact migrate_at_target. Qed.
Print Assumptions C13_idempotent_at_current.

Theorem C13_idempotent_after_upgrade : forall O top target m',
  migrate O top target = ONew m' -> migrate O (Some (norm_obj m')) target = OSame.
Proof. exact migrate_idempotent. Qed.
Print Assumptions C13_idempotent_after_upgrade.

(** Top-level keys outside [written] (and the version stamp) keep their value
    through any upgrade. *)
Theorem C13_frame : forall O top target m' k,
  migrate O top target = ONew m' -> mem_b k written = false -> k <> "schema_version" ->
  get k m' = get k (input_map top).
Proof. exact migrate_frame. Qed.
Print Assumptions C13_frame.

(** The same inside the [dns] section, where most settings live: from schema
    version 2 on (step 2 replaces the section by [coredns]) every key of [dns]
    outside [dns_written] keeps its value, and the section stays a section. *)
Theorem C13_frame_dns : forall O top t m' d k,
  migrate O top t = ONew m' -> 2 <= version_of (input_map top) ->
  get "dns" (input_map top) = Some (VObj d) -> mem_b k dns_written = false ->
  exists d', get "dns" m' = Some (VObj d') /\ get k d' = get k d.
Proof. exact migrate_dns_frame. Qed.
Print Assumptions C13_frame_dns.

Example C13_frame_dns_satisfiable :
  mem_b "port" dns_written = false /\
  exists m' d', migrate oracles0 (Some (upd "dns" (VObj [("port", VInt 5353); ("all_servers", VBool true)]) doc22)) 29 = ONew m' /\
    get "dns" m' = Some (VObj d') /\ get "port" d' = Some (VInt 5353) /\ get "all_servers" d' = None.
Proof. exact doc22_dns_frame. Qed.
Print Assumptions C13_frame_dns_satisfiable.

(** Path independence, for every document, every target and every split point
    [k] strictly between the document's version and the target: upgrading to
    [k], writing the file, reading it back ([norm_obj]: Go's dynamic types are
    erased) and upgrading on gives the same file as upgrading in one run.  All
    29 steps are covered. *)
Theorem C13_path_independent : forall O top t k a,
  migrate O top t = ONew a -> version_of (input_map top) < k < t ->
  exists b c, migrate O top k = ONew b /\
              migrate O (Some (norm_obj b)) t = ONew c /\
              norm_obj c = norm_obj a.
Proof. exact migrate_path_independent. Qed.
Print Assumptions C13_path_independent.

(** The unconditional reading (also when the one run fails, the split run
    fails alike), for decoded documents ([plain_doc]: no Go-typed leftovers).
    Before fix bb8b603 it was false ([schema_version: 9, rlimit_nofile: 2.0]
    failed in one run and succeeded when split at version 10); [fieldVal] now
    converts a whole float where an int is expected, the model follows
    ([coerce]) and the former witness upgrades to the same file on both paths.
    [C13_path_independent_unconditional_partial] covers every case in which
    the one run does not fail (for any tree); the full statement is
    [C13_path_independent_unconditional] below, proved through the converse
    simulation of Proofs/MigrateBack.v. *)
Definition C13_path_independent_unconditional_statement : Prop :=
  path_independent_unconditional_statement.

Theorem C13_path_independent_unconditional_partial : forall O top t k,
  version_of (input_map top) < k < t -> migrate O top t <> OErr ->
  same_result (migrate O top t) (split_run O top k t).
Proof. exact path_independent_unconditional_partial. Qed.
Print Assumptions C13_path_independent_unconditional_partial.

(** The full theorem.  For every decoded document, every oracle, every target
    and every split point: the one run and the split run end alike: both
    fail, or both produce the same file.  The failing direction rests on an
    invariant of in-memory trees ([tinv], Proofs/MigrateBack.v): steps leave
    Go-typed values only at dns.querylog_interval, querylog.interval,
    statistics.interval, dns.upstream_mode and filtering.safe_fs_patterns, and
    no step reads one of these with a [string] or [[]any] assertion; under it
    a step fails on the tree exactly when it fails on the re-read file. *)
Theorem C13_path_independent_unconditional : forall O top t k,
  plain_doc top = true -> version_of (input_map top) < k < t ->
  same_result (migrate O top t) (split_run O top k t).
Proof. exact path_independent_unconditional. Qed.
Print Assumptions C13_path_independent_unconditional.

Theorem C13_path_independent_unconditional_is_statement : C13_path_independent_unconditional_statement.
Proof. exact path_independent_unconditional_holds. Qed.
Print Assumptions C13_path_independent_unconditional_is_statement.

(** Its two ingredients, for any range of steps: typed values stay where the
    steps leave them, and a range of steps that fails on such a tree fails on
    the file written from it (with [C13_steps_respect_reread]: fails exactly
    when). *)
Theorem C13_steps_keep_typed_positions : forall O cur tgt m r,
  tinv m -> upgrade O cur tgt m = Ok r -> tinv r.
Proof. exact upgrade_keeps_tinv. Qed.
Print Assumptions C13_steps_keep_typed_positions.

Theorem C13_steps_fail_alike_on_reread : forall O cur tgt m c,
  tinv m -> upgrade O cur tgt (norm_obj m) = Ok c -> exists a, upgrade O cur tgt m = Ok a /\ norm_obj a = norm_obj c.
Proof. exact upgrade_succeeds_alike. Qed.
Print Assumptions C13_steps_fail_alike_on_reread.

(** Non-vacuity of the failing case: a decoded document that fails at step 23
    in one run and when split at version 15, where the in-memory tree holds a
    typed duration (so is not plain) and satisfies the invariant. *)
Example C13_failing_run_satisfiable :
  plain_doc (Some failing_doc) = true /\
  migrate oracles0 (Some failing_doc) 29 = OErr /\
  split_run oracles0 (Some failing_doc) 15 29 = OErr /\
  exists b, migrate oracles0 (Some failing_doc) 15 = ONew b /\ tinvb b = true /\ plain (VObj b) = false /\
            get "querylog" b = Some (VObj [("ignored", VArr []); ("enabled", VBool true); ("file_enabled", VBool true);
                                           ("interval", VDur 86400000000000); ("size_memory", VInt 1000)]).
Proof. exact failing_doc_fails_alike. Qed.
Print Assumptions C13_failing_run_satisfiable.

Example C13_whole_float_path_independent :
  exists a c, migrate oracles0 (Some float_doc) 29 = ONew a /\
    split_run oracles0 (Some float_doc) 10 29 = ONew c /\ norm_obj a = norm_obj c /\
    get "os" a = Some (VObj [("group", VStr ""); ("rlimit_nofile", VInt 2); ("user", VStr "")]).
Proof. exact whole_float_same. Qed.
Print Assumptions C13_whole_float_path_independent.

Example C13_fractional_float_rejected_on_both_paths :
  let d := Some [("schema_version", VInt 9); ("rlimit_nofile", VFloat None "2.5")] in
  migrate oracles0 d 29 = OErr /\ split_run oracles0 d 10 29 = OErr.
Proof. exact fractional_float_rejected. Qed.
Print Assumptions C13_fractional_float_rejected_on_both_paths.

(** Why the statement speaks of decoded documents: a tree that already holds a
    Go duration where a step reads a string depends on the path. *)
Theorem C13_typed_input_path_dependent :
  plain_doc (Some typed_doc) = false /\
  migrate oracles0 (Some typed_doc) 29 = OErr /\ exists c, split_run oracles0 (Some typed_doc) 7 29 = ONew c.
Proof. exact typed_input_path_dependent. Qed.
Print Assumptions C13_typed_input_path_dependent.

Example C13_typed_input_violates_invariant : tinvb typed_doc = false.
Proof. exact typed_doc_not_tinv. Qed.
Print Assumptions C13_typed_input_violates_invariant.

(** The same at the level of the step table, for any in-memory tree (typed
    values anywhere) and any range of steps: running the steps on the tree or
    on its re-read form leads to the same file. *)
Theorem C13_steps_respect_reread : forall O cur tgt m a,
  upgrade O cur tgt m = Ok a ->
  exists c, upgrade O cur tgt (norm_obj m) = Ok c /\ norm_obj c = norm_obj a.
Proof. exact upgrade_respects_reread. Qed.
Print Assumptions C13_steps_respect_reread.

(** Non-vacuity of the split: version 22 to 29 through a file at version 28,
    where the in-memory tree holds a typed upstream mode and the file plain text. *)
Example C13_split_satisfiable :
  exists a b c,
    migrate oracles0 (Some doc22) 29 = ONew a /\ migrate oracles0 (Some doc22) 28 = ONew b /\
    migrate oracles0 (Some (norm_obj b)) 29 = ONew c /\ norm_obj c = norm_obj a /\
    get "dns" b = Some (VObj [("upstream_mode", VMode MParallel)]) /\
    get "dns" (norm_obj b) = Some (VObj [("upstream_mode", VStr "parallel")]).
Proof. exact doc22_split. Qed.
Print Assumptions C13_split_satisfiable.

(** Non-vacuity: a concrete version-22 document upgrades to 29, keeps a key no
    step concerns; an ill-typed one fails; a null document upgrades. *)
Example C13_premises_satisfiable :
  (exists m', migrate oracles0 (Some doc22) 29 = ONew m' /\
     get "schema_version" m' = Some (VInt 29) /\ get "theme" m' = Some (VStr "auto")) /\
  migrate oracles0 (Some [("schema_version", VInt 10); ("rlimit_nofile", VStr "x")]) 29 = OErr /\
  (exists m', migrate oracles0 None 29 = ONew m' /\ get "schema_version" m' = Some (VInt 29)) /\
  mem_b "theme" written = false.
Proof.
  split; [destruct doc22_upgrades as (m' & H1 & H2 & H3 & _); eauto|].
  split; [exact doc_error|]. split; [exact doc_null_document|reflexivity].
Qed.
Print Assumptions C13_premises_satisfiable.

(** ** Lists: every element is treated on its own

    The Go steps mutate maps and slices in place, so a step could hand ONE
    map to several list elements; the tree model cannot express that.  What
    agreement with the model means for the code is stated here: the list of
    persistent clients of the upgraded document is the element-wise image of
    the input's list under [elem_upgrade] (the composition of the per-client
    functions of steps 4, 6, 19 and 22; step 14 moves the list), a function
    of the client alone.  The harness checks the same on the real code with
    documents of several clients that differ in every field a step reads. *)
Theorem C13_clients_elementwise : forall O top t a l,
  migrate O top t = ONew a -> clients_at (nat_version (input_map top)) (input_map top) = Some l ->
  exists l', clients_at (Z.to_nat t) a = Some l' /\
             map_res (elem_upgrade (nat_version (input_map top)) (Z.to_nat t)) l = Ok l'.
Proof. exact migrate_clients_elementwise. Qed.
Print Assumptions C13_clients_elementwise.

(** Independence: if two documents of the same version hold the same client
    at position [i], so do their upgrades, whatever else differs (the other
    clients, the other sections, the external functions). *)
Theorem C13_client_independent : forall O1 O2 top1 top2 t a1 a2 l1 l2 i c,
  migrate O1 top1 t = ONew a1 -> migrate O2 top2 t = ONew a2 ->
  nat_version (input_map top1) = nat_version (input_map top2) ->
  clients_at (nat_version (input_map top1)) (input_map top1) = Some l1 ->
  clients_at (nat_version (input_map top2)) (input_map top2) = Some l2 ->
  nth_error l1 i = Some c -> nth_error l2 i = Some c ->
  exists l1' l2' c',
    clients_at (Z.to_nat t) a1 = Some l1' /\ clients_at (Z.to_nat t) a2 = Some l2' /\
    nth_error l1' i = Some c' /\ nth_error l2' i = Some c' /\
    elem_upgrade (nat_version (input_map top1)) (Z.to_nat t) c = Ok c'.
Proof. exact migrate_client_independent. Qed.
Print Assumptions C13_client_independent.

(** Frame for list elements: a setting of the client at position [i] outside
    [client_written] (name, tags, upstreams, the other switches) keeps its
    value. *)
Theorem C13_frame_client : forall O top t a l i o k,
  migrate O top t = ONew a -> clients_at (nat_version (input_map top)) (input_map top) = Some l ->
  nth_error l i = Some (VObj o) -> mem_b k client_written = false ->
  exists l' o', clients_at (Z.to_nat t) a = Some l' /\ nth_error l' i = Some (VObj o') /\
                get k o' = get k o.
Proof. exact migrate_client_frame. Qed.
Print Assumptions C13_frame_client.

(** The other lists a step walks over: upstreams (step 10), ignored names
    (step 27), filters (step 29; the patterns are the concatenation of what
    each filter contributes). *)
Theorem C13_upstreams_elementwise : forall O m m' d k l,
  k = "upstream_dns" \/ k = "local_ptr_upstreams" ->
  step10 O (Some m) = Ok m' -> get "dns" m = Some (VObj d) -> get k d = Some (VArr l) ->
  exists d' l', get "dns" m' = Some (VObj d') /\ get k d' = Some (VArr l') /\
                map_res (quic_elem O) l = Ok l'.
Proof. exact step10_elementwise. Qed.
Print Assumptions C13_upstreams_elementwise.

Theorem C13_ignored_elementwise : forall k m m' q l,
  replace_dot k m = Ok m' -> get k m = Some (VObj q) -> get "ignored" q = Some (VArr l) ->
  exists q', get k m' = Some (VObj q') /\ get "ignored" q' = Some (VArr (map dot27 l)).
Proof. exact replace_dot_elementwise. Qed.
Print Assumptions C13_ignored_elementwise.

Theorem C13_safe_patterns_elementwise : forall O m m' fl f,
  step29 O (Some m) = Ok m' -> get "filters" m = Some (VArr fl) -> get "filtering" m = Some (VObj f) ->
  exists ps f', map_res filter29 fl = Ok ps /\ get "filtering" m' = Some (VObj f') /\
    get "safe_fs_patterns" f' = Some (VStrs (o_glob O :: List.concat ps)) /\
    get "filters" m' = Some (VArr fl).
Proof. exact step29_elementwise. Qed.
Print Assumptions C13_safe_patterns_elementwise.

(** Non-vacuity: three clients at version 3 that differ in ip/mac, the safe
    search switch and the blocked services each keep their own after the
    upgrade to 29. *)
Example C13_clients_satisfiable :
  exists a l',
    migrate oracles0 (Some doc3_clients) 29 = ONew a /\ clients_at 29 a = Some l' /\
    map (fun c => get "safe_search" (zobj c)) l' =
      [Some (VObj (upd "enabled" (VBool false) safe_search0));
       Some (VObj safe_search0); Some (VObj safe_search0)] /\
    map (fun c => get "ids" (zobj c)) l' =
      [Some (VArr [VStr "10.0.0.1"]); Some (VArr [VStr "aa:bb:cc:dd:ee:01"]);
       Some (VArr [VStr "10.0.0.3"; VStr "aa:bb:cc:dd:ee:03"])] /\
    map (fun c => get "blocked_services" (zobj c)) l' =
      [Some (VObj [("ids", VArr [VStr "500px"]); ("schedule", schedule0)]);
       Some (VObj [("ids", VArr [VStr "9gag"; VStr "amazon"]); ("schedule", schedule0)]); None] /\
    map (fun c => get "name" (zobj c)) l' = [Some (VStr "a"); Some (VStr "b"); Some (VStr "c")].
Proof. exact doc3_clients_upgrade. Qed.
Print Assumptions C13_clients_satisfiable.

(** ** Output accepted by the loader

    [loadable v m] (Model/MigrateLoad.v): the kind check the typed loader
    applies to the keys the steps read or write, for a document of schema
    version [v] (keys a later version introduces absent; null not accepted
    where start-up dereferences a pointer).  Every successful upgrade of a
    document loadable at its version is loadable at the target version
    ([C13_loadable_preserved], all 29 steps; the earlier partial form with
    the hypothesis [unproved_steps_keep] is kept, and the hypothesis is now a
    lemma).  Values (duration syntax, addresses, known service ids) are
    validated on the real code by the loader monitor's start-up stages. *)
Definition C13_loadable_preserved_statement : Prop := loadable_preserved_statement.

Theorem C13_loadable_preserved_partial : forall O, unproved_steps_keep O ->
  forall cur tgt m m', (cur <= tgt <= 29)%nat ->
    upgrade O cur tgt m = Ok m' -> loadable cur m = true -> loadable tgt m' = true.
Proof. exact loadable_preserved_partial. Qed.
Print Assumptions C13_loadable_preserved_partial.

(** The full theorem: all 29 per-step lemmas composed over the table. *)
Theorem C13_loadable_preserved : forall O cur tgt m m', (cur <= tgt <= 29)%nat ->
  upgrade O cur tgt m = Ok m' -> loadable cur m = true -> loadable tgt m' = true.
Proof. exact loadable_preserved. Qed.
Print Assumptions C13_loadable_preserved.

Theorem C13_loadable_preserved_is_statement : C13_loadable_preserved_statement.
Proof. exact loadable_preserved_is_statement. Qed.
Print Assumptions C13_loadable_preserved_is_statement.

Theorem C13_unproved_steps_keep_holds : forall O, unproved_steps_keep O.
Proof. exact unproved_steps_kept. Qed.
Print Assumptions C13_unproved_steps_keep_holds.

(** At the level of [Migrate], and for what the loader actually reads: the
    new body is loadable as the tree the steps leave and as the file written
    from it (serialising erases Go's dynamic types, which keeps every kind).
    This is the statement the evaluator checks per document ([loadable_kept]). *)
Theorem C13_output_loadable : forall O top t a,
  migrate O top t = ONew a ->
  loadable (nat_version (input_map top)) (input_map top) = true ->
  loadable (Z.to_nat t) a = true /\ loadable (Z.to_nat t) (norm_obj a) = true.
Proof. exact migrate_output_loadable. Qed.
Print Assumptions C13_output_loadable.

Theorem C13_reread_keeps_kinds : forall s v, conforms s v = true -> conforms s (norm v) = true.
Proof. exact conforms_norm. Qed.
Print Assumptions C13_reread_keeps_kinds.

Example C13_loadable_moves_satisfiable :
  loadable 14 doc14_moves = true /\
  exists a, migrate oracles0 (Some doc14_moves) 29 = ONew a /\ loadable 29 a = true /\ loadable 29 (norm_obj a) = true /\
    (exists q, get "querylog" a = Some (VObj q) /\ get "size_memory" q = Some (VInt 500)) /\
    (exists l, get "log" a = Some (VObj l) /\ get "max_backups" l = Some (VInt 3)) /\
    (exists f, get "filtering" a = Some (VObj f) /\ get "blocked_response_ttl" f = Some (VInt 10)).
Proof. exact loadable_doc14_moves. Qed.
Print Assumptions C13_loadable_moves_satisfiable.

Example C13_loadable_typed_and_file :
  exists a, migrate oracles0 (Some doc22) 29 = ONew a /\ loadable 22 doc22 = true /\
    loadable 29 a = true /\ loadable 29 (norm_obj a) = true /\ plain (VObj a) = false.
Proof. exact doc22_loadable_both. Qed.
Print Assumptions C13_loadable_typed_and_file.

Example C13_loadable_satisfiable :
  loadable 3 doc3_clients = true /\
  exists a, migrate oracles0 (Some doc3_clients) 29 = ONew a /\ loadable 29 a = true /\ loadable 29 (norm_obj a) = true.
Proof. exact loadable_doc3. Qed.
Print Assumptions C13_loadable_satisfiable.

(** ** The table against the real decoder

    [kinds_accept] (Model/MigrateKinds.v) is the verdict of [yaml.Unmarshal]
    into the [configuration] type on the kinds of a document of the current
    schema version, read off the same table ([decodes]: null accepted
    everywhere, any float at an integer field).  The harness compares it with
    the real decoder, accept with accept and reject with reject, on a document
    holding every key of the table mutated at one position at a time (about
    1100 documents per run), and compares the table with the Go types found by
    reflection at every yaml path.  What is loadable decodes; so every upgrade
    to the current version of a document loadable at its own version is
    accepted by the decoder's kind check, as a tree and as a file. *)
Theorem C13_loadable_decodes : forall m, loadable current m = true -> kinds_accept m = true.
Proof. exact loadable_kinds_accept. Qed.
Print Assumptions C13_loadable_decodes.

Theorem C13_output_decodes : forall O top a,
  migrate O top 29 = ONew a ->
  loadable (nat_version (input_map top)) (input_map top) = true ->
  kinds_accept a = true /\ kinds_accept (norm_obj a) = true.
Proof. exact migrate_output_kinds_accept. Qed.
Print Assumptions C13_output_decodes.

Example C13_kinds_told_apart :
  kinds_accept [("schema_version", VInt 29); ("filtering", VNull)] = true /\
  loadable 29 [("schema_version", VInt 29); ("filtering", VNull)] = false /\
  kinds_accept [("schema_version", VInt 29); ("log", VObj [("max_age", VFloat None "2.5")])] = true /\
  loadable 29 [("schema_version", VInt 29); ("log", VObj [("max_age", VFloat None "2.5")])] = false /\
  kinds_accept [("schema_version", VInt 29); ("dns", VObj [("bind_hosts", VStr "127.0.0.1")])] = false /\
  kinds_accept [("schema_version", VInt 29); ("log", VObj [("max_size", VStr "big")])] = false /\
  kinds_accept [("schema_version", VInt 29); ("log", VObj [("file", VInt 5)])] = true /\
  kinds_accept [("schema_version", VInt 29); ("log", VArr [])] = false.
Proof. exact kinds_examples. Qed.
Print Assumptions C13_kinds_told_apart.

Example C13_null_pointer_section_not_loadable :
  loadable 29 [("schema_version", VInt 29); ("filtering", VNull)] = false /\
  loadable 29 [("schema_version", VInt 29); ("dns", VNull)] = true.
Proof. exact null_section_not_loadable. Qed.
Print Assumptions C13_null_pointer_section_not_loadable.

(** ** Footprints: what each step may touch (round 4)

    [fp_table] (Model/MigrateFootprint.v) declares for each of the 29 steps
    where it may write, rename or delete: a tree that follows the document
    ([FAll] anything below here; [FKeys] a map stays a map and only the
    listed keys may change, each by its own footprint; [FElems] a list stays
    a list of the same length, each element by the footprint).  Keys a step
    only reads are outside.  [Within f a b]: [b] differs from [a] only as [f]
    allows.  Every step of the table stays within its footprint, for every
    document on which it succeeds and every oracle.  The harness holds the
    same table as a Go literal (compared with [fp_table] in Coq at every run)
    and evaluates [Within] on the document before and after each REAL step. *)
Theorem C13_steps_within_footprints : forall O, Forall2 stays fp_table (map snd (steps O)).
Proof. exact steps_stay. Qed.
Print Assumptions C13_steps_within_footprints.

Theorem C13_step_within_footprint : forall O n f s m m',
  nth_error fp_table n = Some f -> nth_error (map snd (steps O)) n = Some s ->
  s (Some m) = Ok m' -> Within f (Some (VObj m)) (Some (VObj m')).
Proof. intros O n f s m m' Hf Hs. exact (table_step_stays O n f s Hf Hs m m'). Qed.
Print Assumptions C13_step_within_footprint.

(** A step that changes nothing is within any footprint. *)
Theorem C13_unchanged_is_within : forall f a, Within f a a.
Proof. exact Within_refl. Qed.
Print Assumptions C13_unchanged_is_within.

(** From footprints to key paths: what lies on a path [outside] the
    footprint (a value, or nothing) is the same before and after. *)
Theorem C13_footprint_paths : forall f a b p,
  Within f a b -> outside f p = true -> lookup p a = lookup p b.
Proof. exact Within_outside. Qed.
Print Assumptions C13_footprint_paths.

(** "Settings a step does not concern are preserved", at full depth: every
    key path (through sections and list positions) outside the footprint of
    every step that ran holds in the upgraded document what it held in the
    input.  For any range of steps, and for [Migrate]. *)
Theorem C13_frame_paths_steps : forall O cur tgt m m' p,
  upgrade O cur tgt m = Ok m' -> outside_all (fps_of cur tgt) p = true ->
  lookup p (Some (VObj m')) = lookup p (Some (VObj m)).
Proof. exact upgrade_paths. Qed.
Print Assumptions C13_frame_paths_steps.

Theorem C13_frame_paths : forall O top t m' p,
  migrate O top t = ONew m' ->
  outside_all (fps_of (nat_version (input_map top)) (Z.to_nat t)) p = true ->
  lookup p (Some (VObj m')) = lookup p (Some (VObj (input_map top))).
Proof. exact migrate_paths. Qed.
Print Assumptions C13_frame_paths.

(** Non-vacuity: in the version-22 example a key of [dns] no step lists, the
    url of a filter (read by step 29) and an element of a list are outside
    every footprint and preserved; [bind_host] and [dns.all_servers] are
    inside and do change. *)
Example C13_frame_paths_satisfiable :
  let fs := fps_of 22 29 in
  outside_all fs [SK "dns"; SK "port"] = true /\
  outside_all fs [SK "filters"; SI 1; SK "url"] = true /\
  outside_all fs [SK "dns"; SK "bootstrap_dns"; SI 1] = true /\
  outside_all fs [SK "bind_host"] = false /\
  outside_all fs [SK "dns"] = false /\
  outside_all fs [SK "dns"; SK "all_servers"] = false /\
  exists m', migrate oracles0 (Some doc22p) 29 = ONew m' /\
    lookup [SK "dns"; SK "port"] (Some (VObj m')) = Some (VInt 5353) /\
    lookup [SK "filters"; SI 1; SK "url"] (Some (VObj m')) = Some (VStr "https://a.example/l.txt") /\
    lookup [SK "dns"; SK "bootstrap_dns"; SI 1] (Some (VObj m')) = Some (VStr "1.1.1.1") /\
    lookup [SK "bind_host"] (Some (VObj doc22p)) = Some (VStr "127.0.0.1") /\
    lookup [SK "bind_host"] (Some (VObj m')) = None /\
    lookup [SK "dns"; SK "all_servers"] (Some (VObj m')) = None.
Proof. exact doc22_paths. Qed.
Print Assumptions C13_frame_paths_satisfiable.

(** The footprints tell steps apart: step 9 is not within step 8's. *)
Example C13_footprints_not_vacuous :
  exists m m', step9 (Some m) = Ok m' /\ ~ Within fp8 (Some (VObj m)) (Some (VObj m')).
Proof. exact step9_leaves_fp8. Qed.
Print Assumptions C13_footprints_not_vacuous.

(** ** Inside the footprint: steps that rewrite a value in place

    The new value at the key is the documented function of the OLD value at
    the SAME key ([f3]: wrap in a list; [f12], [f20]: days to a duration with
    the default; [f17]: the switch becomes an object; [f21]: the list becomes
    [{schedule, ids}]); for the list-walking steps 10, 22, 27 see
    [C13_upstreams_elementwise], [C13_clients_elementwise],
    [C13_ignored_elementwise] above.  The harness evaluates Go twins of these
    functions (compared with them in Coq on samples) on every real step. *)
Theorem C13_value_step3 : rewrites_at step3 "dns" "bootstrap_dns" f3.
Proof. exact value3. Qed.
Print Assumptions C13_value_step3.

Theorem C13_value_step12 : rewrites_at step12 "dns" "querylog_interval" f12.
Proof. exact value12. Qed.
Print Assumptions C13_value_step12.

Theorem C13_value_step17 : rewrites_at step17 "dns" "edns_client_subnet" f17.
Proof. exact value17. Qed.
Print Assumptions C13_value_step17.

Theorem C13_value_step20 : rewrites_at step20 "statistics" "interval" f20.
Proof. exact value20. Qed.
Print Assumptions C13_value_step20.

Theorem C13_value_step21 : rewrites_at step21 "dns" "blocked_services" f21.
Proof. exact value21. Qed.
Print Assumptions C13_value_step21.

Example C13_values_defined :
  f3 (Some (VStr "1.1.1.1")) = Some (Some (VArr [VStr "1.1.1.1"])) /\
  f12 (Some (VInt 30)) = Some (Some (VDur 2592000000000000)) /\
  f12 None = Some (Some (VDur 7776000000000000)) /\
  f17 (Some (VBool true)) = Some (Some (VObj [("enabled", VBool true); ("use_custom", VBool false); ("custom_ip", VStr "")])) /\
  f20 (Some (VInt 0)) = Some (Some (VDur 86400000000000)) /\
  f21 (Some (VArr [VStr "500px"])) = Some (Some (VObj [("schedule", schedule0); ("ids", VArr [VStr "500px"])])) /\
  f21 (Some (VStr "x")) = None.
Proof. exact values_defined. Qed.
Print Assumptions C13_values_defined.

(** ** Round 5: the caller of [Migrate] and the FILE ([home.parseConfig]:
    read, upgrade, atomic write-back, load; a fault possible at each step).
    [wr]: an attempted write-back succeeds; [accepts]: the loader's verdict. *)

(** The either/or of the property, about the file.  A nil return: the file
    holds a document stamped with the current version and that document is
    what was loaded.  An error of reading, upgrading or writing back: the file
    is what it was.  An error of the loader: the file is what it was, or it
    holds the upgraded document, stamped current, which the loader refused.
    Never a panic. *)
Theorem C13_parse_config_either_or : forall O accepts f wr r w,
  parse_config O accepts f wr = (r, w) -> either_or accepts f r w.
Proof. exact parse_config_either_or. Qed.
Print Assumptions C13_parse_config_either_or.

Theorem C13_parse_config_no_panic : forall O accepts f wr, fst (parse_config O accepts f wr) <> PPanic.
Proof. exact parse_config_no_panic. Qed.
Print Assumptions C13_parse_config_no_panic.

(** Success in detail: loaded = file, stamped current, accepted by the loader;
    after an upgrade the written body is the loaded one and carries the stamp
    as an integer; without an upgrade nothing is written. *)
Theorem C13_parse_config_success : forall O accepts f wr m up w,
  parse_config O accepts f wr = (PLoaded m up, w) ->
  stamped_current (file_after f w) m /\ accepts m = true /\
  (if up then w = Some m /\ get "schema_version" m = Some (VInt last_version) else w = None).
Proof. exact parse_config_success. Qed.
Print Assumptions C13_parse_config_success.

(** When the loader accepts what the upgrade of this file produces (the
    conclusion of [C13_output_loadable] for inputs valid under their own
    schema), EVERY error leaves the file as it was. *)
Theorem C13_parse_config_error_keeps_file : forall O accepts f wr r w,
  upgrade_acceptable O accepts f ->
  parse_config O accepts f wr = (r, w) -> is_error r = true -> w = None /\ file_after f w = f.
Proof. exact parse_config_error_keeps_file. Qed.
Print Assumptions C13_parse_config_error_keeps_file.

(** Idempotence at the level of the file: the start after a successful one
    finds nothing to upgrade and writes nothing, whatever the write outcome
    would be. *)
Theorem C13_parse_config_second_run_noop : forall O accepts f wr m up w,
  parse_config O accepts f wr = (PLoaded m up, w) ->
  forall wr2, parse_config O accepts (file_after f w) wr2 = (PLoaded m false, None).
Proof. exact parse_config_second_run_noop. Qed.
Print Assumptions C13_parse_config_second_run_noop.

Theorem C13_parse_twice_after_success : forall O accepts f wr1 wr2 m up w,
  parse_config O accepts f wr1 = (PLoaded m up, w) ->
  parse_twice O accepts f wr1 wr2 = (PLoaded m up, PLoaded m false, file_after f w).
Proof. exact parse_twice_after_success. Qed.
Print Assumptions C13_parse_twice_after_success.

(** A start that failed on the write-back leaves the next start what a
    fault-free start finds; and the write outcome is consulted only when an
    upgrade is needed. *)
Theorem C13_parse_config_retry : forall O accepts f w,
  parse_config O accepts f false = (PWriteErr, w) ->
  parse_config O accepts (file_after f w) true = parse_config O accepts f true.
Proof. exact parse_config_retry. Qed.
Print Assumptions C13_parse_config_retry.

Theorem C13_parse_config_fault_irrelevant : forall O accepts f,
  (forall top m', f = FDoc top -> migrate O top last_version <> ONew m') ->
  parse_config O accepts f false = parse_config O accepts f true.
Proof. exact parse_config_fault_irrelevant. Qed.
Print Assumptions C13_parse_config_fault_irrelevant.

(** Premises satisfiable: every outcome has a concrete instance. *)
Example C13_parse_config_outcomes :
  (exists b, parse_config oracles0 accept_all (FDoc (Some doc22)) true = (PLoaded b true, Some b) /\
             get "schema_version" b = Some (VInt 29) /\ doc_version doc22 = 22) /\
  parse_config oracles0 accept_all (FDoc (Some doc22)) false = (PWriteErr, None) /\
  (exists b, parse_config oracles0 accept_none (FDoc (Some doc22)) true = (PLoadErr, Some b) /\ doc_version b = 29) /\
  parse_config oracles0 accept_all (FDoc (Some [("schema_version", VInt 29)])) false
    = (PLoaded [("schema_version", VInt 29)] false, None) /\
  parse_config oracles0 accept_all FUnreadable true = (PReadErr, None) /\
  parse_config oracles0 accept_all FGarbage true = (PMigrateErr, None).
Proof. exact parse_outcomes. Qed.
Print Assumptions C13_parse_config_outcomes.

(** REFUTED variant (seeded change C13-J): a failed write-back that is only
    logged.  Witness: the version-22 document [doc22], the write fails: a nil
    return with a version-29 document loaded, the file still version 22, and
    the next start upgrades again. *)
Theorem C13_swallowed_write_error_refuted : swallow_breaks_either_or.
Proof. exact swallowed_write_error_refuted. Qed.
Print Assumptions C13_swallowed_write_error_refuted.

Theorem C13_swallow_not_either_or :
  ~ (forall O accepts f wr r w, parse_config_swallow O accepts f wr = (r, w) -> either_or accepts f r w).
Proof. exact swallow_not_either_or. Qed.
Print Assumptions C13_swallow_not_either_or.

(** ... while without a fault it is the same function, which is why no
    fault-free run tells the two apart. *)
Theorem C13_swallow_same_without_fault : forall O accepts f,
  parse_config_swallow O accepts f true = parse_config O accepts f true.
Proof. exact swallow_same_without_fault. Qed.
Print Assumptions C13_swallow_same_without_fault.

(** ** Round 6: the ports (the first VALUE clause of the loader)

    [doc_ports_ok v m] (Model/MigratePorts.v) is the port clause of
    [validateConfig] as the code has it on the unchanged tree, read from a
    document the way version [v] spells the ports: every port a [uint16], the
    NON-ZERO ports of one transport pairwise distinct (web, and with
    [tls.enabled] HTTPS, DNS-over-TLS, DNSCrypt; DNS, and with [tls.enabled]
    DNS-over-QUIC); a zero port is a listener switched off and is skipped
    ([addPorts]).  A successful upgrade of a document loadable at its version
    whose ports are valid under that version has ports the current loader
    accepts; [web_together]: below version 23 [bind_port] does not come
    without [bind_host] (the program of version 22 wrote both). *)
Theorem C13_upgrade_preserves_ports_ok : forall O cur tgt m m', (cur <= tgt <= 29)%nat ->
  upgrade O cur tgt m = Ok m' ->
  loadable cur m = true -> (web_flat cur = true -> web_together m = true) ->
  doc_ports_ok cur m = true ->
  doc_ports_ok tgt m' = true.
Proof. exact upgrade_preserves_ports_ok. Qed.
Print Assumptions C13_upgrade_preserves_ports_ok.

(** Kinds and ports together: the loader's verdict on the fields the steps touch. *)
Theorem C13_upgrade_preserves_loadable_ports : forall O cur tgt m m', (cur <= tgt <= 29)%nat ->
  upgrade O cur tgt m = Ok m' ->
  (web_flat cur = true -> web_together m = true) ->
  loadable_ports cur m = true -> loadable_ports tgt m' = true.
Proof. exact upgrade_preserves_loadable_ports. Qed.
Print Assumptions C13_upgrade_preserves_loadable_ports.

(** Carried to [Migrate] and to the file the loader reads (the statement
    Run/C13.v evaluates on every upgraded document). *)
Theorem C13_output_ports_ok : forall O top t a,
  migrate O top t = ONew a ->
  let m := input_map top in
  loadable (nat_version m) m = true ->
  (web_flat (nat_version m) = true -> web_together m = true) ->
  doc_ports_ok (nat_version m) m = true ->
  doc_ports_ok (Z.to_nat t) a = true /\ doc_ports_ok (Z.to_nat t) (norm_obj a) = true.
Proof. exact migrate_output_ports_ok. Qed.
Print Assumptions C13_output_ports_ok.

(** What step 23 writes is read back by the loader as the same port. *)
Theorem C13_address_port_roundtrip : forall host p,
  in_u16 p = true -> port_of_addr (host ++ ":" ++ dec p)%string = Some p.
Proof. exact port_of_addr_join. Qed.
Print Assumptions C13_address_port_roundtrip.

(** A listener switched off never makes two others collide (used at step 23,
    which writes port 0 for a [bind_host] without [bind_port]). *)
Theorem C13_ports_ok_web_zero : forall p,
  ports_ok p = true ->
  ports_ok {| p_tls := p_tls p; p_web := 0; p_dns := p_dns p; p_https := p_https p; p_dot := p_dot p;
              p_doq := p_doq p; p_dnscrypt := p_dnscrypt p |} = true.
Proof. exact ports_ok_web_zero. Qed.
Print Assumptions C13_ports_ok_web_zero.

(** For [parseConfig] with the port clause as the loader: the hypothesis
    [upgrade_acceptable] of [C13_parse_config_error_keeps_file] holds, so every
    error of a start on such a file leaves the file as it was. *)
Theorem C13_parse_config_valid_ports_error_keeps_file : forall O top wr r w,
  let m := input_map top in
  loadable (nat_version m) m = true ->
  (web_flat (nat_version m) = true -> web_together m = true) ->
  doc_ports_ok (nat_version m) m = true ->
  parse_config O (doc_ports_ok 29) (FDoc top) wr = (r, w) -> is_error r = true ->
  w = None /\ file_after (FDoc top) w = FDoc top.
Proof. exact parse_config_valid_ports_error_keeps_file. Qed.
Print Assumptions C13_parse_config_valid_ports_error_keeps_file.

(** Premises satisfiable: the two documents of seeded change C13-L (encryption
    on, HTTPS switched off by hand / a [bind_host] without [bind_port]) are
    loadable at version 22, their ports valid, and their upgrade is accepted. *)
Example C13_seed_documents_upgrade_fine :
  forall d, In d [doc_https_off; doc_no_bind_port] ->
    loadable 22 d = true /\ web_together d = true /\ doc_ports_ok 22 d = true /\
    exists a, migrate oracles_lo (Some d) 29 = ONew a /\ doc_ports_ok 29 (norm_obj a) = true.
Proof. exact seed_documents_upgrade_fine. Qed.
Print Assumptions C13_seed_documents_upgrade_fine.

(** REFUTED variant "zero counts as a port" (seeded change C13-L: the loader
    calls [UniqChecker.Add] directly instead of [addPorts]): both documents,
    valid under their own schema, upgrade to a file that loader refuses. *)
Theorem C13_zero_counts_loader_refuted :
  forall d, In d [doc_https_off; doc_no_bind_port] ->
    loadable 22 d = true /\ web_together d = true /\ doc_ports_ok 22 d = true /\
    exists a, migrate oracles_lo (Some d) 29 = ONew a /\ doc_ports_ok_gen true 29 (norm_obj a) = false.
Proof. exact zero_counts_loader_refuted. Qed.
Print Assumptions C13_zero_counts_loader_refuted.

(** ... and even with zero counted on both sides the preservation statement
    fails (step 23 adds a second zero TCP port). *)
Theorem C13_zero_counts_not_preserved :
  exists O cur tgt m m', (cur <= tgt <= 29)%nat /\ upgrade O cur tgt m = Ok m' /\
    loadable cur m = true /\ web_together m = true /\
    doc_ports_ok_gen true cur m = true /\ doc_ports_ok_gen true tgt m' = false.
Proof. exact zero_counts_not_preserved. Qed.
Print Assumptions C13_zero_counts_not_preserved.

(** REFUTED without [web_together], ON THE CODE AS IT IS (known finding
    C13-step23-lone-web-key): a web port without a web host below version 23
    is left at the top level by step 23; the loader falls back to port 3000,
    which HTTPS holds in the witness. *)
Theorem C13_lone_bind_port_refuted :
  loadable 22 doc_lone_bind_port = true /\ doc_ports_ok 22 doc_lone_bind_port = true /\
  web_together doc_lone_bind_port = false /\
  exists a, migrate oracles_lo (Some doc_lone_bind_port) 29 = ONew a /\ doc_ports_ok 29 (norm_obj a) = false.
Proof. exact lone_bind_port_refuted. Qed.
Print Assumptions C13_lone_bind_port_refuted.

(** ** Round 7: the grammar of upstream lines at step 10

    [add_quic_port core] (Model/MigrateQuic.v) is [addQUICPort] with the shape
    of the line in the model ("" and comments, the "[/domain/.../]" prefix cut
    by [strings.Split] with exactly two parts, "://" required) and the URL
    code as the oracle [core] on the part after the prefix.  Whatever the core
    answers, the domain prefix of the line is kept byte for byte, and a line
    the core leaves alone is returned whole. *)
Theorem C13_step10_keeps_domain_prefix : forall core s,
  exists t, add_quic_port core s = (domain_prefix s ++ t)%string.
Proof. exact step10_keeps_domain_prefix. Qed.
Print Assumptions C13_step10_keeps_domain_prefix.

Theorem C13_add_quic_port_shape : forall core s,
  add_quic_port core s = s \/
  exists rest r, s = (domain_prefix s ++ rest)%string /\ core rest = Some r /\
                 add_quic_port core s = (domain_prefix s ++ r)%string.
Proof. exact add_quic_port_shape. Qed.
Print Assumptions C13_add_quic_port_shape.

Theorem C13_add_quic_port_leaves_alone : forall core s,
  (forall rest, core rest = None) -> add_quic_port core s = s.
Proof. exact add_quic_port_leaves_alone. Qed.
Print Assumptions C13_add_quic_port_leaves_alone.

(** At the element function of step 10. *)
Theorem C13_quic_elem_keeps_domain_prefix : forall O core s v,
  quic_elem (with_core O core) (VStr s) = Ok v -> exists t, v = VStr (domain_prefix s ++ t).
Proof. exact quic_elem_keeps_domain_prefix. Qed.
Print Assumptions C13_quic_elem_keeps_domain_prefix.

(** REFUTED variant (seeded change C13-M): the two late leave-alone exits
    return the part after the prefix.  Witness "[/lan/]tls://192.168.1.1". *)
Theorem C13_drop_prefix_refuted :
  exists core s, (forall rest, core rest = None) /\ domain_prefix s = "[/lan/]" /\
    add_quic_port_drop core s = "tls://192.168.1.1" /\
    ~ exists t, add_quic_port_drop core s = (domain_prefix s ++ t)%string.
Proof. exact drop_prefix_refuted. Qed.
Print Assumptions C13_drop_prefix_refuted.

(** ... while on a line without a domain prefix it is the same function. *)
Theorem C13_drop_same_without_prefix : forall core s,
  domain_prefix s = EmptyString -> add_quic_port_drop core s = add_quic_port core s.
Proof. exact drop_same_without_prefix. Qed.
Print Assumptions C13_drop_same_without_prefix.

(** C13: the configuration upgrade never panics, reaches the requested schema
    version, keeps the input on error, is idempotent at the current version,
    preserves settings no step concerns, and does not depend on the path.
    Only statements here; proofs live in Proofs/Migrate*.v.  All theorems hold
    for every instance of the external functions (bcrypt, URL splitting,
    address parsing, data directory), which enter as the oracle record [O]. *)
From Coq Require Import List ZArith String.
From AGH Require Import Model.Migrate Proofs.Migrate Proofs.MigrateFrame Proofs.MigrateSim
  Proofs.MigrateTable Gen.MigrateTable Proofs.MigrateFrameDns.
Import ListNotations.
Local Open Scope string_scope.
Local Open Scope Z_scope.

(** The step table read out of migrator.go at this run is the one the model
    composes: same step functions in the same order, entry [i] stamping
    version [i+1], same LastSchemaVersion, nothing the reader could not resolve. *)
Theorem C13_table_matches_source : forall O,
  map (fun e => snd (fst e)) step_table = map fst (steps O) /\
  map (fun e => fst (fst e)) step_table = seq 0 (List.length (steps O)) /\
  map snd step_table = map (fun i => Z.of_nat (S i)) (seq 0 (List.length (steps O))) /\
  last_schema_version = last_version /\
  Z.of_nat (List.length (steps O)) = last_version /\
  unresolved = [].
Proof. exact table_matches. Qed.
Print Assumptions C13_table_matches_source.

(** For every decoded document (including the nil map an explicit null
    document leaves), every target: no run-time panic. *)
Theorem C13_no_panic : forall O top target, migrate O top target <> OPanic.
Proof. exact migrate_no_panic. Qed.
Print Assumptions C13_no_panic.

(** Every step assigns into the top-level map first: without the guard that
    replaces a nil map by an empty one, a null document would panic. *)
Theorem C13_steps_need_non_nil_map : forall O s, In s (map snd (steps O)) -> s None = Panic.
Proof. exact nil_map_would_panic. Qed.
Print Assumptions C13_steps_need_non_nil_map.

(** An error comes with the unchanged input body and "not upgraded". *)
Theorem C13_error_keeps_input : forall O top target,
  migrate O top target = OErr ->
  returned_body (migrate O top target) = None /\ is_upgraded (migrate O top target) = false.
Proof. exact migrate_error_keeps_input. Qed.
Print Assumptions C13_error_keeps_input.

(** A new body carries the target version. *)
Theorem C13_stamped : forall O top target m',
  migrate O top target = ONew m' -> get "schema_version" m' = Some (VInt target).
Proof. exact migrate_stamped. Qed.
Print Assumptions C13_stamped.

(** A document at the target version is returned unchanged, and so is the
    re-read result of any upgrade. *)
Theorem C13_idempotent_at_current : forall O m target,
  get "schema_version" m = Some (VInt target) -> 0 <= target <= last_version ->
  migrate O (Some m) target = OSame.
Proof. exact migrate_at_target. Qed.
Print Assumptions C13_idempotent_at_current.

Theorem C13_idempotent_after_upgrade : forall O top target m',
  migrate O top target = ONew m' -> migrate O (Some (norm_obj m')) target = OSame.
Proof. exact migrate_idempotent. Qed.
Print Assumptions C13_idempotent_after_upgrade.

(** Top-level keys outside [written] (and the version stamp) keep their value
    through any upgrade. *)
Theorem C13_frame : forall O top target m' k,
  migrate O top target = ONew m' -> mem_b k written = false -> k <> "schema_version" ->
  get k m' = get k (input_map top).
Proof. exact migrate_frame. Qed.
Print Assumptions C13_frame.

(** The same inside the [dns] section, where most settings live: from schema
    version 2 on (step 2 replaces the section by [coredns]) every key of [dns]
    outside [dns_written] keeps its value, and the section stays a section. *)
Theorem C13_frame_dns : forall O top t m' d k,
  migrate O top t = ONew m' -> 2 <= version_of (input_map top) ->
  get "dns" (input_map top) = Some (VObj d) -> mem_b k dns_written = false ->
  exists d', get "dns" m' = Some (VObj d') /\ get k d' = get k d.
Proof. exact migrate_dns_frame. Qed.
Print Assumptions C13_frame_dns.

Example C13_frame_dns_satisfiable :
  mem_b "port" dns_written = false /\
  exists m' d', migrate oracles0 (Some (upd "dns" (VObj [("port", VInt 5353); ("all_servers", VBool true)]) doc22)) 29 = ONew m' /\
    get "dns" m' = Some (VObj d') /\ get "port" d' = Some (VInt 5353) /\ get "all_servers" d' = None.
Proof. exact doc22_dns_frame. Qed.
Print Assumptions C13_frame_dns_satisfiable.

(** Path independence, for every document, every target and every split point
    [k] strictly between the document's version and the target: upgrading to
    [k], writing the file, reading it back ([norm_obj]: Go's dynamic types are
    erased) and upgrading on gives the same file as upgrading in one run.  All
    29 steps are covered. *)
Theorem C13_path_independent : forall O top t k a,
  migrate O top t = ONew a -> version_of (input_map top) < k < t ->
  exists b c, migrate O top k = ONew b /\
              migrate O (Some (norm_obj b)) t = ONew c /\
              norm_obj c = norm_obj a.
Proof. exact migrate_path_independent. Qed.
Print Assumptions C13_path_independent.

(** The conditional form is as far as it goes.  The unconditional reading
    (also when the one run fails, the split run fails alike) is false:
    [schema_version: 9, rlimit_nofile: 2.0] fails in one run (step 11 rejects
    the float64) and succeeds when split at version 10, because the file
    written at version 10 holds [2].  Known finding path-dependent-whole-float. *)
Theorem C13_path_independent_unconditional_refuted :
  exists O top t k, version_of (input_map top) < k < t /\
    migrate O top t = OErr /\ exists c, split_run O top k t = ONew c.
Proof. exact path_independent_unconditional_refuted. Qed.
Print Assumptions C13_path_independent_unconditional_refuted.

Theorem C13_path_independent_unconditional_false : ~ path_independent_unconditional_statement.
Proof. exact path_independent_unconditional_false. Qed.
Print Assumptions C13_path_independent_unconditional_false.

(** The same at the level of the step table, for any in-memory tree (typed
    values anywhere) and any range of steps: running the steps on the tree or
    on its re-read form leads to the same file. *)
Theorem C13_steps_respect_reread : forall O cur tgt m a,
  upgrade O cur tgt m = Ok a ->
  exists c, upgrade O cur tgt (norm_obj m) = Ok c /\ norm_obj c = norm_obj a.
Proof. exact upgrade_respects_reread. Qed.
Print Assumptions C13_steps_respect_reread.

(** Non-vacuity of the split: version 22 to 29 through a file at version 28,
    where the in-memory tree holds a typed upstream mode and the file plain text. *)
Example C13_split_satisfiable :
  exists a b c,
    migrate oracles0 (Some doc22) 29 = ONew a /\ migrate oracles0 (Some doc22) 28 = ONew b /\
    migrate oracles0 (Some (norm_obj b)) 29 = ONew c /\ norm_obj c = norm_obj a /\
    get "dns" b = Some (VObj [("upstream_mode", VMode MParallel)]) /\
    get "dns" (norm_obj b) = Some (VObj [("upstream_mode", VStr "parallel")]).
Proof. exact doc22_split. Qed.
Print Assumptions C13_split_satisfiable.

(** Non-vacuity: a concrete version-22 document upgrades to 29, keeps a key no
    step concerns; an ill-typed one fails; a null document upgrades. *)
Example C13_premises_satisfiable :
  (exists m', migrate oracles0 (Some doc22) 29 = ONew m' /\
     get "schema_version" m' = Some (VInt 29) /\ get "theme" m' = Some (VStr "auto")) /\
  migrate oracles0 (Some [("schema_version", VInt 10); ("rlimit_nofile", VStr "x")]) 29 = OErr /\
  (exists m', migrate oracles0 None 29 = ONew m' /\ get "schema_version" m' = Some (VInt 29)) /\
  mem_b "theme" written = false.
Proof.
  split; [destruct doc22_upgrades as (m' & H1 & H2 & H3 & _); eauto|].
  split; [exact doc_error|]. split; [exact doc_null_document|reflexivity].
Qed.
Print Assumptions C13_premises_satisfiable.

(** C15 (stub, extended below). *)
From Coq Require Import NArith List.
From AGH Require Import Base.Run Model.RuleListParser Proofs.RuleListParser.

Theorem C15_stub : output p_init = [].
Proof. exact output_nil. Qed.
Print Assumptions C15_stub.

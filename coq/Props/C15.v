(** C15: a failed filter refresh changes nothing; a successful one stores a
    stable form.  Only statements here; proofs live in Proofs/RuleListParser.v
    and Proofs/Refresh.v.  The parser theorems hold for every checksum
    function [crc] (hash/crc32 in the code). *)
From Coq Require Import NArith List.
From AGH Require Import Base.Run Model.RuleListParser Model.Refresh Proofs.RuleListParser Proofs.Refresh.
Import ListNotations.
Local Open Scope N_scope.

(** The stored form is a fixed point: whatever text (and however it was cut
    into reads) parsed successfully into [y = output st], parsing [y] succeeds,
    writes [y] again, with the same rule count, checksum and byte count. *)
Theorem C15_normal_form_fixed_point : forall crc x read_err st,
  parse crc x read_err = (st, None) ->
  exists st',
    parse crc (output st) false = (st', None) /\
    output st' = output st /\
    p_count st' = p_count st /\ p_sum st' = p_sum st /\ p_written st' = p_written st.
Proof. exact parse_fixed_point. Qed.
Print Assumptions C15_normal_form_fixed_point.

(** Shape of the stored form: newline-terminated lines, none blank, none a
    comment, none with a leading or trailing white-space rune, none with a
    newline or a binary byte inside; count, checksum and size describe exactly
    these lines. *)
Theorem C15_output_shape : forall crc x read_err st,
  parse crc x read_err = (st, None) ->
  exists ws, output st = flat_map (fun w => w ++ [10]) ws /\ Forall line_shape ws /\
             p_count st = cntN ws /\ p_sum st = fold_left crc ws 0 /\
             p_written st = lenN (output st).
Proof. exact parse_output_shape. Qed.
Print Assumptions C15_output_shape.

(** A reader that ends in an error never yields a successful parse. *)
Theorem C15_read_error_is_error : forall crc x st e,
  parse crc x true = (st, e) -> e <> None.
Proof. exact parse_read_error. Qed.
Print Assumptions C15_read_error_is_error.

(** Non-vacuity: a text with a title, comments, CRLF, Unicode spaces, an
    inner CR and an unterminated last line parses, and is changed by it. *)
Example C15_premises_satisfiable :
  let '(st, e) := parse crc32_update Examples.text false in
  e = None /\ output st = Examples.stored /\ p_count st = 3 /\ p_title st = [84] /\
  output st <> Examples.text.
Proof. exact parse_example. Qed.

(** ** Refresh *)

(** The failures: no reader at all (connection error, status other than 200,
    unreadable or unsafe local file), or content on which the parser returns
    an error.  A body that ends in a read error is one, wherever it is cut:
    before the first byte, in the middle of a line, at a line boundary. *)
Theorem C15_cut_body_fails : forall crc d, fails crc (OBody d true).
Proof. exact cut_body_fails. Qed.
Print Assumptions C15_cut_body_fails.

(** Any sequence of refreshes (block and/or allow lists, forced or scheduled,
    any lists due) in which every list's source fails leaves the whole state
    as it was: every file, every rule count and checksum, and the engine,
    i.e. the rules in force. *)
Theorem C15_failed_refresh_is_noop : forall crc ops st,
  Forall (fun o => forall l, In l (r_block st ++ r_allow st) -> fails crc (o_oc o (f_id l))) ops ->
  run_ops crc ops st = st.
Proof. exact failed_refreshes_noop. Qed.
Print Assumptions C15_failed_refresh_is_noop.

(** A download whose pending file cannot replace the list's file is such a
    failure as well. *)
Theorem C15_rename_failure_fails : forall crc d, fails crc (ORenameFail d).
Proof. exact rename_failure_fails. Qed.
Print Assumptions C15_rename_failure_fails.

(** In a refresh where other lists may succeed: the list whose source fails
    keeps its file (the same bytes, not replaced) and its entry (name, rule
    count, checksum) unchanged. *)
Theorem C15_failed_list_is_noop : forall crc i b a force due oc st,
  fails crc (oc i) ->
  let st' := refresh crc b a force due oc st in
  fentry i (r_files st') = fentry i (r_files st) /\
  (forall k l, nth_error (r_block st) k = Some l -> f_id l = i -> nth_error (r_block st') k = Some l) /\
  (forall k l, nth_error (r_allow st) k = Some l -> f_id l = i -> nth_error (r_allow st') k = Some l).
Proof. exact refresh_failed_list_noop. Qed.
Print Assumptions C15_failed_list_is_noop.

(** ... and, if the engine was in step with the files before, the text in
    force for that list (in the block and in the allow engine) stays the same,
    whether or not the engine is rebuilt for other lists. *)
Theorem C15_failed_list_in_force : forall crc i b a force due oc st,
  engine_consistent st -> fails crc (oc i) ->
  in_force (r_engine (refresh crc b a force due oc st)) i = in_force (r_engine st) i.
Proof. exact refresh_failed_list_in_force. Qed.
Print Assumptions C15_failed_list_in_force.

(** Content whose checksum equals the recorded one is not written and not
    reported as an update. *)
Theorem C15_same_checksum_not_written : forall crc l d re st fs,
  parse crc d re = (st, None) -> p_sum st = f_sum l ->
  update_one crc l (OBody d re) fs = ({| u_updated := false; u_err := false; u_list := l |}, fs).
Proof. exact update_one_same_checksum. Qed.
Print Assumptions C15_same_checksum_not_written.

(** The file changes only on success with a new checksum, and then it holds a
    normal form whose re-parse reproduces it with the recorded count and
    checksum; in every other case (also when the pending file cannot replace
    the list's file) neither the files nor the structure worked on change and
    no update is reported. *)
Theorem C15_written_is_normal_form : forall crc l o fs,
  let '(u, fs') := update_one crc l o fs in
  (u_updated u = false /\ fs' = fs /\ u_list u = l) \/
  (exists d re st, o = OBody d re /\ parse crc d re = (st, None) /\ p_sum st <> f_sum l /\
     u_updated u = true /\ u_err u = false /\ u_list u = filled l st /\
     fs' = fset (f_id l) (output st) fs /\
     exists st', parse crc (output st) false = (st', None) /\ output st' = output st /\
                 p_count st' = p_count st /\ p_sum st' = p_sum st).
Proof. exact update_one_cases. Qed.
Print Assumptions C15_written_is_normal_form.

(** Non-vacuity: a successful refresh of a block and an allow list, then one
    where an HTML page and a connection error fail both: state unchanged. *)
Example C15_refresh_premises_satisfiable :
  fget 1 (r_files RExamples.st1) = Some RExamples.good /\
  map f_count (r_block RExamples.st1) = [1] /\
  map f_name (r_block RExamples.st1) = [[76; 105; 115; 116; 32; 49]] /\
  verdict (r_engine RExamples.st1) [112;49] = 2 /\
  fails crc32_update (OBody RExamples.html false) /\
  fails crc32_update (OBody (firstn 3 RExamples.good) true) /\
  refresh crc32_update true true true RExamples.all
    (fun i => if i =? 1 then OBody RExamples.html false else OOpenErr) RExamples.st1 = RExamples.st1.
Proof. exact refresh_example. Qed.

(** C15: a failed filter refresh changes nothing; a successful one stores a
    stable form.  Only statements here; proofs live in Proofs/RuleListParser.v
    and Proofs/Refresh.v.  The parser theorems hold for every checksum
    function [crc] (hash/crc32 in the code). *)
From Coq Require Import NArith List.
From AGH Require Import Base.Run Model.RuleListParser Proofs.RuleListParser.
Import ListNotations.
Local Open Scope N_scope.

(** The stored form is a fixed point: whatever text (and however it was cut
    into reads) parsed successfully into [y = output st], parsing [y] succeeds,
    writes [y] again, with the same rule count, checksum and byte count. *)
Theorem C15_normal_form_fixed_point : forall crc x read_err st,
  parse crc x read_err = (st, None) ->
  exists st',
    parse crc (output st) false = (st', None) /\
    output st' = output st /\
    p_count st' = p_count st /\ p_sum st' = p_sum st /\ p_written st' = p_written st.
Proof. exact parse_fixed_point. Qed.
Print Assumptions C15_normal_form_fixed_point.

(** Shape of the stored form: newline-terminated lines, none blank, none a
    comment, none with a leading or trailing white-space rune, none with a
    newline or a binary byte inside; count, checksum and size describe exactly
    these lines. *)
Theorem C15_output_shape : forall crc x read_err st,
  parse crc x read_err = (st, None) ->
  exists ws, output st = flat_map (fun w => w ++ [10]) ws /\ Forall line_shape ws /\
             p_count st = cntN ws /\ p_sum st = fold_left crc ws 0 /\
             p_written st = lenN (output st).
Proof. exact parse_output_shape. Qed.
Print Assumptions C15_output_shape.

(** A reader that ends in an error never yields a successful parse. *)
Theorem C15_read_error_is_error : forall crc x st e,
  parse crc x true = (st, e) -> e <> None.
Proof. exact parse_read_error. Qed.
Print Assumptions C15_read_error_is_error.

(** Non-vacuity: a text with a title, comments, CRLF, Unicode spaces, an
    inner CR and an unterminated last line parses, and is changed by it. *)
Example C15_premises_satisfiable :
  let '(st, e) := parse crc32_update Examples.text false in
  e = None /\ output st = Examples.stored /\ p_count st = 3 /\ p_title st = [84] /\
  output st <> Examples.text.
Proof. exact parse_example. Qed.

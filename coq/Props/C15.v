(** C15: a failed filter refresh changes nothing; a successful one stores a
    stable form.  Only statements here; proofs live in Proofs/RuleListParser.v
    Proofs/Refresh.v, Proofs/RefreshEngine.v, Proofs/RefreshWrite.v and Proofs/RefreshRestart.v.  The parser theorems hold for every checksum
    function [crc] (hash/crc32 in the code). *)
From Coq Require Import NArith List.
From AGH Require Import Base.Run Model.RuleListParser Model.Refresh Proofs.RuleListParser Proofs.RuleListWrite
  Proofs.Refresh Proofs.RefreshEngine Proofs.RefreshWrite Proofs.RefreshRestart Proofs.RefreshWhole Proofs.RefreshOverlap Model.FilterQueue Model.RefreshQueue Proofs.RefreshQueue.
Import ListNotations.
Local Open Scope N_scope.

(** The stored form is a fixed point: whatever text (and however it was cut
    into reads) parsed successfully into [y = output st], parsing [y] succeeds,
    writes [y] again, with the same rule count, checksum and byte count. *)
Theorem C15_normal_form_fixed_point : forall crc x read_err st,
  parse crc x read_err = (st, None) ->
  exists st',
    parse crc (output st) false = (st', None) /\
    output st' = output st /\
    p_count st' = p_count st /\ p_sum st' = p_sum st /\ p_written st' = p_written st.
Proof. exact parse_fixed_point. Qed.
Print Assumptions C15_normal_form_fixed_point.

(** Shape of the stored form: newline-terminated lines, none blank, none a
    comment, none with a leading or trailing white-space rune, none with a
    newline or a binary byte inside; count, checksum and size describe exactly
    these lines. *)
Theorem C15_output_shape : forall crc x read_err st,
  parse crc x read_err = (st, None) ->
  exists ws, output st = flat_map (fun w => w ++ [10]) ws /\ Forall line_shape ws /\
             p_count st = cntN ws /\ p_sum st = fold_left crc ws 0 /\
             p_written st = lenN (output st).
Proof. exact parse_output_shape. Qed.
Print Assumptions C15_output_shape.

(** A reader that ends in an error never yields a successful parse. *)
Theorem C15_read_error_is_error : forall crc x st e,
  parse crc x true = (st, e) -> e <> None.
Proof. exact parse_read_error. Qed.
Print Assumptions C15_read_error_is_error.

(** HTML is looked for before the first written byte, not on physical line
    1: whatever lines that write nothing precede it (blank, white space only,
    comments, a title; \n or \r\n endings) and whatever follows, a line that
    starts, after white space, with <html or <!doctype in any letter case makes
    the parse fail with the HTML error, nothing having been written. *)
Theorem C15_html_after_unwritten_lines : forall crc pre h rest read_err,
  Forall (fun l => ~ In 10 l /\ lenN l < max_token) (pre ++ [h]) ->
  Forall (fun l => unwritten (drop_cr l)) pre ->
  is_html_line (trim_space (drop_cr h)) = true ->
  exists st, parse crc (flat_map (fun l => l ++ [10]) pre ++ h ++ 10 :: rest) read_err = (st, Some EHtml) /\
             p_written st = 0 /\ output st = [].
Proof. exact parse_html_after_unwritten. Qed.
Print Assumptions C15_html_after_unwritten_lines.

Example C15_html_after_unwritten_lines_satisfiable :
  let pre := [[13]; [35; 32; 120]; [32; 9; 32]; [33; 32; 84; 105; 116; 108; 101; 58; 32; 80; 13]] in
  let h := [32; 60; 33; 68; 79; 67; 84; 89; 80; 69; 32; 104; 116; 109; 108; 62; 13] in
  Forall (fun l => ~ In 10 l /\ lenN l < max_token) (pre ++ [h]) /\
  Forall (fun l => unwritten (drop_cr l)) pre /\
  is_html_line (trim_space (drop_cr h)) = true /\
  snd (parse crc32_update (flat_map (fun l => l ++ [10]) pre ++ h ++ 10 :: [124; 124; 120; 94; 10]) false) = Some EHtml.
Proof. exact html_after_unwritten_example. Qed.

(** Non-vacuity: a text with a title, comments, CRLF, Unicode spaces, an
    inner CR and an unterminated last line parses, and is changed by it. *)
Example C15_premises_satisfiable :
  let '(st, e) := parse crc32_update Examples.text false in
  e = None /\ output st = Examples.stored /\ p_count st = 3 /\ p_title st = [84] /\
  output st <> Examples.text.
Proof. exact parse_example. Qed.

(** ** Refresh *)

(** The failures: no reader at all (connection error, status other than 200,
    unreadable or unsafe local file), or content on which the parser returns
    an error.  A body that ends in a read error is one, wherever it is cut:
    before the first byte, in the middle of a line, at a line boundary. *)
Theorem C15_cut_body_fails : forall crc d, fails crc (OBody d true).
Proof. exact cut_body_fails. Qed.
Print Assumptions C15_cut_body_fails.

(** Any sequence of refreshes (block and/or allow lists, forced or scheduled,
    any lists due) in which every list's source fails leaves the whole state
    as it was: every file, every rule count and checksum, and the engine,
    i.e. the rules in force. *)
Theorem C15_failed_refresh_is_noop : forall crc ops st,
  Forall (fun o => forall l, In l (r_block st ++ r_allow st) -> fails crc (o_oc o (f_id l))) ops ->
  run_ops crc ops st = st.
Proof. exact failed_refreshes_noop. Qed.
Print Assumptions C15_failed_refresh_is_noop.

(** A download whose pending file cannot replace the list's file is such a
    failure as well. *)
Theorem C15_rename_failure_fails : forall crc d, fails crc (ORenameFail d).
Proof. exact rename_failure_fails. Qed.
Print Assumptions C15_rename_failure_fails.

(** In a refresh where other lists may succeed: the list whose source fails
    keeps its file (the same bytes, not replaced) and its entry (name, rule
    count, checksum) unchanged. *)
Theorem C15_failed_list_is_noop : forall crc i b a force due oc st,
  fails crc (oc i) ->
  let st' := refresh crc b a force due oc st in
  fentry i (r_files st') = fentry i (r_files st) /\
  (forall k l, nth_error (r_block st) k = Some l -> f_id l = i -> nth_error (r_block st') k = Some l) /\
  (forall k l, nth_error (r_allow st) k = Some l -> f_id l = i -> nth_error (r_allow st') k = Some l).
Proof. exact refresh_failed_list_noop. Qed.
Print Assumptions C15_failed_list_is_noop.

(** ... and, if the engine was in step with the files before, the text in
    force for that list (in the block and in the allow engine) stays the same,
    whether or not the engine is rebuilt for other lists. *)
Theorem C15_failed_list_in_force : forall crc i b a force due oc st,
  engine_consistent st -> fails crc (oc i) ->
  in_force (r_engine (refresh crc b a force due oc st)) i = in_force (r_engine st) i.
Proof. exact refresh_failed_list_in_force. Qed.
Print Assumptions C15_failed_list_in_force.

(** Content whose checksum equals the recorded one is not written and not
    reported as an update. *)
Theorem C15_same_checksum_not_written : forall crc l d re st fs,
  parse crc d re = (st, None) -> p_sum st = f_sum l ->
  update_one crc l (OBody d re) fs = ({| u_updated := false; u_err := false; u_list := l |}, fs).
Proof. exact update_one_same_checksum. Qed.
Print Assumptions C15_same_checksum_not_written.

(** The file changes only on success with a new checksum, and then it holds a
    normal form whose re-parse reproduces it with the recorded count and
    checksum; in every other case (also when the pending file cannot replace
    the list's file, or does not take what the parser writes) neither the
    files nor the structure worked on change and no update is reported.
    [delivers o d re]: the reader hands body [d] to the parser and every write
    to the pending file succeeds. *)
Theorem C15_written_is_normal_form : forall crc l o fs,
  let '(u, fs') := update_one crc l o fs in
  (u_updated u = false /\ fs' = fs /\ u_list u = l) \/
  (exists d re st, delivers crc o d re /\ parse crc d re = (st, None) /\ p_sum st <> f_sum l /\
     u_updated u = true /\ u_err u = false /\ u_list u = filled l st /\
     fs' = fset (f_id l) (output st) fs /\
     exists st', parse crc (output st) false = (st', None) /\ output st' = output st /\
                 p_count st' = p_count st /\ p_sum st' = p_sum st).
Proof. exact update_one_cases. Qed.
Print Assumptions C15_written_is_normal_form.

(** Such an HTML page is one of the failing sources. *)
Theorem C15_html_page_fails : forall crc pre h rest read_err,
  Forall (fun l => ~ In 10 l /\ lenN l < max_token) (pre ++ [h]) ->
  Forall (fun l => unwritten (drop_cr l)) pre ->
  is_html_line (trim_space (drop_cr h)) = true ->
  fails crc (OBody (flat_map (fun l => l ++ [10]) pre ++ h ++ 10 :: rest) read_err).
Proof. exact html_after_unwritten_fails. Qed.
Print Assumptions C15_html_page_fails.

(** Whatever the other lists do in a refresh: a list whose source fails or
    delivers content with the checksum recorded for it keeps its file (same
    bytes, not replaced: same generation) and its entry (name, rule count,
    checksum). *)
Theorem C15_unchanged_list_is_noop : forall crc i b a force due oc st,
  (forall l, In l (r_block st ++ r_allow st) -> f_id l = i -> no_update crc (oc i) (f_sum l)) ->
  let st' := refresh crc b a force due oc st in
  fentry i (r_files st') = fentry i (r_files st) /\
  (forall k l, nth_error (r_block st) k = Some l -> f_id l = i -> nth_error (r_block st') k = Some l) /\
  (forall k l, nth_error (r_allow st) k = Some l -> f_id l = i -> nth_error (r_allow st') k = Some l).
Proof. exact refresh_quiet_list_noop. Qed.
Print Assumptions C15_unchanged_list_is_noop.

(** The copy-back of name, rule count and checksum keeps the metadata in step
    with the files: from a state in which list IDs are unique, every enabled
    list's rule count and checksum are those of its stored file (zero without
    a file) and every disabled list is unloaded, every history of refreshes
    (block / allow, forced / scheduled, any sources, failing renames included),
    of engine rebuilds and of set_url calls that rename, enable, disable or
    re-point a list (successfully or not) leads to such a state again. *)
Theorem C15_metadata_in_step : forall crc hs st, wf crc st -> wf crc (run_hist crc hs st).
Proof. exact history_wf. Qed.
Print Assumptions C15_metadata_in_step.

(** ... so after any history the rule count and the checksum of an enabled
    list are those of re-parsing its stored file, which reproduces the file. *)
Theorem C15_metadata_describe_file : forall crc hs st l c,
  wf crc st -> let st' := run_hist crc hs st in
  In l (r_block st' ++ r_allow st') -> f_enabled l = true -> fget (f_id l) (r_files st') = Some c ->
  describes crc (f_count l) (f_sum l) c.
Proof. exact history_meta_matches_file. Qed.
Print Assumptions C15_metadata_describe_file.

(** ... and a source that delivers what is stored, in any spelling with the
    same normal form, does not make the file be replaced (A, A and the return
    B, A alike: only the stored file counts). *)
Theorem C15_stored_content_not_rewritten : forall crc b a force due oc st l c d re pst,
  wf crc st -> In l (r_block st ++ r_allow st) -> f_enabled l = true ->
  fget (f_id l) (r_files st) = Some c ->
  delivers crc (oc (f_id l)) d re -> parse crc d re = (pst, None) -> output pst = c ->
  let st' := refresh crc b a force due oc st in
  fentry (f_id l) (r_files st') = fentry (f_id l) (r_files st) /\
  In l (r_block st' ++ r_allow st').
Proof. exact stored_content_not_rewritten. Qed.
Print Assumptions C15_stored_content_not_rewritten.

(** set_url finds the entry by its URL [u].  Enabling a disabled (unloaded)
    list with the URL kept, its source delivering a list text: no error, the
    engine is rebuilt from the files and what is in force for the list is the
    normal form of that text, also when the bytes are those stored before it
    was disabled; a text without rules (checksum of an unloaded list) leaves
    nothing stored and nothing in force. *)
Theorem C15_enable_puts_rules_in_force : forall crc allow u i name d re pst st pre f post,
  arr allow st = pre ++ f :: post -> Forall (other_url u) pre -> f_url f = u -> f_id f = i ->
  f_enabled f = false -> f_sum f = 0 ->
  parse crc d re = (pst, None) ->
  let '(rs, er, st') := set_props crc allow u name u true (OBody d re) st in
  er = false /\ rs = true /\ engine_consistent st' /\
  lookup i (eng_arr allow (r_engine st')) = (if p_sum pst =? 0 then None else Some (output pst)) /\
  fget i (r_files st') = (if p_sum pst =? 0 then None else Some (output pst)).
Proof. exact enable_puts_rules_in_force. Qed.
Print Assumptions C15_enable_puts_rules_in_force.

(** The same for every call that downloads into the entry, i.e. also when
    the URL of a list (enabled or not) is replaced by one that no list has: the
    entry gets the new URL, and the rules of the new source, in normal form,
    are stored and in force; the old file is replaced, or removed when the new
    source has no rules. *)
Theorem C15_url_change_puts_rules_in_force : forall crc allow u i name nurl d re pst st pre f post,
  arr allow st = pre ++ f :: post -> Forall (other_url u) pre -> f_url f = u -> f_id f = i ->
  downloads f u nurl st ->
  parse crc d re = (pst, None) ->
  let '(rs, er, st') := set_props crc allow u name nurl true (OBody d re) st in
  er = false /\ rs = true /\ engine_consistent st' /\
  lookup i (eng_arr allow (r_engine st')) = (if p_sum pst =? 0 then None else Some (output pst)) /\
  fget i (r_files st') = (if p_sum pst =? 0 then None else Some (output pst)) /\
  exists f', arr allow st' = pre ++ f' :: post /\ f_id f' = i /\ f_url f' = nurl /\ f_enabled f' = true /\
             f_sum f' = p_sum pst /\ ((p_sum pst =? 0) = false -> f_count f' = p_count pst).
Proof. exact download_puts_rules_in_force. Qed.
Print Assumptions C15_url_change_puts_rules_in_force.

(** Disabling an enabled list (URL kept, or replaced by one no list has):
    the engine is rebuilt without it, its file stays, its entry is unloaded
    (rule count and checksum zero). *)
Theorem C15_disable_takes_rules_out : forall crc allow u i name nurl o st pre f post,
  arr allow st = pre ++ f :: post -> Forall (other_url u) pre ->
  Forall (other_id i) pre -> Forall (other_id i) post -> f_url f = u -> f_id f = i ->
  f_enabled f = true -> nurl = u \/ url_used nurl st = false ->
  let '(rs, er, st') := set_props crc allow u name nurl false o st in
  er = false /\ rs = true /\ engine_consistent st' /\
  lookup i (eng_arr allow (r_engine st')) = None /\ r_files st' = r_files st /\
  arr allow st' = pre ++ {| f_id := i; f_url := nurl; f_enabled := false; f_name := name; f_count := 0; f_sum := 0 |} :: post.
Proof. exact disable_takes_rules_out. Qed.
Print Assumptions C15_disable_takes_rules_out.

(** Enabling with a failing source: an error, and nothing changes (files,
    entries, engine). *)
Theorem C15_failed_enable_is_noop : forall crc allow u name o st pre f post,
  arr allow st = pre ++ f :: post -> Forall (other_url u) pre -> f_url f = u ->
  f_enabled f = false -> fails crc o ->
  set_props crc allow u name u true o st = (false, true, st).
Proof. exact failed_enable_is_noop. Qed.
Print Assumptions C15_failed_enable_is_noop.

(** A URL that another list (of either array) already has is refused:
    an error, and nothing changes. *)
Theorem C15_duplicate_url_is_noop : forall crc allow u name nurl en o st pre f post,
  arr allow st = pre ++ f :: post -> Forall (other_url u) pre -> f_url f = u ->
  nurl <> u -> url_used nurl st = true ->
  set_props crc allow u name nurl en o st = (false, true, st).
Proof. exact duplicate_url_is_noop. Qed.
Print Assumptions C15_duplicate_url_is_noop.

(** A FAILING change of a list's URL (new URL free, its source failing in any
    of the enumerated ways): an error is reported and nothing changes: every
    file (bytes and generation), the engine, i.e. the rules in force, every
    entry, and this entry's URL, name, enabled flag, rule count and checksum. *)
Theorem C15_failed_url_change_is_noop : forall crc allow u name nurl o st pre f post,
  arr allow st = pre ++ f :: post -> Forall (other_url u) pre -> f_url f = u ->
  nurl <> u -> url_used nurl st = false -> fails crc o ->
  set_props crc allow u name nurl true o st = (false, true, st).
Proof. exact failed_url_change_is_noop. Qed.
Print Assumptions C15_failed_url_change_is_noop.

(** Whatever the call (unknown URL, duplicate URL, failing download after an
    enable or a URL change, in either array): a set_url call that reports an
    error leaves the whole state as it was. *)
Theorem C15_failed_set_is_noop : forall crc allow u name nurl en o st rs st',
  set_props crc allow u name nurl en o st = (rs, true, st') -> st' = st.
Proof. exact failed_set_is_noop. Qed.
Print Assumptions C15_failed_set_is_noop.

(** Non-vacuity for the set_url theorems: a well-formed state with a stored
    list; disabling takes its rule out of force and unloads it, enabling it
    again with the same bytes puts the rule back (the file is replaced once
    more), enabling with an HTML page changes nothing; pointing it to another
    source stores and enforces that source's rule, a URL that another list has
    is refused, a failing source behind the new URL changes nothing. *)
Example C15_history_premises_satisfiable :
  wf crc32_update RExamples.st0 /\ wf crc32_update RExamples.st1 /\ wf crc32_update SetExamples.st_moved.
Proof. exact (conj (proj1 wf_example) (conj (proj2 wf_example) url_change_wf)). Qed.

Example C15_enable_disable_satisfiable :
  verdict (r_engine RExamples.st1) [112;49] = 2 /\
  lookup 1 (e_block (r_engine RExamples.st1)) = Some RExamples.good /\
  lookup 1 (e_block (r_engine SetExamples.st_off)) = None /\
  map f_sum (r_block SetExamples.st_off) = [0] /\
  fentry 1 (r_files SetExamples.st_off) = Some (1, RExamples.good) /\
  lookup 1 (e_block (r_engine SetExamples.st_on)) = Some RExamples.good /\
  fentry 1 (r_files SetExamples.st_on) = Some (2, RExamples.good) /\
  set_props crc32_update false 1 [120] 1 true (OBody RExamples.html false) SetExamples.st_off
    = (false, true, SetExamples.st_off).
Proof. exact set_example. Qed.

Example C15_url_change_satisfiable :
  map f_url (r_block SetExamples.st_moved) = [101] /\
  fentry 1 (r_files SetExamples.st_moved) = Some (2, RExamples.good2) /\
  lookup 1 (e_block (r_engine SetExamples.st_moved)) = Some RExamples.good2 /\
  url_used 102 SetExamples.st_moved = false /\ url_used 11 SetExamples.st_moved = true /\
  set_props crc32_update false 101 [120] 11 true (OBody RExamples.good false) SetExamples.st_moved
    = (false, true, SetExamples.st_moved) /\
  set_props crc32_update false 101 [120] 102 true (OBody RExamples.html false) SetExamples.st_moved
    = (false, true, SetExamples.st_moved) /\
  SetExamples.st_failed = SetExamples.st_moved /\
  map f_count (r_block SetExamples.st_moved) = [1] /\
  map f_sum (r_block SetExamples.st_moved) <> [0].
Proof. exact url_change_example. Qed.

(** Non-vacuity: a successful refresh of a block and an allow list, then one
    where an HTML page and a connection error fail both: state unchanged. *)
Example C15_refresh_premises_satisfiable :
  fget 1 (r_files RExamples.st1) = Some RExamples.good /\
  map f_count (r_block RExamples.st1) = [1] /\
  map f_name (r_block RExamples.st1) = [[76; 105; 115; 116; 32; 49]] /\
  verdict (r_engine RExamples.st1) [112;49] = 2 /\
  fails crc32_update (OBody RExamples.html false) /\
  fails crc32_update (OBody (firstn 3 RExamples.good) true) /\
  refresh crc32_update true true true RExamples.all
    (fun i => if i =? 1 then OBody RExamples.html false else OOpenErr) RExamples.st1 = RExamples.st1.
Proof. exact refresh_example. Qed.

(** ** Failing writes to the pending file (round 4)

    The pending file is the parser's destination.  [parse_w crc cap] is the
    parser against a destination that takes [cap] bytes in all and then fails
    (the write crossing the limit is short): it is [parse] when everything
    written fits, and ends in the write error, the destination filled to the
    last byte, when it does not. *)
Theorem C15_write_limit_refines_parse : forall crc cap x read_err,
  (cap < p_written (fst (parse crc x read_err)) /\
   exists st part, parse_w crc cap x read_err = (st, Some EWrite, part) /\ p_written st = cap) \/
  (p_written (fst (parse crc x read_err)) <= cap /\ parse_w crc cap x read_err = (parse crc x read_err, [])).
Proof. exact parse_w_cases. Qed.
Print Assumptions C15_write_limit_refines_parse.

(** For a text that parses, the failure is there at EVERY position of the
    limit before the end of its normal form: zero, inside a line, at a line
    boundary, one byte short. *)
Theorem C15_write_failure_fails : forall crc d read_err cap st,
  parse crc d read_err = (st, None) -> cap < lenN (output st) -> fails crc (OWriteFail d read_err cap).
Proof. exact write_failure_any_position. Qed.
Print Assumptions C15_write_failure_fails.

(** A refresh whose pending-file write fails is a no-op, after every history
    of refreshes (write failures among them), set_url calls and rebuilds: in a
    pass where other lists may be updated, the list keeps its file (bytes and
    generation), its entry (URL, name, enabled flag, rule count, checksum) and,
    the engine having been in step with the files, the text in force for it. *)
Theorem C15_failed_write_is_noop : forall crc hs st0 i b a force due oc,
  let st := run_hist crc hs st0 in
  write_fails_in crc oc i ->
  let st' := refresh crc b a force due oc st in
  fentry i (r_files st') = fentry i (r_files st) /\
  (forall k l, nth_error (r_block st) k = Some l -> f_id l = i -> nth_error (r_block st') k = Some l) /\
  (forall k l, nth_error (r_allow st) k = Some l -> f_id l = i -> nth_error (r_allow st') k = Some l) /\
  (engine_consistent st -> in_force (r_engine st') i = in_force (r_engine st) i).
Proof. exact failed_write_is_noop. Qed.
Print Assumptions C15_failed_write_is_noop.

(** A pass in which every list's pending file fails changes nothing at all. *)
Theorem C15_failed_write_pass_is_noop : forall crc hs st0 b a force due oc,
  let st := run_hist crc hs st0 in
  (forall l, In l (r_block st ++ r_allow st) -> write_fails_in crc oc (f_id l)) ->
  refresh crc b a force due oc st = st.
Proof. exact failed_write_pass_is_noop. Qed.
Print Assumptions C15_failed_write_pass_is_noop.

(** The download a set_url call starts (re-enabling, or a new free URL): an
    error is reported and the whole state is as it was. *)
Theorem C15_failed_write_set_is_noop : forall crc hs st0 allow u name nurl pre f post d re cap,
  let st := run_hist crc hs st0 in
  arr allow st = pre ++ f :: post -> Forall (other_url u) pre -> f_url f = u ->
  (nurl = u /\ f_enabled f = false) \/ (nurl <> u /\ url_used nurl st = false) ->
  cap < p_written (fst (parse crc d re)) ->
  set_props crc allow u name nurl true (OWriteFail d re cap) st = (false, true, st).
Proof. exact failed_write_set_is_noop. Qed.
Print Assumptions C15_failed_write_set_is_noop.

(** Non-vacuity: limits 0, 3, 5 under a normal form of 6 bytes fail and leave
    [st1] as it is; limit 6 is the pass without a limit (file replaced).  The
    parser example against every limit below its 14 bytes. *)
Example C15_failed_write_satisfiable :
  forallb (fun cap =>
    match parse_w crc32_update cap RExamples.good2 false with (_, Some EWrite, _) => true | _ => false end)
    [0; 3; 5] = true /\
  (forall cap, In cap [0; 3; 5] ->
     refresh crc32_update true true true RExamples.all (fun _ => OWriteFail RExamples.good2 false cap) RExamples.st1
     = RExamples.st1) /\
  refresh crc32_update true true true RExamples.all (fun _ => OWriteFail RExamples.good2 false 6) RExamples.st1
  = refresh crc32_update true true true RExamples.all (fun _ => OBody RExamples.good2 false) RExamples.st1 /\
  fget 1 (r_files (refresh crc32_update true true true RExamples.all (fun _ => OWriteFail RExamples.good2 false 6) RExamples.st1))
  = Some RExamples.good2.
Proof. exact failed_write_example. Qed.

Example C15_write_limit_satisfiable :
  forallb (fun cap => match parse_w crc32_update cap Examples.text false with
                      | (st, Some EWrite, part) => (p_written st =? cap) &&
                          eqb_bytes (take cap Examples.stored)
                                    (flat_map (fun t => t ++ [10]) (rv (p_lines st)) ++ part)
                      | _ => false
                      end) [0; 1; 4; 5; 6; 9; 10; 13] = true /\
  parse_w crc32_update 14 Examples.text false = (parse crc32_update Examples.text false, []) /\
  parse_w crc32_update 4096 Examples.text false = (parse crc32_update Examples.text false, []).
Proof. exact parse_w_example. Qed.

(** ** The engine over histories *)

(** Over every history of refreshes, set_url calls (whatever their result)
    and engine rebuilds in which no pass ends with a network error, from a
    state whose engine is in step with the files (the initial state is): the
    rules in force are, per enabled list, the contents of its stored file
    (which [C15_metadata_describe_file] shows to be a normal form with the
    recorded count and checksum). *)
Theorem C15_engine_consistent : forall crc hs st,
  engine_consistent st -> passes_ok crc hs st -> engine_consistent (run_hist crc hs st).
Proof. exact history_engine_consistent. Qed.
Print Assumptions C15_engine_consistent.

(** In ANY history, network errors and stale engines included: right after a
    pass without a network error that updated some list, after a set_url call
    that reports a restart and no error, and after a rebuild, the rules in
    force are those of the stored files of the enabled lists. *)
Theorem C15_rebuilding_step_consistent : forall crc hs h st,
  rebuilding crc (run_hist crc hs st) h -> engine_consistent (run_hist crc (hs ++ [h]) st).
Proof. exact rebuilding_step_consistent. Qed.
Print Assumptions C15_rebuilding_step_consistent.

(** "Network error, files ahead of the engine", exactly: a pass in which
    every attempted list of one array fails reports a network error and does
    not rebuild the engine, so for EVERY list the rules in force are those in
    force before the pass, also for the lists of the other array whose files
    and metadata the pass has replaced. *)
Theorem C15_files_ahead_of_engine : forall crc b a force due oc st,
  pass_net_error crc b a force due oc st = true ->
  r_engine (refresh crc b a force due oc st) = r_engine st.
Proof. exact net_error_pass_keeps_engine. Qed.
Print Assumptions C15_files_ahead_of_engine.

(** The engine is NOT put in step by the next pass as such: a pass without a
    network error in which no list is updated (every source fails or delivers
    what is stored) changes nothing at all, the engine included. *)
Theorem C15_quiet_pass_is_noop : forall crc b a force due oc st,
  pass_net_error crc b a force due oc st = false -> pass_updated crc b a force due oc st = 0 ->
  refresh crc b a force due oc st = st.
Proof. exact quiet_pass_is_noop. Qed.
Print Assumptions C15_quiet_pass_is_noop.

(** A set_url call never takes the engine out of step. *)
Theorem C15_set_keeps_engine_consistent : forall crc allow u name nurl en o st,
  engine_consistent st -> engine_consistent (snd (set_props crc allow u name nurl en o st)).
Proof. exact set_props_keeps_consistent. Qed.
Print Assumptions C15_set_keeps_engine_consistent.

(** Hence "after every pass that reports no error the rules in force are
    those of the stored files" is false for the code as it is: after block
    list fails / allow list updated, the following error-free pass in which
    nothing changes leaves the old allow rule in force. *)
Theorem C15_error_free_pass_consistent_refuted : ~ error_free_pass_consistent_statement crc32_update.
Proof. exact error_free_pass_consistent_refuted. Qed.
Print Assumptions C15_error_free_pass_consistent_refuted.

(** Non-vacuity and the witness: [st1] is in step; the pass with the failing
    block source reports a network error, stores the allow list's new file and
    checksum, and keeps the engine; the next, error-free, pass changes nothing;
    a pass that updates a list, or a rebuild, puts the stored rules in force. *)
Example C15_files_ahead_satisfiable :
  engine_consistent RExamples.st1 /\
  pass_net_error crc32_update true true true RExamples.all Ahead.oc_ahead RExamples.st1 = true /\
  fget 11 (r_files Ahead.st_ahead) = Some RExamples.good2 /\
  map f_sum (r_allow Ahead.st_ahead) <> map f_sum (r_allow RExamples.st1) /\
  r_engine Ahead.st_ahead = r_engine RExamples.st1 /\
  lookup 11 (e_allow (r_engine Ahead.st_ahead)) = Some RExamples.good /\
  verdict (r_engine Ahead.st_ahead) [112;49] = 2 /\
  verdict (rebuild (r_block Ahead.st_ahead) (r_allow Ahead.st_ahead) (r_files Ahead.st_ahead)) [112;49] = 1 /\
  pass_net_error crc32_update true true true RExamples.all Ahead.oc_same Ahead.st_ahead = false /\
  pass_updated crc32_update true true true RExamples.all Ahead.oc_same Ahead.st_ahead = 0 /\
  Ahead.st_next = Ahead.st_ahead /\
  verdict (r_engine Ahead.st_next) [112;49] = 2 /\
  pass_updated crc32_update true true true RExamples.all Ahead.oc_new Ahead.st_next = 1 /\
  verdict (r_engine Ahead.st_later) [112;49] = 0 /\ verdict (r_engine Ahead.st_later) [112;50] = 2 /\
  verdict (r_engine (rebuild_now Ahead.st_ahead)) [112;49] = 1.
Proof. exact files_ahead_example. Qed.

Example C15_engine_history_satisfiable :
  passes_ok crc32_update [HRefresh true true true RExamples.all Ahead.oc_new; HRebuild] RExamples.st1 /\
  rebuilding crc32_update RExamples.st1 (HRefresh true true true RExamples.all Ahead.oc_new).
Proof. exact engine_history_example. Qed.

(** ** URLs *)

(** The lists of both arrays keep pairwise different URLs over every history
    of refreshes, set_url calls (a URL that some list has is refused, a failed
    call restores the old one) and rebuilds, so the lookup by URL of set_url
    finds the one list that has it. *)
Theorem C15_urls_stay_unique : forall crc hs st, NoDup (urls st) -> NoDup (urls (run_hist crc hs st)).
Proof. exact history_urls_unique. Qed.
Print Assumptions C15_urls_stay_unique.

Example C15_urls_unique_satisfiable : NoDup (urls RExamples.st1) /\ urls Ahead.st_later = [1; 11].
Proof. exact urls_unique_example. Qed.

(** ** Restarts of the process (round 5)

    [hop] has the constructor [HRestart] ([Model.Refresh.restart]: the lists
    through the configuration file, [loadFilters] for both arrays,
    [deduplicateFilters], [EnableFilters(false)]), so every theorem above that
    ranges over histories ([C15_metadata_in_step], [C15_metadata_describe_file],
    [C15_engine_consistent], [C15_rebuilding_step_consistent],
    [C15_urls_stay_unique], the [C15_failed_write_*] family) ranges over
    histories with restarts at any place. *)

(** A restart keeps the invariants (unique IDs, every enabled list's rule
    count and checksum those of its stored file, disabled lists unloaded;
    pairwise different URLs), leaves the engine in step with the files and
    changes no file. *)
Theorem C15_restart_preserves_invariants : forall crc st,
  wf crc st -> NoDup (urls st) ->
  wf crc (restart crc st) /\ NoDup (urls (restart crc st)) /\ engine_consistent (restart crc st) /\
  r_files (restart crc st) = r_files st.
Proof. exact restart_preserves_invariants. Qed.
Print Assumptions C15_restart_preserves_invariants.

Theorem C15_history_with_restarts_invariants : forall crc hs st,
  wf crc st -> NoDup (urls st) ->
  wf crc (run_hist crc hs st) /\ NoDup (urls (run_hist crc hs st)) /\
  (engine_consistent st -> passes_ok crc hs st -> engine_consistent (run_hist crc hs st)) /\
  engine_consistent (run_hist crc (hs ++ [HRestart]) st).
Proof. exact history_with_restarts_invariants. Qed.
Print Assumptions C15_history_with_restarts_invariants.

(** No start-up procedure of the model (the variant that loads disabled lists
    included) writes or removes a file. *)
Theorem C15_restart_changes_no_file : forall crc all st, r_files (restart_v crc all st) = r_files st.
Proof. exact restart_files. Qed.
Print Assumptions C15_restart_changes_no_file.

(** The "stable form" clause at start-up: what [loadFilters] computes from the
    stored file of an enabled list is what the list had (same ID, URL, flag,
    rule count and checksum, describing the file; the same entry altogether
    unless it had no name), and a disabled list stays unloaded. *)
Theorem C15_restart_recomputes_same_metadata : forall crc st allow k l,
  wf crc st -> NoDup (urls st) ->
  nth_error (arr allow st) k = Some l ->
  exists l', nth_error (arr allow (restart crc st)) k = Some l' /\ same_meta (r_files st) l l' /\
             (f_enabled l = true -> forall c, fget (f_id l) (r_files st) = Some c ->
                describes crc (f_count l') (f_sum l') c).
Proof. exact restart_recomputes_same_metadata. Qed.
Print Assumptions C15_restart_recomputes_same_metadata.

(** The state after a restart, exactly; and with every stored enabled list
    named, a restart is an engine rebuild and nothing else. *)
Theorem C15_restart_spec : forall crc st, wf crc st -> NoDup (urls st) ->
  restart crc st =
  {| r_block := map (named (r_files st)) (r_block st); r_allow := map (named (r_files st)) (r_allow st);
     r_files := r_files st; r_engine := rebuild (r_block st) (r_allow st) (r_files st) |}.
Proof. exact restart_spec. Qed.
Print Assumptions C15_restart_spec.

Theorem C15_restart_is_rebuild : forall crc st, wf crc st -> NoDup (urls st) ->
  Forall (fun f => f_name f <> [] \/ fget (f_id f) (r_files st) = None \/ f_enabled f = false)
         (r_block st ++ r_allow st) ->
  restart crc st = rebuild_now st.
Proof. exact restart_is_rebuild. Qed.
Print Assumptions C15_restart_is_rebuild.

(** A disabled list enabled again after a restart (URL kept), its source
    delivering a list text with rules: no error, the normal form of the text
    is stored and in force, rule count and checksum are its. *)
Theorem C15_reenable_after_restart : forall crc allow u i name d re pst st pre f post,
  NoDup (urls st) ->
  arr allow st = pre ++ f :: post -> Forall (other_url u) pre -> f_url f = u -> f_id f = i ->
  f_enabled f = false ->
  parse crc d re = (pst, None) -> p_sum pst <> 0 ->
  let '(rs, er, st') := set_props crc allow u name u true (OBody d re) (restart crc st) in
  er = false /\ rs = true /\ engine_consistent st' /\
  fget i (r_files st') = Some (output pst) /\
  lookup i (eng_arr allow (r_engine st')) = Some (output pst) /\
  exists f', In f' (arr allow st') /\ f_id f' = i /\ f_url f' = u /\ f_enabled f' = true /\
             f_count f' = p_count pst /\ f_sum f' = p_sum pst.
Proof. exact reenable_after_restart. Qed.
Print Assumptions C15_reenable_after_restart.

(** Disable, restart, enable again with unchanged content (in any spelling
    with the stored normal form [c]): the file is still [c], its rules are in
    force, rule count and checksum are those of before. *)
Theorem C15_reenable_after_restart_keeps_file : forall crc allow u i name name' o d re pst st pre f post c,
  wf crc st -> NoDup (urls st) ->
  arr allow st = pre ++ f :: post -> Forall (other_url u) pre ->
  Forall (other_id i) pre -> Forall (other_id i) post -> f_url f = u -> f_id f = i ->
  f_enabled f = true -> fget i (r_files st) = Some c -> f_sum f <> 0 ->
  parse crc d re = (pst, None) -> output pst = c ->
  let st1 := snd (set_props crc allow u name u false o st) in
  let '(rs, er, st3) := set_props crc allow u name' u true (OBody d re) (restart crc st1) in
  er = false /\ rs = true /\ engine_consistent st3 /\
  fget i (r_files st3) = Some c /\
  lookup i (eng_arr allow (r_engine st3)) = Some c /\
  exists f', In f' (arr allow st3) /\ f_id f' = i /\ f_enabled f' = true /\
             f_count f' = f_count f /\ f_sum f' = f_sum f.
Proof. exact disable_restart_reenable. Qed.
Print Assumptions C15_reenable_after_restart_keeps_file.

(** That clause as a statement about the start-up procedure: it holds for the
    one of the code and is false for the variant that loads the disabled lists
    as well: their checksum is then that of the file, and a download on
    re-enabling whose text has that checksum counts as "no change".  Since fix
    7322afe that keeps the stored file; the witness is a source that has gone
    from the rules "ab", "c" to "a", "bc" (same checksum: the CRC runs over the
    rule lines concatenated): the variant keeps the old rules in force, the
    code stores the new ones. *)
Theorem C15_reenable_keeps_file : forall crc, reenable_keeps_file_statement crc (restart crc).
Proof. exact reenable_keeps_file. Qed.
Print Assumptions C15_reenable_keeps_file.

Theorem C15_restart_loading_disabled_refuted :
  ~ reenable_keeps_file_statement crc32_update (restart_v crc32_update true).
Proof. exact reenable_keeps_file_loading_disabled_refuted. Qed.
Print Assumptions C15_restart_loading_disabled_refuted.

Example C15_restart_satisfiable :
  restart crc32_update RExamples.st1 = RExamples.st1 /\
  run_hist crc32_update [HRestart; HSet false 1 [120] 1 false OOpenErr; HRestart;
                         HSet false 1 [120] 1 true (OBody RExamples.good false); HRestart] RExamples.st1
  = LoadDisabled.st_on_ok /\
  fget 1 (r_files RExamples.st1) = Some RExamples.good /\
  map f_sum (r_block RExamples.st1) <> [0] /\
  output (fst (parse crc32_update RExamples.good false)) = RExamples.good.
Proof. exact restart_example. Qed.

Example C15_load_disabled_witness :
  fget 1 (r_files SetExamples.st_off) = Some RExamples.good /\
  map f_enabled (r_block SetExamples.st_off) = [false] /\
  map f_sum (r_block LoadDisabled.st_up_ok) = [0] /\
  LoadDisabled.st_up_ok = SetExamples.st_off /\
  fget 1 (r_files LoadDisabled.st_on_ok) = Some RExamples.good /\
  verdict (r_engine LoadDisabled.st_on_ok) [112;49] = 2 /\
  lookup 1 (e_block (r_engine LoadDisabled.st_on_ok)) = Some RExamples.good /\
  map f_count (r_block LoadDisabled.st_up) = [1] /\
  map f_sum (r_block LoadDisabled.st_up) <> [0] /\
  r_files LoadDisabled.st_up = r_files SetExamples.st_off /\
  fst (set_props crc32_update false 1 [120] 1 true (OBody RExamples.good false) LoadDisabled.st_up) = (true, false) /\
  fget 1 (r_files LoadDisabled.st_on') = Some RExamples.good /\
  map f_enabled (r_block LoadDisabled.st_on') = [true] /\
  map f_count (r_block LoadDisabled.st_on') = [1] /\
  lookup 1 (e_block (r_engine LoadDisabled.st_on')) = Some RExamples.good /\
  fget 1 (r_files LoadDisabled.st_later) = Some RExamples.good /\
  p_sum (fst (parse crc32_update LoadDisabled.ab_c false)) = p_sum (fst (parse crc32_update LoadDisabled.a_bc false)) /\
  fget 1 (r_files LoadDisabled.c_off) = Some LoadDisabled.ab_c /\
  fget 1 (r_files LoadDisabled.c_on') = Some LoadDisabled.ab_c /\
  lookup 1 (e_block (r_engine LoadDisabled.c_on')) = Some LoadDisabled.ab_c /\
  fget 1 (r_files LoadDisabled.c_on_ok) = Some LoadDisabled.a_bc /\
  lookup 1 (e_block (r_engine LoadDisabled.c_on_ok)) = Some LoadDisabled.a_bc.
Proof. exact load_disabled_example. Qed.

(** ** The whole body (round 7)

    [C15_written_is_normal_form] says: what is stored is the output of the
    parse of [d], where [delivers o d re]: [d] is what the reader handed to the
    parser.  That [d] is the WHOLE body the source delivered is a property of
    the reader [updateIntl] puts around it: none in the code.  As a statement
    about that reader: true for the identity and for a limiting reader that
    ends in an error at its limit (C14_err_limit_faithful is about that kind),
    false for one that ends in a plain EOF there (seeded change C15-M:
    io.LimitReader): the normal form of a prefix, its last line a fragment, is
    stored as a successful refresh. *)
Theorem C15_whole_body_stored : forall crc, whole_body_statement crc (fun o => o).
Proof. exact whole_body_stored. Qed.
Print Assumptions C15_whole_body_stored.

Theorem C15_whole_body_stored_err_limit : forall crc limit, whole_body_statement crc (err_limiting limit).
Proof. exact whole_body_stored_err_limit. Qed.
Print Assumptions C15_whole_body_stored_err_limit.

Theorem C15_whole_body_eof_limit_refuted : ~ whole_body_statement crc32_update (eof_limiting 9).
Proof. exact whole_body_eof_limit_refuted. Qed.
Print Assumptions C15_whole_body_eof_limit_refuted.

Example C15_eof_limit_witness :
  snd (parse crc32_update Truncated.body false) = None /\
  output (fst (parse crc32_update Truncated.body false)) = Truncated.body /\
  u_updated (fst Truncated.cut) = true /\ u_err (fst Truncated.cut) = false /\
  f_count (u_list (fst Truncated.cut)) = 2 /\
  fget 1 (snd Truncated.cut) = Some (RExamples.good ++ [124;124;112;10]).
Proof. exact eof_limit_example. Qed.

(** ** The copy-back under changes of the array (round 8)

    Between the moment a pass takes its working copies and the moment it copies
    the results back, add_url may append to the array (moving it to new
    memory), remove_url may delete from it, set_url may rewrite an entry.  The
    loop of the code reads the array anew and finds the entry by its ID: for
    ANY array [cur] at that moment, every list still in it whose download was
    stored gets the rule count, checksum and name of what was stored.  The
    variant that walks the array of the beginning of the pass (seeded change
    C15-O) is refuted for an array that has moved. *)
Theorem C15_copy_back_survives_array_changes :
  copy_back_statement (fun us _ cur => snd (copy_back_all us cur)).
Proof. exact copy_back_survives_array_changes. Qed.
Print Assumptions C15_copy_back_survives_array_changes.

Theorem C15_copy_back_into_snapshot_refuted : ~ copy_back_statement copy_back_into_snapshot.
Proof. exact copy_back_into_snapshot_refuted. Qed.
Print Assumptions C15_copy_back_into_snapshot_refuted.

Example C15_copy_back_satisfiable :
  map f_count (snd (copy_back_all [Moved.u1] [Moved.l1; Moved.l2])) = [3; 2] /\
  map f_sum (snd (copy_back_all [Moved.u1] [Moved.l1; Moved.l2])) = [8; 9] /\
  map f_sum (snd (copy_back_all [Moved.u1] [Moved.l2])) = [9] /\
  map f_sum (copy_back_into_snapshot [Moved.u1] [Moved.l1] [Moved.l1; Moved.l2]) = [7; 9].
Proof. exact copy_back_example. Qed.

(** ** A list disabled while a refresh is downloading it, then enabled again
    (found in round 8; /repo fix 7322afe)

    [refresh_over] is a pass over one array whose working copies are taken
    before, and whose results are copied back after, a set_url call.  For every
    state, array, position of the list, content and names: the working copy of
    list [i] is taken while it is enabled, set_url disables it during the
    download, the pass finishes (it stores the download and copies rule count
    and checksum into the disabled entry), then set_url enables the list, its
    source delivering content with the same checksum.  No error, a restart, and
    the stored file, the rule count, the checksum and the rules in force are
    those of the download of the pass, i.e. of the last successful download. *)
Theorem C15_reenable_after_overlapped_disable :
  forall crc, reenable_after_overlap_statement crc (set_props crc).
Proof. exact reenable_after_overlap. Qed.
Print Assumptions C15_reenable_after_overlapped_disable.

(** What the overlapped pass itself leaves. *)
Theorem C15_overlapped_disable_leaves :
  forall crc allow u i name o force due oc d re pst st pre f post,
  NoDup (map f_id (arr allow st)) ->
  arr allow st = pre ++ f :: post -> Forall (other_url u) pre ->
  Forall (other_id i) pre -> Forall (other_id i) post ->
  f_url f = u -> f_id f = i -> f_enabled f = true -> (force || due i)%bool = true ->
  oc i = OBody d re -> parse crc d re = (pst, None) -> p_sum pst <> f_sum f ->
  let st2 := refresh_over crc allow force due oc (fun s => snd (set_props crc allow u name u false o s)) st in
  fget i (r_files st2) = Some (output pst) /\
  exists pre' post' nm,
    arr allow st2 = pre' ++ {| f_id := i; f_url := u; f_enabled := false; f_name := nm;
                               f_count := p_count pst; f_sum := p_sum pst |} :: post' /\
    Forall (other_url u) pre' /\ Forall (other_id i) pre' /\ Forall (other_id i) post'.
Proof. exact overlap_leaves. Qed.
Print Assumptions C15_overlapped_disable_leaves.

(** The two halves of a pass on one and the same array are the pass. *)
Theorem C15_pass_is_its_two_halves : forall crc ls force due oc fs,
  refresh_array crc ls force due oc fs = finish_array crc (to_update ls force due) ls oc fs.
Proof. exact refresh_array_split. Qed.
Print Assumptions C15_pass_is_its_two_halves.

(** The removal of the stored file whatever the checksum compared with (the
    code before 7322afe; [set_props_g crc true] is [set_props crc]) is refuted:
    block list 1 of [st1], a forced pass downloading [good2], disabled
    meanwhile, enabled again with [good2]: no file, nothing in force. *)
Theorem C15_unguarded_removal_refuted :
  ~ reenable_after_overlap_statement crc32_update (set_props_g crc32_update false).
Proof. exact reenable_after_overlap_unguarded_refuted. Qed.
Print Assumptions C15_unguarded_removal_refuted.

Theorem C15_guarded_variant_is_the_model : forall crc allow url name nurl en o st,
  set_props_g crc true allow url name nurl en o st = set_props crc allow url name nurl en o st.
Proof. exact set_props_g_true. Qed.
Print Assumptions C15_guarded_variant_is_the_model.

(** Non-vacuity and the witness. *)
Example C15_overlapped_disable_satisfiable :
  fget 1 (r_files Gated.st_over) = Some RExamples.good2 /\
  map f_enabled (r_block Gated.st_over) = [false] /\
  map f_count (r_block Gated.st_over) = [1] /\
  map f_sum (r_block Gated.st_over) <> [0] /\
  over_report crc32_update false true RExamples.all Gated.oc2 Gated.disable RExamples.st1 = (1, false) /\
  verdict (r_engine Gated.st_over) [112;50] = 0 /\
  refresh_over crc32_update false true RExamples.all Gated.oc2 (fun s => s) RExamples.st1
  = refresh crc32_update true false true RExamples.all Gated.oc2 RExamples.st1 /\
  fget 1 (r_files Gated.st_on) = Some RExamples.good2 /\
  map f_enabled (r_block Gated.st_on) = [true] /\
  map f_count (r_block Gated.st_on) = [1] /\
  lookup 1 (e_block (r_engine Gated.st_on)) = Some RExamples.good2 /\
  verdict (r_engine Gated.st_on) [112;50] = 1 /\
  fget 1 (r_files Gated.st_on_old) = None /\
  map f_enabled (r_block Gated.st_on_old) = [true] /\
  map f_count (r_block Gated.st_on_old) = [1] /\
  lookup 1 (e_block (r_engine Gated.st_on_old)) = None /\
  verdict (r_engine Gated.st_on_old) [112;50] = 0 /\
  fget 1 (r_files Gated.st_later_old) = None.
Proof. exact gated_example. Qed.

(** ** Rules in force after set_url / add_url when rebuild requests queue up
    (round 9)

    The handlers ask for the rebuild asynchronously: a snapshot of the SET of
    enabled lists goes into a one-slot channel (C01's Model/FilterQueue.v:
    drain, then send), the updates loop builds the engines from it, reading
    the files when it runs.  From ANY state of the queue (a stale task
    waiting, the loop busy with one, engines out of date), after any history of
    passes, set_url calls, other requests and loop steps: once
    EnableFilters(true) has been called and the loop has served the queue, the
    engines are those a rebuild from the lists and files of the moment gives;
    nothing is queued, the loop is idle, lists and files are untouched. *)
Theorem C15_queued_rebuild_follows_last_request : forall crc, follows_last_request crc enq_drain_send.
Proof. exact drain_send_follows_last_request. Qed.
Print Assumptions C15_queued_rebuild_follows_last_request.

(** Hence a set_url / add_url call served asynchronously ends where the
    synchronous [set_props] does (entries, files, engines), whatever was
    queued: [C15_enable_puts_rules_in_force], [C15_url_change_puts_rules_in_force],
    [C15_disable_takes_rules_out] speak about its result. *)
Theorem C15_async_set_ends_as_sync : forall crc allow u name nurl en o (s : qr) st',
  set_props crc allow u name nurl en o (qr_st s) = (true, false, st') ->
  let '(rs, er, s1) := set_async crc enq_drain_send allow u name nurl en o s in
  rs = true /\ er = false /\
  qr_st (quiesce s1) = st' /\ qr_chan (quiesce s1) = [] /\ qr_busy (quiesce s1) = None.
Proof. exact async_set_ends_as_sync. Qed.
Print Assumptions C15_async_set_ends_as_sync.

Theorem C15_async_set_quiet : forall crc allow u name nurl en o (s : qr) rs er st',
  set_props crc allow u name nurl en o (qr_st s) = (rs, er, st') -> (negb er && rs)%bool = false ->
  snd (set_async crc enq_drain_send allow u name nurl en o s)
  = mkQR (with_engine (r_engine (qr_st s)) st') (qr_chan s) (qr_busy s).
Proof. exact async_set_quiet. Qed.
Print Assumptions C15_async_set_quiet.

(** A later pass in which every source fails changes nothing. *)
Theorem C15_failing_pass_keeps_queue_state : forall crc enq b a force due oc (s : qr),
  (forall l, In l (r_block (qr_st s) ++ r_allow (qr_st s)) -> fails crc (oc (f_id l))) ->
  qstep crc enq s (QRefresh b a force due oc) = s.
Proof. exact failing_pass_after_loop. Qed.
Print Assumptions C15_failing_pass_keeps_queue_state.

(** A task built from the current lists, run on the current files, is a
    synchronous rebuild. *)
Theorem C15_task_of_current_lists_is_rebuild : forall st,
  build (take_ids st) (r_files st) = rebuild (r_block st) (r_allow st) (r_files st).
Proof. exact build_take. Qed.
Print Assumptions C15_task_of_current_lists_is_rebuild.

(** The non-blocking send that keeps the OLDER task is refuted. *)
Theorem C15_nonblocking_send_refuted : ~ follows_last_request crc32_update enq_nonblocking.
Proof. exact nonblocking_send_does_not_follow. Qed.
Print Assumptions C15_nonblocking_send_refuted.

Example C15_queued_rebuild_satisfiable :
  fget 1 (r_files (qr_st Queued.s_new)) = Some RExamples.good /\
  map f_enabled (r_block (qr_st Queued.s_new)) = [true] /\
  map f_count (r_block (qr_st Queued.s_new)) = [1] /\
  qr_st Queued.s_new = qr_st Queued.s_old /\
  qr_chan Queued.s_new = [([], [11])] /\ qr_chan Queued.s_old = [([1], [11])] /\
  lookup 1 (e_block (r_engine (qr_st (quiesce Queued.s_new)))) = None /\
  lookup 1 (e_block (r_engine (qr_st (quiesce Queued.s_old)))) = Some RExamples.good /\
  lookup 1 (e_block (r_engine (qr_st (Queued.after enq_nonblocking Queued.s_new)))) = None /\
  lookup 1 (e_block (r_engine (qr_st
    (qstep crc32_update enq_nonblocking (quiesce Queued.s_new) (QRefresh true true true RExamples.all Queued.failing))))) = None /\
  lookup 1 (e_block (r_engine (qr_st
    (qstep crc32_update enq_nonblocking (quiesce Queued.s_new)
       (QRefresh true true true RExamples.all (fun _ => OBody RExamples.good false)))))) = None /\
  qrun crc32_update enq_nonblocking (qidle SetExamples.st_off) [QTouch; QLoop; QSet false 1 [120] 1 true (OBody RExamples.good false); QLoop]
  = qrun crc32_update enq_drain_send (qidle SetExamples.st_off) [QTouch; QLoop; QSet false 1 [120] 1 true (OBody RExamples.good false); QLoop].
Proof. exact queued_example. Qed.

(** C14: configuration, lease database and filter files are replaced
    atomically (PARTIAL: the kernel honouring the contract written at the top
    of Base/FS.v is assumed).  Only statements here; proofs: Proofs/FS.v,
    Proofs/Writers.v. *)
From Coq Require Import String List NArith.
From AGH Require Import Base.FS Proofs.FS Model.Writers Gen.Writers Proofs.Writers.
Import ListNotations.
Local Open Scope N_scope.

(** For all old/new contents and EVERY chunking of the writes: open a fresh
    temporary name, write the chunks, fsync, close, rename onto dst.  At every
    instant, and after a crash at every prefix, dst holds the complete old or
    the complete new content (old = [None] when there was no file). *)
Theorem C14_atomic_shape_safe : forall s dst tmp fd (chunks : list data),
  quiescent s dst -> fresh_tmp s dst tmp ->
  forall v, In v (visible_states s (atomic_shape fd tmp dst chunks) dst) ->
            v = live_view s dst \/ v = Some (concat chunks).
Proof. exact atomic_shape_safe. Qed.
Print Assumptions C14_atomic_shape_safe.

(** The theorem the recorded traces are judged by: for ARBITRARY traces, if
    the one-pass checker accepts (nothing that dst ever named is opened for
    writing, written or truncated; dst is not created in place, unlinked or
    renamed away; a file renamed onto dst has no modification after its last
    fsync), then everything visible at dst, at every instant and after a crash
    at every prefix, is a complete published version: the initial one or the
    full content of a file at the moment it was renamed onto dst. *)
Theorem C14_checker_sound : forall dst s t,
  quiescent s dst -> trace_safe dst s t = true ->
  forall v, In v (visible_states s t dst) -> In v (all_versions s t dst).
Proof. exact checker_sound. Qed.
Print Assumptions C14_checker_sound.

(** The states the evaluator starts the recorded traces from satisfy the
    premise. *)
Theorem C14_boot_quiescent : forall ents dst, quiescent (boot ents) dst.
Proof. exact boot_quiescent. Qed.
Print Assumptions C14_boot_quiescent.

(** Non-vacuity: os.WriteFile (open O_TRUNC; write) is rejected by the
    checker, and for a reason: an empty file is visible. *)
Theorem C14_truncate_write_unsafe :
  exists old new,
    let s := boot [(1, old)] in
    let t := inplace_shape 3 1 [new] in
    quiescent s 1 /\
    trace_safe 1 s t = false /\
    exists v, In v (visible_states s t 1) /\ v <> Some old /\ v <> Some new.
Proof. exact truncate_write_unsafe. Qed.
Print Assumptions C14_truncate_write_unsafe.

(** Likewise for the rename without a preceding fsync. *)
Theorem C14_rename_without_fsync_unsafe :
  exists old new,
    let s := boot [(1, old)] in
    let t := [Open 3 2 fl_tmp; Write 3 new; Close 3; Rename 2 1] in
    trace_safe 1 s t = false /\
    exists v, In v (visible_states s t 1) /\ v <> Some old /\ v <> Some new.
Proof. exact rename_without_fsync_unsafe. Qed.
Print Assumptions C14_rename_without_fsync_unsafe.

(** Failure paths clean up: a name created during the trace is gone at the
    end unless it is in [keep]. *)
Theorem C14_no_leftovers : forall keep s t,
  no_leftovers keep s t = true ->
  forall p, In p (created s t) -> aget (dir_cur (run s t)) p <> None -> In p keep.
Proof. exact no_leftovers_sound. Qed.
Print Assumptions C14_no_leftovers.

(** The linear-time content function the evaluator runs is the plain
    "apply the pending modifications oldest first". *)
Theorem C14_f_cur_is_spec : forall f, f_cur f = f_cur_spec f.
Proof. exact f_cur_spec_eq. Qed.
Print Assumptions C14_f_cur_is_spec.

(** Program level (covers write paths the traced runs do not reach): every
    call in the non-test, linux-built files of internal/home, dhcpd, filtering,
    filtering/rulelist, aghrenameio, configmigrate and aghos that creates,
    truncates, writes, renames or removes a path is a rename-based writer, a
    listed exception concerning one of the three kinds of file, or listed as
    concerning another file; nothing is unresolved; no listed function contains
    more such calls than listed.  The table is regenerated from the source
    (go/ast) on every run. *)
Theorem C14_writers_classified :
  forall w, In w writers -> rename_based w = true \/ excepted w = true \/ other_file w = true.
Proof. exact writers_classified. Qed.
Print Assumptions C14_writers_classified.

Theorem C14_writers_counts : counts_ok writers = true.
Proof. exact writers_counts. Qed.
Print Assumptions C14_writers_counts.

Theorem C14_writers_sites_present : sites_present writers = true.
Proof. exact expected_sites_present. Qed.
Print Assumptions C14_writers_sites_present.

Example C14_writer_judge_not_vacuous :
  writer_ok (mkw "internal/dhcpd/db.go"%string "writeDB"%string "os.WriteFile"%string KWriteFile 189) = false.
Proof. exact writer_ok_rejects_writefile. Qed.

Example C14_atomic_shape_premises :
  let s := boot [(1, [10; 11; 12])] in
  quiescent s 1 /\ fresh_tmp s 1 2 /\
  live_view s 1 = Some [10; 11; 12] /\
  let vs := visible_states s (atomic_shape 7 2 1 [[20]; []; [21; 22]]) 1 in
  In (Some [10; 11; 12]) vs /\ In (Some [20; 21; 22]) vs.
Proof. exact atomic_shape_premises. Qed.

Example C14_checker_sound_premises :
  let s := boot [(1, [1; 2])] in
  let t := atomic_shape 5 2 1 [[3]; [4]] ++
           [Open 5 3 fl_tmp; Write 5 [9]; Close 5; Unlink 3] ++
           atomic_shape 6 4 1 [[5; 6; 7]] in
  quiescent s 1 /\ trace_safe 1 s t = true /\ no_leftovers [1] s t = true /\
  all_versions s t 1 = [Some [1; 2]; Some [3; 4]; Some [5; 6; 7]].
Proof. exact checker_sound_premises. Qed.

(** C14: configuration, lease database and filter files are replaced
    atomically (PARTIAL: the kernel honouring the contract written at the top
    of Base/FS.v is assumed).  Only statements here; proofs: Proofs/FS.v,
    Proofs/Writers.v. *)
From Coq Require Import String List NArith Bool.
From AGH Require Import Base.FS Proofs.FS Model.Writers Gen.Writers Proofs.Writers Model.SaveLoop Proofs.SaveLoop
  Proofs.SaveOverlap Proofs.SaveSetUrl Proofs.SaveStatus Proofs.SaveMigrate Proofs.SaveIds Proofs.SaveRemove.
Import ListNotations.
Local Open Scope N_scope.

(** For all old/new contents and EVERY chunking of the writes: open a fresh
    temporary name, write the chunks, fsync, close, rename onto dst.  At every
    instant, and after a crash at every prefix, dst holds the complete old or
    the complete new content (old = [None] when there was no file). *)
Theorem C14_atomic_shape_safe : forall s dst tmp fd (chunks : list data),
  quiescent s dst -> fresh_tmp s dst tmp ->
  forall v, In v (visible_states s (atomic_shape fd tmp dst chunks) dst) ->
            v = live_view s dst \/ v = Some (concat chunks).
Proof. exact atomic_shape_safe. Qed.
Print Assumptions C14_atomic_shape_safe.

(** The theorem the recorded traces are judged by: for ARBITRARY traces, if
    the one-pass checker accepts (nothing that dst ever named is opened for
    writing, written or truncated; dst is not created in place, unlinked or
    renamed away; a file renamed onto dst has no modification after its last
    fsync), then everything visible at dst, at every instant and after a crash
    at every prefix, is a complete published version: the initial one or the
    full content of a file at the moment it was renamed onto dst. *)
Theorem C14_checker_sound : forall dst s t,
  quiescent s dst -> trace_safe dst s t = true ->
  forall v, In v (visible_states s t dst) -> In v (all_versions s t dst).
Proof. exact checker_sound. Qed.
Print Assumptions C14_checker_sound.

(** The states the evaluator starts the recorded traces from satisfy the
    premise. *)
Theorem C14_boot_quiescent : forall ents dst, quiescent (boot ents) dst.
Proof. exact boot_quiescent. Qed.
Print Assumptions C14_boot_quiescent.

(** Non-vacuity: os.WriteFile (open O_TRUNC; write) is rejected by the
    checker, and for a reason: an empty file is visible. *)
Theorem C14_truncate_write_unsafe :
  exists old new,
    let s := boot [(1, old)] in
    let t := inplace_shape 3 1 [new] in
    quiescent s 1 /\
    trace_safe 1 s t = false /\
    exists v, In v (visible_states s t 1) /\ v <> Some old /\ v <> Some new.
Proof. exact truncate_write_unsafe. Qed.
Print Assumptions C14_truncate_write_unsafe.

(** Likewise for the rename without a preceding fsync. *)
Theorem C14_rename_without_fsync_unsafe :
  exists old new,
    let s := boot [(1, old)] in
    let t := [Open 3 2 fl_tmp; Write 3 new; Close 3; Rename 2 1] in
    trace_safe 1 s t = false /\
    exists v, In v (visible_states s t 1) /\ v <> Some old /\ v <> Some new.
Proof. exact rename_without_fsync_unsafe. Qed.
Print Assumptions C14_rename_without_fsync_unsafe.

(** "The path exists at every instant".  At every instant of an accepted
    trace a reader finds at dst exactly the LATEST published version (so:
    never nothing once there was a file, never a mix, never an older version
    again). *)
Theorem C14_live_tracks_versions : forall dst s t1 t2,
  quiescent s dst -> trace_safe dst s (t1 ++ t2) = true ->
  live_view (run s t1) dst = last (all_versions s t1 dst) None.
Proof. exact live_tracks_versions. Qed.
Print Assumptions C14_live_tracks_versions.

(** dst existed at the start: "no file at dst" is outside what is visible, at
    every instant and after a crash at every prefix. *)
Theorem C14_never_absent : forall dst s t,
  quiescent s dst -> trace_safe dst s t = true -> live_view s dst <> None ->
  forall v, In v (visible_states s t dst) -> v <> None.
Proof. exact never_absent. Qed.
Print Assumptions C14_never_absent.

(** dst did not exist at the start: from the first publication on a reader
    always finds a file. *)
Theorem C14_exists_after_publish : forall dst s t1 t2,
  quiescent s dst -> trace_safe dst s (t1 ++ t2) = true -> versions s t1 dst <> [] ->
  live_view (run s t1) dst <> None.
Proof. exact exists_after_publish. Qed.
Print Assumptions C14_exists_after_publish.

(** Soundness of the checker for "renamed away / unlinked": wherever such an
    operation stands in a trace, the trace is rejected ... *)
Theorem C14_rename_away_rejected : forall dst s t1 b t2,
  trace_safe dst s (t1 ++ Rename dst b :: t2) = false.
Proof. exact rename_away_rejected. Qed.
Print Assumptions C14_rename_away_rejected.

Theorem C14_unlink_dst_rejected : forall dst s t1 t2,
  trace_safe dst s (t1 ++ Unlink dst :: t2) = false.
Proof. exact unlink_dst_rejected. Qed.
Print Assumptions C14_unlink_dst_rejected.

(** ... and the cheap existence pass evaluated on every recorded trace is
    implied by acceptance. *)
Theorem C14_trace_safe_dst_stays : forall dst t s, trace_safe dst s t = true -> dst_stays dst s t = true.
Proof. exact trace_safe_dst_stays. Qed.
Print Assumptions C14_trace_safe_dst_stays.

(** Refuted shape: rename(dst, dst.bak) "to keep a backup", then the
    write-to-temp shape.  Rejected, and for a reason: a reader, and a reboot
    after a crash, find no file at dst. *)
Theorem C14_rename_away_unsafe :
  exists old new,
    let s := boot [(1, old)] in
    let t := backup_shape 3 9 2 1 [new] in
    quiescent s 1 /\ live_view s 1 = Some old /\
    trace_safe 1 s t = false /\ dst_stays 1 s t = false /\
    In None (live_states s t 1) /\ In None (visible_states s t 1).
Proof. exact rename_away_unsafe. Qed.
Print Assumptions C14_rename_away_unsafe.

Theorem C14_unlink_first_unsafe :
  exists old new,
    let s := boot [(1, old)] in
    let t := Unlink 1 :: atomic_shape 3 2 1 [new] in
    quiescent s 1 /\ trace_safe 1 s t = false /\ In None (visible_states s t 1).
Proof. exact unlink_first_unsafe. Qed.
Print Assumptions C14_unlink_first_unsafe.

(** Concurrent saves.  Along an accepted trace a file is frozen from the
    moment dst names it: no later operation of any thread, through any path
    or any descriptor (also one opened before the publication), changes its
    content, its durable content or its pending list.  Identity is the inode. *)
Theorem C14_published_files_immutable : forall dst s t1 o t2 i,
  quiescent s dst -> trace_safe dst s (t1 ++ o :: t2) = true ->
  ever_at (run s t1) dst i = true ->
  file_of (step (run s t1) o) i = file_of (run s t1) i.
Proof. exact published_files_immutable. Qed.
Print Assumptions C14_published_files_immutable.

Theorem C14_open_published_for_write_rejected : forall dst s fd p fl i t,
  aget (dir_cur s) p = Some i -> ever_at s dst i = true ->
  o_wr fl || o_trunc fl || o_app fl = true ->
  trace_safe dst s (Open fd p fl :: t) = false.
Proof. exact open_published_for_write_rejected. Qed.
Print Assumptions C14_open_published_for_write_rejected.

Theorem C14_write_published_rejected : forall dst s fd e d t,
  aget (fds s) fd = Some e -> ever_at s dst (fd_ino e) = true ->
  trace_safe dst s (Write fd d :: t) = false.
Proof. exact write_published_rejected. Qed.
Print Assumptions C14_write_published_rejected.

Theorem C14_rename_unsynced_rejected : forall dst s a i t,
  a <> dst -> aget (dir_cur s) a = Some i -> f_pend (file_of s i) <> [] ->
  trace_safe dst s (Rename a dst :: t) = false.
Proof. exact rename_unsynced_rejected. Qed.
Print Assumptions C14_rename_unsynced_rejected.

(** Refuted shape: a FIXED temporary name opened with O_CREAT|O_TRUNC.  One
    save after the other is accepted; an interleaving of two such saves is
    rejected, and for a reason: the second open truncates the file the first
    then publishes. *)
Theorem C14_shared_tmp_overlap_unsafe :
  exists old a b t,
    let s := boot [(1, old)] in
    let tA := fixed_tmp_shape 3 2 1 [a] in
    let tB := fixed_tmp_shape 4 2 1 [b] in
    quiescent s 1 /\
    trace_safe 1 s (tA ++ tB) = true /\
    all_versions s (tA ++ tB) 1 = [Some old; Some a; Some b] /\
    In t (interleavings tA tB) /\
    trace_safe 1 s t = false /\
    exists v, In v (live_states s t 1) /\ v <> Some old /\ v <> Some a /\ v <> Some b.
Proof. exact shared_tmp_overlap_unsafe. Qed.
Print Assumptions C14_shared_tmp_overlap_unsafe.

(** Two overlapping saves, each through a temporary name and a descriptor of
    its own (what renameio gives every save): EVERY interleaving of their
    system calls, for all contents and chunkings, is accepted by the checker,
    publishes exactly two versions, and at every instant and after a crash at
    every prefix dst holds the old content or one of the two complete new
    contents. *)
Theorem C14_two_saves_safe : forall s dst fdA tmpA chunksA fdB tmpB chunksB t,
  quiescent s dst -> unused_above dst s ->
  fdA <> fdB -> tmpA <> tmpB -> tmpA <> dst -> tmpB <> dst ->
  aget (dir_cur s) tmpA = None -> aget (dir_cur s) tmpB = None ->
  In t (interleavings (atomic_shape fdA tmpA dst chunksA) (atomic_shape fdB tmpB dst chunksB)) ->
  trace_safe dst s t = true /\
  length (versions s t dst) = 2%nat /\
  forall v, In v (visible_states s t dst) ->
            v = live_view s dst \/ v = Some (concat chunksA) \/ v = Some (concat chunksB).
Proof. exact two_saves_safe. Qed.
Print Assumptions C14_two_saves_safe.

Theorem C14_boot_unused_above : forall ents dst, unused_above dst (boot ents).
Proof. exact boot_unused_above. Qed.
Print Assumptions C14_boot_unused_above.

(** Failure paths clean up: a name created during the trace is gone at the
    end unless it is in [keep]. *)
Theorem C14_no_leftovers : forall keep s t,
  no_leftovers keep s t = true ->
  forall p, In p (created s t) -> aget (dir_cur (run s t)) p <> None -> In p keep.
Proof. exact no_leftovers_sound. Qed.
Print Assumptions C14_no_leftovers.

(** The linear-time content function the evaluator runs is the plain
    "apply the pending modifications oldest first". *)
Theorem C14_f_cur_is_spec : forall f, f_cur f = f_cur_spec f.
Proof. exact f_cur_spec_eq. Qed.
Print Assumptions C14_f_cur_is_spec.

(** ** Content identity: the NEW VERSION is a parameter of the save.

    Configuration and lease table (renameio.WriteFile): for every content [c],
    every way the kernel splits the one Write into pieces, every fault plan
    (creation of the temporary file, a write cut short at any position, fsync,
    close, rename) and every crash point, dst holds the complete previous
    version or exactly [c]; and when the save has returned, dst holds [c] if it
    reported success and the previous version otherwise. *)
Theorem C14_write_file_identity : forall s dst tmp fd (c : data) chunks p,
  quiescent s dst -> fresh_tmp s dst tmp -> concat chunks = c ->
  let t := fst (write_file fd tmp dst chunks p) in
  let r := snd (write_file fd tmp dst chunks p) in
  (forall v, In v (visible_states s t dst) -> v = live_view s dst \/ (r = Replaced /\ v = Some c)) /\
  live_view (run s t) dst = (if replaced r then Some c else live_view s dst).
Proof. exact write_file_identity. Qed.
Print Assumptions C14_write_file_identity.

(** Success is reported only when every piece was written and no call failed;
    a failing open / fsync / close / rename, or a write cut short, is reported
    as a failure (fsync fails => no rename: see [replace_ops]). *)
Theorem C14_write_file_reports : forall dst tmp fd chunks p,
  let r := snd (write_file fd tmp dst chunks p) in
  (r = Replaced -> do_writes chunks (p_write p) = (chunks, true) /\
                   p_open p = false /\ p_sync p = false /\ p_close p = false /\ p_rename p = false) /\
  (p_open p || p_sync p || p_close p || p_rename p = true -> exists st, r = Failed st) /\
  (snd (do_writes chunks (p_write p)) = false -> exists st, r = Failed st).
Proof. exact write_file_reports. Qed.
Print Assumptions C14_write_file_reports.

(** One save of either kind, at the level of its system calls ([done] = the
    write calls that reached the temporary file): accepted by the checker the
    recorded traces are judged by; visible = previous version, or exactly the
    written content and then only if the save reports [Replaced]. *)
Theorem C14_save_ops_visible : forall cl s dst tmp fd done e p,
  quiescent s dst -> fresh_tmp s dst tmp ->
  let t := fst (save_ops cl fd tmp dst done e p) in
  let r := snd (save_ops cl fd tmp dst done e p) in
  forall v, In v (visible_states s t dst) ->
            v = live_view s dst \/ (r = Replaced /\ v = Some (concat done)).
Proof. exact save_ops_visible. Qed.
Print Assumptions C14_save_ops_visible.

Theorem C14_save_ops_checked : forall cl s dst tmp fd done e p,
  fresh_tmp s dst tmp ->
  let t := fst (save_ops cl fd tmp dst done e p) in
  let r := snd (save_ops cl fd tmp dst done e p) in
  trace_safe dst s t = true /\
  versions s t dst = if replaced r then [Some (concat done)] else [].
Proof. exact save_ops_checked. Qed.
Print Assumptions C14_save_ops_checked.

(** The download path (reader -> parser -> pending file -> finalizeUpdate), for
    ANY reader, any parser stage, any fault plan, any previous checksum: what
    is visible is the previous version or the parser's output on what the
    reader delivered; [Replaced] is reported only if the source could be
    opened, the reader ENDED WITH EOF, the parser accepted everything, the
    checksum changed and no system call failed. *)
Theorem C14_update_list_identity : forall St st0 feed finish sum s dst tmp fd src_ok r old_sum p,
  quiescent s dst -> fresh_tmp s dst tmp ->
  let t := fst (update_list St st0 feed finish sum fd tmp dst src_ok r old_sum p) in
  let res := snd (update_list St st0 feed finish sum fd tmp dst src_ok r old_sum p) in
  let out := concat (fst (pump St feed finish st0 r)) in
  (forall v, In v (visible_states s t dst) -> v = live_view s dst \/ (res = Replaced /\ v = Some out)) /\
  live_view (run s t) dst = (if replaced res then Some out else live_view s dst) /\
  (res = Replaced -> src_ok = true /\ snd (pump St feed finish st0 r) = true /\ ends_ok r = true /\
                     sum out <> old_sum /\
                     p_open p = false /\ p_sync p = false /\ p_close p = false /\ p_rename p = false).
Proof. exact update_list_identity. Qed.
Print Assumptions C14_update_list_identity.

(** Content identity for the list as served (the reader of the pinned tree:
    the response body itself): for every body, every cutting into chunks, a
    connection cut or not, every fault plan: dst holds the previous version or
    the normal form of the WHOLE body ([norm]: what the parser writes when the
    body arrives in one piece; premise: the parser stage does not depend on
    the cutting, satisfiable: [C14_parser_stages_chunking_independent]). *)
Theorem C14_update_list_served_identity : forall St st0 feed finish sum s dst tmp fd chunks cut old_sum p body,
  chunking_independent St feed ->
  quiescent s dst -> fresh_tmp s dst tmp -> concat chunks = body ->
  let t := fst (update_list St st0 feed finish sum fd tmp dst true (serve chunks cut) old_sum p) in
  let res := snd (update_list St st0 feed finish sum fd tmp dst true (serve chunks cut) old_sum p) in
  (forall v, In v (visible_states s t dst) ->
             v = live_view s dst \/ (res = Replaced /\ Some v = option_map Some (norm St feed finish st0 body))) /\
  (res = Replaced -> cut = false /\ option_map Some (norm St feed finish st0 body) = Some (live_view (run s t) dst)) /\
  (res <> Replaced -> live_view (run s t) dst = live_view s dst).
Proof. exact update_list_served_identity. Qed.
Print Assumptions C14_update_list_served_identity.

Theorem C14_parser_stages_chunking_independent :
  chunking_independent unit id_feed /\ forall keep, chunking_independent unit (filter_feed keep).
Proof. exact (conj id_chunking_independent filter_chunking_independent). Qed.
Print Assumptions C14_parser_stages_chunking_independent.

(** Readers.  golibs' ioutil.LimitReader (rule-list storage) is faithful: an
    EOF from it means the underlying reader ended with EOF and everything was
    delivered; behind a faithful reader a refresh that reports [Replaced] has
    stored the output for the whole stream. *)
Theorem C14_err_limit_faithful : forall r n, faithful (err_limit r n) r.
Proof. exact err_limit_is_faithful. Qed.
Print Assumptions C14_err_limit_faithful.

Theorem C14_update_list_faithful_reader : forall St st0 feed finish sum s dst tmp fd r' r old_sum p,
  quiescent s dst -> fresh_tmp s dst tmp -> faithful r' r ->
  let t := fst (update_list St st0 feed finish sum fd tmp dst true r' old_sum p) in
  let res := snd (update_list St st0 feed finish sum fd tmp dst true r' old_sum p) in
  res = Replaced ->
  ends_ok r = true /\ received r' = received r /\
  live_view (run s t) dst = Some (concat (fst (pump St feed finish st0 r'))).
Proof. exact update_list_faithful_reader. Qed.
Print Assumptions C14_update_list_faithful_reader.

(** REFUTED variant: the standard io.LimitReader ends with plain EOF at the
    limit.  It is not faithful for any stream longer than the limit ... *)
Theorem C14_std_limit_not_faithful : forall n body,
  n < nlen body ->
  let r := serve [body] false in
  ends_ok (std_limit r n) = true /\
  received (std_limit r n) = firstn (N.to_nat n) body /\
  received (std_limit r n) <> received r.
Proof. exact std_limit_not_faithful. Qed.
Print Assumptions C14_std_limit_not_faithful.

(** ... and the download path behind it, for EVERY limit [cap] and every body
    of cap + 1 elements (witness size = limit + 1), reports [Replaced] and
    leaves at dst the first [cap] elements: neither the previous version nor
    the new one, with no fault, crash or concurrency involved. *)
Theorem C14_update_list_std_limit_refuted : forall s dst tmp fd (cap : N) body old_sum,
  quiescent s dst -> fresh_tmp s dst tmp ->
  nlen body = cap + 1 -> len_sum (firstn (N.to_nat cap) body) <> old_sum ->
  let r := std_limit (serve [body] false) cap in
  let t := fst (update_list unit tt id_feed id_finish len_sum fd tmp dst true r old_sum no_faults) in
  let res := snd (update_list unit tt id_feed id_finish len_sum fd tmp dst true r old_sum no_faults) in
  res = Replaced /\
  live_view (run s t) dst = Some (firstn (N.to_nat cap) body) /\
  firstn (N.to_nat cap) body <> body /\
  norm unit id_feed id_finish tt body = Some body.
Proof. exact update_list_std_limit_refuted. Qed.
Print Assumptions C14_update_list_std_limit_refuted.

Example C14_update_list_std_limit_witness :
  let s := boot [(1, [7; 7])] in
  let body := [1; 2; 3; 4; 5] in
  let r := std_limit (serve [[1; 2]; [3; 4; 5]] false) 4 in
  let t := fst (update_list unit tt id_feed id_finish len_sum 3 2 1 true r 2 no_faults) in
  snd (update_list unit tt id_feed id_finish len_sum 3 2 1 true r 2 no_faults) = Replaced /\
  trace_safe 1 s t = true /\
  live_view (run s t) 1 = Some [1; 2; 3; 4] /\
  (let r' := err_limit (serve [[1; 2]; [3; 4; 5]] false) 4 in
   let t' := fst (update_list unit tt id_feed id_finish len_sum 3 2 1 true r' 2 no_faults) in
   snd (update_list unit tt id_feed id_finish len_sum 3 2 1 true r' 2 no_faults) = Failed AtRead /\
   live_view (run s t') 1 = Some [7; 7]) /\
  (let r0 := serve [[1; 2]; [3; 4; 5]] false in
   let t0 := fst (update_list unit tt id_feed id_finish len_sum 3 2 1 true r0 2 no_faults) in
   snd (update_list unit tt id_feed id_finish len_sum 3 2 1 true r0 2 no_faults) = Replaced /\
   live_view (run s t0) 1 = Some body).
Proof. exact update_list_std_limit_witness. Qed.

Example C14_save_premises :
  let s := boot [(1, [10; 11])] in
  quiescent s 1 /\ fresh_tmp s 1 2 /\
  (let w := write_file 3 2 1 [[20]; [21; 22]] no_faults in
   snd w = Replaced /\ live_view (run s (fst w)) 1 = Some [20; 21; 22]) /\
  (let w := write_file 3 2 1 [[20]; [21; 22]]
              {| p_open := false; p_write := Some (1%nat, 1); p_sync := false; p_close := false; p_rename := false |} in
   snd w = Failed AtWrite /\ live_view (run s (fst w)) 1 = Some [10; 11] /\
   fst w = [Open 3 2 fl_tmp; Write 3 [20]; Write 3 [21]; Close 3; Unlink 2]) /\
  (let w := write_file 3 2 1 [[20]]
              {| p_open := false; p_write := None; p_sync := true; p_close := false; p_rename := false |} in
   snd w = Failed AtSync /\ live_view (run s (fst w)) 1 = Some [10; 11] /\
   fst w = [Open 3 2 fl_tmp; Write 3 [20]; Close 3; Unlink 2]) /\
  (let u := update_list unit tt (filter_feed (fun x => negb (x =? 0))) id_finish len_sum 3 2 1 true
              (serve [[5; 0]; [0; 6; 7]] false) 2
              {| p_open := false; p_write := None; p_sync := false; p_close := false; p_rename := true |} in
   snd u = Failed AtRename /\ live_view (run s (fst u)) 1 = Some [10; 11] /\
   fst u = [Open 3 2 fl_tmp; Write 3 [5]; Write 3 [6; 7]; Fsync 3; Close 3]) /\
  norm unit (filter_feed (fun x => negb (x =? 0))) id_finish tt [5; 0; 0; 6; 7] = Some [5; 6; 7].
Proof. exact save_premises. Qed.

(** Program level (covers write paths the traced runs do not reach): every
    call in the non-test, linux-built files of internal/home, dhcpd, filtering,
    filtering/rulelist, aghrenameio, configmigrate and aghos that creates,
    truncates, writes, renames or removes a path is a rename-based writer, a
    listed exception concerning one of the three kinds of file, or listed as
    concerning another file; nothing is unresolved; no listed function contains
    more such calls than listed.  The table is regenerated from the source
    (go/ast) on every run. *)
Theorem C14_writers_classified :
  forall w, In w writers -> rename_based w = true \/ excepted w = true \/ other_file w = true.
Proof. exact writers_classified. Qed.
Print Assumptions C14_writers_classified.

Theorem C14_writers_counts : counts_ok writers = true.
Proof. exact writers_counts. Qed.
Print Assumptions C14_writers_counts.

Theorem C14_writers_sites_present : sites_present writers = true.
Proof. exact expected_sites_present. Qed.
Print Assumptions C14_writers_sites_present.

Example C14_writer_judge_not_vacuous :
  writer_ok (mkw "internal/dhcpd/db.go"%string "writeDB"%string "os.WriteFile"%string KWriteFile 189) = false.
Proof. exact writer_ok_rejects_writefile. Qed.

Example C14_atomic_shape_premises :
  let s := boot [(1, [10; 11; 12])] in
  quiescent s 1 /\ fresh_tmp s 1 2 /\
  live_view s 1 = Some [10; 11; 12] /\
  let vs := visible_states s (atomic_shape 7 2 1 [[20]; []; [21; 22]]) 1 in
  In (Some [10; 11; 12]) vs /\ In (Some [20; 21; 22]) vs.
Proof. exact atomic_shape_premises. Qed.

Example C14_checker_sound_premises :
  let s := boot [(1, [1; 2])] in
  let t := atomic_shape 5 2 1 [[3]; [4]] ++
           [Open 5 3 fl_tmp; Write 5 [9]; Close 5; Unlink 3] ++
           atomic_shape 6 4 1 [[5; 6; 7]] in
  quiescent s 1 /\ trace_safe 1 s t = true /\ no_leftovers [1] s t = true /\
  all_versions s t 1 = [Some [1; 2]; Some [3; 4]; Some [5; 6; 7]].
Proof. exact checker_sound_premises. Qed.

Example C14_own_tmp_interleavings_safe :
  let s := boot [(1, [1;2;3])] in
  let tA := atomic_shape 3 2 1 [[4]; [5;6]] in
  let tB := atomic_shape 4 5 1 [[7;8]; [9]] in
  length (interleavings tA tB) = 924%nat /\
  forallb (fun t => trace_safe 1 s t && no_leftovers [1] s t &&
                    match all_versions s t 1 with
                    | [Some [1;2;3]; Some [4;5;6]; Some [7;8;9]] => true
                    | [Some [1;2;3]; Some [7;8;9]; Some [4;5;6]] => true
                    | _ => false
                    end) (interleavings tA tB) = true.
Proof. exact own_tmp_interleavings_safe. Qed.

Example C14_two_saves_premises :
  let s := boot [(1, [1; 2; 3])] in
  quiescent s 1 /\ unused_above 1 s /\ aget (dir_cur s) 2 = None /\ aget (dir_cur s) 5 = None /\
  In ([Open 3 2 fl_tmp; Open 4 5 fl_tmp; Write 4 [7]; Write 3 [4; 5]; Fsync 4; Fsync 3; Close 3; Rename 2 1; Close 4; Rename 5 1])
     (interleavings (atomic_shape 3 2 1 [[4; 5]]) (atomic_shape 4 5 1 [[7]])).
Proof. exact two_saves_premises. Qed.

Example C14_round2_premises :
  let s := boot [(1, [1; 2])] in
  let t1 := atomic_shape 5 2 1 [[3]; [4]] in
  let o := Open 6 3 fl_tmp in
  let t2 := [Write 6 [9]; Fsync 6; Close 6; Rename 3 1] in
  (quiescent s 1 /\ trace_safe 1 s (t1 ++ o :: t2) = true /\ live_view s 1 <> None /\
   versions s t1 1 <> [] /\ ever_at (run s t1) 1 2 = true /\
   live_view (run s t1) 1 = Some [3; 4] /\ dst_stays 1 s (t1 ++ o :: t2) = true) /\
  (let s' := run s t1 in
   aget (dir_cur s') 1 = Some 2 /\ ever_at s' 1 2 = true /\
   trace_safe 1 s' [Open 7 1 fl_trunc] = false) /\
  (let s'' := run s [Open 5 2 fl_tmp; Write 5 [3]; Fsync 5; Rename 2 1] in
   exists e, aget (fds s'') 5 = Some e /\ ever_at s'' 1 (fd_ino e) = true /\
             trace_safe 1 s'' [Write 5 [4]] = false) /\
  (let s3 := run s [Open 5 2 fl_tmp; Write 5 [3]] in
   2 <> 1 /\ aget (dir_cur s3) 2 = Some 2 /\ f_pend (file_of s3 2) <> [] /\
   trace_safe 1 s3 [Rename 2 1] = false).
Proof. exact round2_premises. Qed.

(** ** Round 5 (I): overlapping downloads and the pooled scanner buffer *)

(** The line scanner with its buffer contents explicit is a parser stage that
    does not depend on how the body is cut into chunks, for every line
    processor: all theorems of the download path hold for it. *)
Theorem C14_buffered_scanner_chunking_independent : forall PS (pl : PS -> data -> option (PS * list data)),
  chunking_independent (bst PS) (buf_feed PS pl).
Proof. exact buf_chunking_independent. Qed.
Print Assumptions C14_buffered_scanner_chunking_independent.

(** With the deferred Put of updateIntl (a download holds its buffer until its
    copy loop has finished): for ANY number of downloads, ANY inputs (cut,
    rejected, complete), ANY interleaving of their steps (Get, one Read result
    each), a download that has ended has requested exactly the writes, and
    reports exactly the end, of the same download running ALONE. *)
Theorem C14_overlapping_saves_independent : forall PS ps0 (pl : PS -> data -> option (PS * list data)) inputs sched i ws ok,
  saver_result PS (prun PS pl false (pinit PS ps0 inputs) sched) i = Some (ws, ok) ->
  pump (bst PS) (buf_feed PS pl) (buf_finish PS pl) (ps0, []) (orig_of inputs i) = (ws, ok).
Proof. exact pool_run_independent. Qed.
Print Assumptions C14_overlapping_saves_independent.

(** ... hence, for a completely served body, the normal form of ITS OWN body
    (the [norm] of [C14_update_list_served_identity]), whatever the other
    downloads read and write. *)
Theorem C14_overlapping_saves_own_normal_form : forall PS ps0 (pl : PS -> data -> option (PS * list data)) inputs sched i chunks ws ok,
  aget inputs i = Some (serve chunks false) ->
  saver_result PS (prun PS pl false (pinit PS ps0 inputs) sched) i = Some (ws, ok) ->
  if ok then norm (bst PS) (buf_feed PS pl) (buf_finish PS pl) (ps0, []) (concat chunks) = Some (concat ws)
  else norm (bst PS) (buf_feed PS pl) (buf_finish PS pl) (ps0, []) (concat chunks) = None.
Proof. exact pool_run_own_normal_form. Qed.
Print Assumptions C14_overlapping_saves_own_normal_form.

(** While it runs: what a download has written so far, continued by what the
    lone download would write from its present state, is the lone download's
    output: nothing of another download has entered. *)
Theorem C14_overlapping_saves_prefix : forall PS ps0 (pl : PS -> data -> option (PS * list data)) inputs sched i sv,
  let w := prun PS pl false (pinit PS ps0 inputs) sched in
  aget (po_savers PS w) i = Some sv -> sv_phase PS sv = SCopy ->
  pump_from PS pl (sv_ws PS sv) (sv_ps PS sv, cell PS w (sv_buf PS sv)) (sv_in PS sv) =
  pump (bst PS) (buf_feed PS pl) (buf_finish PS pl) (ps0, []) (orig_of inputs i).
Proof. exact pool_run_prefix. Qed.
Print Assumptions C14_overlapping_saves_prefix.

(** The reason: no two running downloads ever hold the same buffer, and a
    buffer in the pool is nobody's. *)
Theorem C14_pooled_buffer_exclusive : forall PS ps0 (pl : PS -> data -> option (PS * list data)) inputs sched i j svi svj,
  let w := prun PS pl false (pinit PS ps0 inputs) sched in
  i <> j -> aget (po_savers PS w) i = Some svi -> aget (po_savers PS w) j = Some svj ->
  sv_phase PS svi = SCopy -> sv_phase PS svj = SCopy ->
  sv_buf PS svi <> sv_buf PS svj /\ ~ In (sv_buf PS svi) (po_free PS w).
Proof. exact pool_run_exclusive. Qed.
Print Assumptions C14_pooled_buffer_exclusive.

Example C14_overlapping_saves_premises :
  let inputs := [(1, serve [[97; 97]; [97; 10; 97]; [97; 97; 10]] false);
                 (2, serve [[98; 10; 98]; [98; 10; 35; 98; 10]; [98]] false);
                 (3, serve [[99; 99; 10; 99]] true)] in
  let w := prun bool simple_pl false (pinit bool false inputs) [1; 1; 2; 2; 3; 1; 3; 2; 2; 1; 3; 1; 2] in
  saver_result bool w 1 = Some ([[97; 97; 97; 10]; [97; 97; 97; 10]], true) /\
  saver_result bool w 2 = Some ([[98; 10]; [98; 98; 10]; [98; 10]], true) /\
  saver_result bool w 3 = Some ([[99; 99; 10]], false) /\
  po_free bool w <> [] /\ po_next bool w = 3.
Proof. exact pool_run_example. Qed.

(** REFUTED: Put before use (the buffer is back in the pool while the copy
    loop still reads into it).  Download 2 gets the buffer in which half a
    line of download 1 is pending; both report success; 1's output holds a
    line with a byte of 2, 2's a truncated line; with the deferred Put the
    same inputs and schedule give each its own. *)
Theorem C14_early_put_mixes :
  let inputs := [(1, serve [[97; 10; 97; 97]; [97; 10]] false);
                 (2, serve [[98; 98; 10; 98]; [98; 10]] false)] in
  let sched := [1; 1; 2; 2; 1; 1; 2; 2] in
  let w := prun bool simple_pl true (pinit bool false inputs) sched in
  saver_result bool w 1 = Some ([[97; 10]; [98; 97; 10]], true) /\
  saver_result bool w 2 = Some ([[98; 98; 10]; [98; 10]], true) /\
  pump (bst bool) (buf_feed bool simple_pl) (buf_finish bool simple_pl) (false, []) (orig_of inputs 1)
    = ([[97; 10]; [97; 97; 97; 10]], true) /\
  (let w' := prun bool simple_pl false (pinit bool false inputs) sched in
   saver_result bool w' 1 = Some ([[97; 10]; [97; 97; 97; 10]], true) /\
   saver_result bool w' 2 = Some ([[98; 98; 10]; [98; 98; 10]], true)).
Proof. exact early_put_mixes. Qed.
Print Assumptions C14_early_put_mixes.

Theorem C14_early_put_foreign_line :
  let inputs := [(1, serve [[97; 97]; [97; 10]] false);
                 (2, serve [[98; 98; 10; 98]; [98; 10]] false)] in
  let w := prun bool simple_pl true (pinit bool false inputs) [1; 1; 2; 2; 1; 1; 2; 2] in
  saver_result bool w 1 = Some ([[98; 97; 10]], true) /\
  In 98 (concat (fst (match saver_result bool w 1 with Some x => x | None => ([], false) end))).
Proof. exact early_put_foreign_line. Qed.
Print Assumptions C14_early_put_foreign_line.

(** ** Round 5 (J): set_url (filterSetProperties) and the list file *)

(** A download that cannot produce a complete new version reports [Failed]. *)
Theorem C14_update_list_fails : forall St st0 feed finish sum fd tmp dst src_ok r old_sum p,
  src_ok = false \/ snd (pump St feed finish st0 r) = false \/ p_open p = true \/
  snd (do_writes (fst (pump St feed finish st0 r)) (p_write p)) = false ->
  exists st, snd (update_list St st0 feed finish sum fd tmp dst src_ok r old_sum p) = Failed st.
Proof. exact update_list_fails. Qed.
Print Assumptions C14_update_list_fails.

(** Whatever the request (URL change, re-enable, rename, disable, a URL that
    is taken), the source, the fault plan: a set_url call that reports an
    error has left the file as it was at every instant and after a crash at
    every prefix, and has rolled the entry back. *)
Theorem C14_failed_set_url_keeps_file : forall St st0 feed finish sum s e taken q fd tmp dst src_ok r p rmf,
  quiescent s dst -> fresh_tmp s dst tmp ->
  let x := set_props St st0 feed finish sum true s e taken q fd tmp dst src_ok r p rmf in
  snd (fst x) = SetErr ->
  (forall v, In v (visible_states s (fst (fst x)) dst) -> v = live_view s dst) /\
  live_view (run s (fst (fst x))) dst = live_view s dst /\
  snd x = e.
Proof. exact set_props_failed_keeps_file. Qed.
Print Assumptions C14_failed_set_url_keeps_file.

(** ... and a failing download always makes the call report an error. *)
Theorem C14_failed_download_fails_set_url : forall St st0 feed finish sum s e taken q fd tmp dst src_ok r p rmf,
  downloads e taken q = true ->
  (exists st, snd (update_list St st0 feed finish sum fd tmp dst src_ok r (sum_for e q) p) = Failed st) ->
  snd (fst (set_props St st0 feed finish sum true s e taken q fd tmp dst src_ok r p rmf)) = SetErr.
Proof. exact set_props_failed_download_reported. Qed.
Print Assumptions C14_failed_download_fails_set_url.

(** After a call that succeeds: the file is untouched when no download is made;
    the new list when the download replaced it; NO FILE only when the download
    ended without error, read to EOF, and brought what the checksum in memory
    already describes (0 after a URL change or for a disabled list: a list
    without rules; fix 9598232).  The removal is an unlink of dst, outside the
    rename discipline: the statement is about the state after the call. *)
Theorem C14_set_url_ok_file : forall St st0 feed finish sum s e taken q fd tmp dst src_ok r p rmf restart,
  quiescent s dst -> fresh_tmp s dst tmp ->
  let x := set_props St st0 feed finish sum true s e taken q fd tmp dst src_ok r p rmf in
  snd (fst x) = SetOk restart ->
  let fin := live_view (run s (fst (fst x))) dst in
  if downloads e taken q then
    match snd (update_list St st0 feed finish sum fd tmp dst src_ok r (sum_for e q) p) with
    | Replaced => fin = Some (concat (fst (pump St feed finish st0 r))) /\ restart = true
    | Skipped => fin = None /\ restart = true /\
                 snd (pump St feed finish st0 r) = true /\ sum (concat (fst (pump St feed finish st0 r))) = sum_for e q
    | Failed _ => False
    end
  else fin = live_view s dst /\ fst (fst x) = [].
Proof. exact set_props_ok_file. Qed.
Print Assumptions C14_set_url_ok_file.

(** REFUTED: the removal guarded by [!updated] alone (without [err == nil]).
    Whenever the stored file exists and the source cannot be reached, the call
    reports the error, rolls the entry back, and the file is gone. *)
Theorem C14_unguarded_removal_loses_file : forall St st0 feed finish sum s e taken q fd tmp dst r p,
  quiescent s dst -> fresh_tmp s dst tmp ->
  downloads e taken q = true -> dst_present s dst = true ->
  let x := set_props St st0 feed finish sum false s e taken q fd tmp dst false r p false in
  snd (fst x) = SetErr /\ snd x = e /\
  live_view s dst <> None /\ live_view (run s (fst (fst x))) dst = None.
Proof. exact set_props_unguarded_loses_file. Qed.
Print Assumptions C14_unguarded_removal_loses_file.

Example C14_set_url_premises :
  let s := boot [(1, [10; 11])] in
  let e := {| e_url := 7; e_enabled := true; e_sum := 2 |} in
  let off := {| e_url := 7; e_enabled := false; e_sum := 0 |} in
  let fin x := live_view (run s (fst (fst x))) 1 in
  quiescent s 1 /\ fresh_tmp s 1 2 /\
  (let x := su_set true s e false {| q_url := 8; q_enabled := true |} 3 2 1 false [] no_faults false in
   snd (fst x) = SetErr /\ fin x = Some [10; 11] /\ snd x = e /\
   fst (fst x) = [Open 3 2 fl_tmp; Close 3; Unlink 2]) /\
  (let x := su_set true s e false {| q_url := 8; q_enabled := true |} 3 2 1 true (serve [[20]; [21]] true) no_faults false in
   snd (fst x) = SetErr /\ fin x = Some [10; 11] /\ snd x = e) /\
  (let x := su_set true s e false {| q_url := 8; q_enabled := true |} 3 2 1 true (serve [[20]; [21; 22]] false) no_faults false in
   snd (fst x) = SetOk true /\ fin x = Some [20; 21; 22] /\ snd x = {| e_url := 8; e_enabled := true; e_sum := 3 |}) /\
  (let x := su_set true s e false {| q_url := 8; q_enabled := true |} 3 2 1 true (serve [] false) no_faults false in
   snd (fst x) = SetOk true /\ fin x = None /\
   fst (fst x) = [Open 3 2 fl_tmp; Close 3; Unlink 2; Unlink 1]) /\
  (let x := su_set true s off false {| q_url := 7; q_enabled := true |} 3 2 1 false [] no_faults false in
   snd (fst x) = SetErr /\ fin x = Some [10; 11] /\ snd x = off) /\
  (let x := su_set true s e false {| q_url := 7; q_enabled := false |} 3 2 1 true [] no_faults false in
   snd (fst x) = SetOk true /\ fin x = Some [10; 11] /\ fst (fst x) = []) /\
  (let x := su_set true s e true {| q_url := 8; q_enabled := true |} 3 2 1 true (serve [[20]] false) no_faults false in
   snd (fst x) = SetErr /\ fst (fst x) = [] /\ snd x = e).
Proof. exact set_props_premises. Qed.

Example C14_unguarded_removal_witness :
  let s := boot [(1, [10; 11])] in
  let e := {| e_url := 7; e_enabled := true; e_sum := 2 |} in
  let x := su_set false s e false {| q_url := 8; q_enabled := true |} 3 2 1 false [] no_faults false in
  snd (fst x) = SetErr /\ snd x = e /\
  fst (fst x) = [Open 3 2 fl_tmp; Close 3; Unlink 2; Unlink 1] /\
  live_view (run s (fst (fst x))) 1 = None /\
  trace_safe 1 s (fst (fst x)) = false /\ dst_stays 1 s (fst (fst x)) = false.
Proof. exact set_props_unguarded_witness. Qed.

(** ** Round 6 (L): the HTTP status of a list download.  The "new version" of
    a list save exists only when the list server delivered the COMPLETE body
    with status 200 (after the redirects the client follows).  [fetch] is what
    the HTTP client returns for a list server given as a map from URLs to
    answers (redirect / status + body in chunks, cut or not / no answer).

    As the code is ([only_200]): for every list server, redirect chain, final
    status OTHER than 200 - 203, 204, 205, 206 with a partial body, a 3xx that
    is not followed, 304, 4xx, 5xx - or no answer, whatever body comes with
    it, every previous checksum and fault plan: the download fails and the
    stored list is the previous version at every instant and after a crash at
    every prefix. *)
Theorem C14_non_200_keeps_file : forall St st0 feed finish sum s dst tmp fd fuel web u old_sum p,
  quiescent s dst -> fresh_tmp s dst tmp ->
  final_status fuel web u <> Some 200 ->
  let x := update_from_url St st0 feed finish sum only_200 fuel web u fd tmp dst old_sum p in
  (exists stg, snd x = Failed stg) /\
  (forall v, In v (visible_states s (fst x) dst) -> v = live_view s dst) /\
  live_view (run s (fst x)) dst = live_view s dst.
Proof. exact non_200_keeps_file. Qed.
Print Assumptions C14_non_200_keeps_file.

(** A replaced list file needs a final status of 200 and a body read to its
    end without error; it is then what the parser wrote for that body. *)
Theorem C14_replaced_needs_200 : forall St st0 feed finish sum s dst tmp fd fuel web u old_sum p,
  quiescent s dst -> fresh_tmp s dst tmp ->
  let x := update_from_url St st0 feed finish sum only_200 fuel web u fd tmp dst old_sum p in
  snd x = Replaced ->
  exists r, fetch fuel web u = Some (200, r) /\ ends_ok r = true /\ snd (pump St feed finish st0 r) = true /\
            live_view (run s (fst x)) dst = Some (concat (fst (pump St feed finish st0 r))).
Proof. exact replaced_needs_200. Qed.
Print Assumptions C14_replaced_needs_200.

(** The monitor's statement, for all inputs: the final answer is a body in
    chunks with some status; the file is the previous version, or the normal
    form of the COMPLETE body, delivered with status 200 and not cut. *)
Theorem C14_served_status_identity : forall St st0 feed finish sum s dst tmp fd fuel web u st chunks cut old_sum p,
  chunking_independent St feed ->
  quiescent s dst -> fresh_tmp s dst tmp ->
  fetch fuel web u = Some (st, serve chunks cut) ->
  let x := update_from_url St st0 feed finish sum only_200 fuel web u fd tmp dst old_sum p in
  (forall v, In v (visible_states s (fst x) dst) ->
             v = live_view s dst \/
             (snd x = Replaced /\ st = 200 /\ cut = false /\
              Some v = option_map Some (norm St feed finish st0 (concat chunks)))) /\
  (snd x <> Replaced -> live_view (run s (fst x)) dst = live_view s dst).
Proof. exact served_status_identity. Qed.
Print Assumptions C14_served_status_identity.

(** A redirect is followed: the save from [u] is the save from its target; a
    chain longer than the client follows is no answer. *)
Theorem C14_redirect_is_targets_save : forall St st0 feed finish sum accept fuel web u to fd tmp dst old_sum p,
  web u = ARedirect to ->
  update_from_url St st0 feed finish sum accept (S fuel) web u fd tmp dst old_sum p =
  update_from_url St st0 feed finish sum accept fuel web to fd tmp dst old_sum p.
Proof. exact redirect_is_targets_save. Qed.
Print Assumptions C14_redirect_is_targets_save.

Theorem C14_redirect_chain_too_long : forall St st0 feed finish sum accept web u to fd tmp dst old_sum p,
  web u = ARedirect to ->
  exists stg, snd (update_from_url St st0 feed finish sum accept 0 web u fd tmp dst old_sum p) = Failed stg.
Proof. exact redirect_chain_too_long. Qed.
Print Assumptions C14_redirect_chain_too_long.

(** REFUTED variant (every 2xx status opens a reader): for every 2xx status
    other than 200 and every part of a list served with it (the range of a
    206; the nothing of a 204), the refresh reports [Replaced] and the file IS
    that part, where the code as it is fails and keeps the previous version. *)
Theorem C14_any_2xx_refuted : forall s dst tmp fd web u st part old_sum,
  quiescent s dst -> fresh_tmp s dst tmp ->
  any_2xx st = true -> st <> 200 ->
  web u = AServe st [part] false -> len_sum part <> old_sum ->
  let bad := st_update any_2xx max_redirects web u fd tmp dst old_sum no_faults in
  let good := st_update only_200 max_redirects web u fd tmp dst old_sum no_faults in
  snd bad = Replaced /\ live_view (run s (fst bad)) dst = Some part /\
  snd good = Failed AtSource /\ live_view (run s (fst good)) dst = live_view s dst.
Proof. exact any_2xx_refuted. Qed.
Print Assumptions C14_any_2xx_refuted.

(** Witness and satisfiable premises: stored list [10; 11; 12]; 206 with the
    first half of [1; 2; 3; 4]; 200 with all of it; redirects to either; 204;
    304; a redirect loop; no answer. *)
Example C14_status_witness :
  let s := boot [(1, [10; 11; 12])] in
  let web (u : N) := if u =? 1 then AServe 206 [[1; 2]] false
                     else if u =? 2 then AServe 200 [[1; 2]; [3; 4]] false
                     else if u =? 3 then ARedirect 2
                     else if u =? 4 then ARedirect 1
                     else if u =? 5 then AServe 204 [] false
                     else if u =? 6 then AServe 304 [] false
                     else if u =? 7 then ARedirect 7
                     else ADown in
  let fin x := live_view (run s (fst x)) 1 in
  quiescent s 1 /\ fresh_tmp s 1 2 /\
  (let x := st_update any_2xx max_redirects web 1 3 2 1 3 no_faults in snd x = Replaced /\ fin x = Some [1; 2]) /\
  (let x := st_update only_200 max_redirects web 1 3 2 1 3 no_faults in
   snd x = Failed AtSource /\ fin x = Some [10; 11; 12] /\ fst x = [Open 3 2 fl_tmp; Close 3; Unlink 2]) /\
  (let x := st_update only_200 max_redirects web 2 3 2 1 3 no_faults in snd x = Replaced /\ fin x = Some [1; 2; 3; 4]) /\
  (let x := st_update only_200 max_redirects web 3 3 2 1 3 no_faults in snd x = Replaced /\ fin x = Some [1; 2; 3; 4]) /\
  (let x := st_update only_200 max_redirects web 4 3 2 1 3 no_faults in snd x = Failed AtSource /\ fin x = Some [10; 11; 12]) /\
  (let x := st_update any_2xx max_redirects web 5 3 2 1 3 no_faults in snd x = Replaced /\ fin x = Some []) /\
  (let x := st_update only_200 max_redirects web 5 3 2 1 3 no_faults in snd x = Failed AtSource /\ fin x = Some [10; 11; 12]) /\
  (let x := st_update only_200 max_redirects web 6 3 2 1 3 no_faults in snd x = Failed AtSource /\ fin x = Some [10; 11; 12]) /\
  (let x := st_update only_200 max_redirects web 7 3 2 1 3 no_faults in snd x = Failed AtSource /\ fin x = Some [10; 11; 12]) /\
  (let x := st_update only_200 max_redirects web 8 3 2 1 3 no_faults in snd x = Failed AtSource /\ fin x = Some [10; 11; 12]).
Proof. exact status_witness. Qed.

(** ** Round 6 (K): the migration of the legacy lease database
    (leases.db -> data/leases.json), a save whose data live in TWO paths.
    [visible_pairs s t dst old]: what can be read at both paths at the same
    moment, at every instant of [t] and after a crash at every prefix (one
    directory of the journal for both; per file any crash content).

    As the code is (the legacy file is removed ONLY after the atomic write of
    the new one succeeded): for every legacy content and its conversion, every
    chunking, every fault plan of the write (temporary file not created: data
    directory missing, no descriptor; a write cut: disk full, file-size limit;
    fsync / close / rename failing) and whether or not the removal fails: at
    every instant and after a crash at every prefix the new file is complete
    or the legacy file is still there and complete. *)
Theorem C14_migration_never_loses_leases : forall s old dst tmp fd conv oc chunks,
  quiescent s dst -> quiescent s old -> fresh_tmp s dst tmp -> fresh_tmp s old tmp -> dst <> old ->
  live_view s old = Some oc -> conv oc = ConvNew chunks ->
  forall p rmf,
  let x := migrate true s old dst fd tmp true conv p rmf in
  forall v w, In (v, w) (visible_pairs s (fst x) dst old) -> v = Some (concat chunks) \/ w = Some oc.
Proof. exact migration_never_loses_leases. Qed.
Print Assumptions C14_migration_never_loses_leases.

(** What the migration reports and where the leases are afterwards. *)
Theorem C14_migration_result : forall s old dst tmp fd conv oc chunks,
  quiescent s dst -> quiescent s old -> fresh_tmp s dst tmp -> fresh_tmp s old tmp -> dst <> old ->
  live_view s old = Some oc -> conv oc = ConvNew chunks ->
  forall p rmf,
  let x := migrate true s old dst fd tmp true conv p rmf in
  let fin := run s (fst x) in
  match snd x with
  | MigDone => live_view fin dst = Some (concat chunks) /\ live_view fin old = None /\
               snd (write_file fd tmp dst chunks p) = Replaced /\ rmf = false
  | MigErr => live_view fin old = Some oc /\
              (snd (write_file fd tmp dst chunks p) = Replaced -> rmf = true /\ live_view fin dst = Some (concat chunks)) /\
              (snd (write_file fd tmp dst chunks p) <> Replaced -> live_view fin dst = live_view s dst)
  | MigNothing => False
  end.
Proof. exact migration_result. Qed.
Print Assumptions C14_migration_result.

(** No legacy file, an unreadable one, one that does not decode or decodes to
    no table: the migration does nothing to the file system. *)
Theorem C14_migration_nothing_to_do : forall guard s old dst fd tmp readable conv p rmf,
  live_view s old = None \/ readable = false \/
  (forall oc, live_view s old = Some oc -> conv oc = ConvNothing \/ conv oc = ConvErr) ->
  fst (migrate guard s old dst fd tmp readable conv p rmf) = [].
Proof. exact migrate_no_ops. Qed.
Print Assumptions C14_migration_nothing_to_do.

(** REFUTED variant (the removal of the legacy file does not look at the
    result of the write): for EVERY plan under which the write does not
    replace the file, the call reports the error, dst is as it was and the
    legacy file is gone: the lease database holds neither version. *)
Theorem C14_unconditional_removal_loses_leases : forall s old dst tmp fd conv oc chunks,
  quiescent s dst -> fresh_tmp s dst tmp -> dst <> old ->
  live_view s old = Some oc -> conv oc = ConvNew chunks ->
  forall p,
  snd (write_file fd tmp dst chunks p) <> Replaced ->
  let x := migrate false s old dst fd tmp true conv p false in
  let fin := run s (fst x) in
  snd x = MigErr /\ live_view fin old = None /\ live_view fin dst = live_view s dst.
Proof. exact unconditional_removal_loses_leases. Qed.
Print Assumptions C14_unconditional_removal_loses_leases.

(** ... and every injected fault is such a plan. *)
Theorem C14_failing_plans_do_not_replace : forall fd tmp dst chunks p,
  p_open p || p_sync p || p_close p || p_rename p = true \/ snd (do_writes chunks (p_write p)) = false ->
  snd (write_file fd tmp dst chunks p) <> Replaced.
Proof. exact failing_plans_do_not_replace. Qed.
Print Assumptions C14_failing_plans_do_not_replace.

(** Premises satisfiable and witnesses: legacy file 2 = [7; 8; 9] converting to
    [20; 21; 22], dst 1 absent; success, data directory missing, a write cut,
    fsync failing, the removal failing; the refuted variant on the same
    inputs, with the pair (no file, no file) visible in its trace and in none
    of the code's. *)
Example C14_migration_premises :
  let s := boot [(2, [7; 8; 9])] in
  let conv (c : data) := ConvNew [[20]; [21; 22]] in
  let mig g p rmf := migrate g s 2 1 4 3 true conv p rmf in
  let fin x := (live_view (run s (fst x)) 1, live_view (run s (fst x)) 2) in
  let nodir := {| p_open := true; p_write := None; p_sync := false; p_close := false; p_rename := false |} in
  let cutw := {| p_open := false; p_write := Some (1%nat, 1); p_sync := false; p_close := false; p_rename := false |} in
  let nosync := {| p_open := false; p_write := None; p_sync := true; p_close := false; p_rename := false |} in
  quiescent s 1 /\ quiescent s 2 /\ fresh_tmp s 1 3 /\ fresh_tmp s 2 3 /\
  (let x := mig true no_faults false in
   snd x = MigDone /\ fin x = (Some [20; 21; 22], None) /\
   fst x = [Open 4 3 fl_tmp; Write 4 [20]; Write 4 [21; 22]; Fsync 4; Close 4; Rename 3 1; Unlink 2]) /\
  (let x := mig true nodir false in snd x = MigErr /\ fin x = (None, Some [7; 8; 9]) /\ fst x = []) /\
  (let x := mig true cutw false in
   snd x = MigErr /\ fin x = (None, Some [7; 8; 9]) /\
   fst x = [Open 4 3 fl_tmp; Write 4 [20]; Write 4 [21]; Close 4; Unlink 3]) /\
  (let x := mig true nosync false in snd x = MigErr /\ fin x = (None, Some [7; 8; 9])) /\
  (let x := mig true no_faults true in snd x = MigErr /\ fin x = (Some [20; 21; 22], Some [7; 8; 9])) /\
  (* the refuted variant on the same inputs *)
  (let x := mig false nodir false in snd x = MigErr /\ fin x = (None, None) /\ fst x = [Unlink 2]) /\
  (let x := mig false cutw false in
   snd x = MigErr /\ fin x = (None, None) /\
   fst x = [Open 4 3 fl_tmp; Write 4 [20]; Write 4 [21]; Close 4; Unlink 3; Unlink 2]) /\
  (let x := mig false nosync false in snd x = MigErr /\ fin x = (None, None)) /\
  (* ... and the pair (nothing, nothing) is visible in its trace, in none of the code's *)
  existsb (fun vw => match vw with (None, None) => true | _ => false end)
          (visible_pairs s (fst (mig false cutw false)) 1 2) = true /\
  forallb (fun p => forallb (fun vw => match vw with (None, None) => false | _ => true end)
                            (visible_pairs s (fst (mig true p false)) 1 2))
          [no_faults; nodir; cutw; nosync] = true.
Proof. exact migrate_premises. Qed.

(** ** Round 7 (N): the identity of the destination path.  Every list of both
    arrays is stored at data/filters/<id>.txt, so two lists with one id share a
    file and the atomic save of one replaces the other's.  As the code is
    (generator seeded with the clock at every start) and under its ASSUMPTION
    [clock_ahead] (at every start the clock reads at least every id in use):
    after any history of starts and add_url calls the ids are pairwise distinct
    over BOTH arrays, and the id the next add_url hands out is no list's. *)
Theorem C14_add_never_reuses_a_path : forall ops st,
  ids_ok st -> clock_ahead st ops -> ids_ok (idrun seed_clock st ops).
Proof. exact add_never_reuses_a_path. Qed.
Print Assumptions C14_add_never_reuses_a_path.

Theorem C14_added_id_is_fresh : forall ops st allow,
  ids_ok st -> clock_ahead st ops ->
  let st' := idrun seed_clock st ops in
  ~ In (id_cur st' + 1) (ids_all st') /\ id_cur (idstep seed_clock st' (IAdd allow)) = id_cur st' + 1.
Proof. exact added_id_is_fresh. Qed.
Print Assumptions C14_added_id_is_fresh.

(** REFUTED variant (generator seeded with the largest BLOCK-list id): an
    allow list with the id just above it, a start, add_url of a block list:
    two lists, one file. *)
Theorem C14_seed_max_block_reuses_a_path : forall st now,
  In (lmax (ids_block st) + 1) (ids_allow st) ->
  let st' := idrun seed_max_block st [IRestart now; IAdd false] in
  ~ NoDup (ids_all st') /\ In (lmax (ids_block st) + 1) (ids_block st') /\ In (lmax (ids_block st) + 1) (ids_allow st').
Proof. exact seed_max_block_reuses_a_path. Qed.
Print Assumptions C14_seed_max_block_reuses_a_path.

(** Witness (block 1, 2; allow 3) and: the assumption is needed (a clock
    reading 2 at the start gives the same collision with the code as it is). *)
Example C14_ids_witness :
  let st := {| ids_block := [1; 2]; ids_allow := [3]; id_cur := 3 |} in
  ids_ok st /\
  ids_all (idrun seed_max_block st [IRestart 1790000000; IAdd false]) = [1; 2; 3; 3] /\
  ids_all (idrun seed_clock st [IRestart 1790000000; IAdd false; IAdd true]) = [1; 2; 1790000001; 3; 1790000002] /\
  clock_ahead st [IRestart 1790000000; IAdd false; IAdd true] /\
  (* the assumption is needed: a clock that reads 2 at the start *)
  ids_all (idrun seed_clock st [IRestart 2; IAdd false]) = [1; 2; 3; 3] /\ ~ clock_ahead st [IRestart 2; IAdd false].
Proof. exact ids_witness. Qed.

(** ** Round 7 (M): a start computes the checksum of ENABLED lists only.  With
    no checksum in memory, a set_url that downloads and succeeds leaves no
    file only when the complete body has the checksum of the empty list; in
    particular re-enabling a list from a source that serves the stored rules
    keeps them (replaced by the same contents). *)
Theorem C14_set_url_unloaded_keeps_rules : forall St st0 feed finish sum s e taken q fd tmp dst src_ok r p rmf restart,
  quiescent s dst -> fresh_tmp s dst tmp ->
  downloads e taken q = true -> sum_for e q = 0 ->
  let x := set_props St st0 feed finish sum true s e taken q fd tmp dst src_ok r p rmf in
  snd (fst x) = SetOk restart ->
  live_view (run s (fst (fst x))) dst = Some (concat (fst (pump St feed finish st0 r))) \/
  (live_view (run s (fst (fst x))) dst = None /\ snd (pump St feed finish st0 r) = true /\
   sum (concat (fst (pump St feed finish st0 r))) = 0).
Proof. exact set_url_unloaded_keeps_rules. Qed.
Print Assumptions C14_set_url_unloaded_keeps_rules.

(** ... and the refuted variant (a start loads disabled lists too): the same
    call finds "no change" and removes the file, reporting success. *)
Example C14_reenable_after_restart :
  let file := [10; 11] in
  let s := boot [(1, file)] in
  let entry ld := {| e_url := 7; e_enabled := false; e_sum := start_sum ld len_sum false (Some file) |} in
  let call ld := su_set true s (entry ld) false {| q_url := 7; q_enabled := true |} 3 2 1 true (serve [[10]; [11]] false) no_faults false in
  let fin x := live_view (run s (fst (fst x))) 1 in
  (snd (fst (call false)) = SetOk true /\ fin (call false) = Some file) /\
  (snd (fst (call true)) = SetOk true /\ fin (call true) = None).
Proof. exact reenable_after_restart. Qed.

(** ** Round 8 (O): remove_url.  For every array, every other array whose ids
    are distinct from it, and every index: the file renamed away is the removed
    entry's own; the entry leaves the array, every other entry stays; no list
    that is still configured, in either array, has the id whose file went. *)
Theorem C14_remove_touches_only_its_own_file : forall arr others k id,
  NoDup (arr ++ others) -> nth_error arr k = Some id ->
  let r := remove_list false arr k in
  snd r = Some id /\ fst r = remove_at arr k /\
  ~ In id (fst r ++ others) /\
  (forall x, In x arr -> x <> id -> In x (fst r)).
Proof. exact remove_touches_only_its_own_file. Qed.
Print Assumptions C14_remove_touches_only_its_own_file.

(** REFUTED variant (the path computed through a pointer into the array after
    slices.Delete): whenever the removed list has a successor in its array, the
    successor's file is renamed away, and the successor is still configured. *)
Theorem C14_pointer_after_delete_renames_successor : forall arr k id nxt,
  NoDup arr -> nth_error arr k = Some id -> nth_error arr (S k) = Some nxt ->
  let r := remove_list true arr k in
  snd r = Some nxt /\ In nxt (fst r) /\ nxt <> id.
Proof. exact pointer_after_delete_renames_successor. Qed.
Print Assumptions C14_pointer_after_delete_renames_successor.

Example C14_remove_witness :
  remove_list false [1; 2; 3] 0 = ([2; 3], Some 1) /\
  remove_list true [1; 2; 3] 0 = ([2; 3], Some 2) /\
  remove_list false [1; 2; 3] 2 = ([1; 2], Some 3) /\
  remove_list true [1; 2; 3] 2 = ([1; 2], None) /\
  remove_list false [1; 2; 3] 5 = ([1; 2; 3], None).
Proof. exact remove_witness. Qed.

(** C14: configuration, lease database and filter files are replaced
    atomically.  Only statements here; proofs live in Proofs/FS.v. *)
From Coq Require Import List NArith.
From AGH Require Import Base.FS Proofs.FS.
Import ListNotations.
Local Open Scope N_scope.

Theorem C14_truncate_write_unsafe :
  exists old new,
    let s := boot [(1, old)] in
    let t := inplace_shape 3 1 [new] in
    trace_safe 1 s t = false /\
    exists v, In v (visible_states s t 1) /\ v <> Some old /\ v <> Some new.
Proof. exact truncate_write_unsafe. Qed.
Print Assumptions C14_truncate_write_unsafe.

(** C18: the pause schedule follows local wall-clock time in its zone.
    Only statements here; proofs live in Proofs/Schedule.v. *)
From Coq Require Import ZArith List.
From AGH Require Import Model.Schedule Proofs.Schedule.
Local Open Scope Z_scope.

(** For every zone (any offset function), instant and schedule: in effect
    exactly when the wall-clock time of day lies in that weekday's range. *)
Theorem C18_wall_clock : forall (w : weekly) (off : Z -> Z) (t : Z),
  contains w off t = true <->
  dr_start (day_of w (wall_weekday off t)) <= wall_tod off t
    < dr_end (day_of w (wall_weekday off t)).
Proof. exact contains_wall_clock. Qed.
Print Assumptions C18_wall_clock.

(** A full-day range covers every instant of that local day (whatever its
    length in elapsed time), an empty or inverted one covers none. *)
Theorem C18_full_day : forall w off t,
  day_of w (wall_weekday off t) = full_day -> contains w off t = true.
Proof. exact full_day_contains. Qed.
Print Assumptions C18_full_day.

Theorem C18_empty_day : forall w off t,
  dr_end (day_of w (wall_weekday off t)) <= dr_start (day_of w (wall_weekday off t)) ->
  contains w off t = false.
Proof. exact empty_day_contains. Qed.
Print Assumptions C18_empty_day.

(** The elapsed-since-midnight reading (the code before the fix) is not the
    property: New York, 2024-11-03 23:30, full-day schedule. *)
Theorem C18_elapsed_reading_refuted :
  exists w off midnight t,
    day_of w (wall_weekday off t) = full_day /\
    elapsed_contains w off midnight t = false /\ contains w off t = true.
Proof. exact elapsed_reading_refuted. Qed.
Print Assumptions C18_elapsed_reading_refuted.

(** Accepted ranges are exactly: the zero range, or 0 <= start < end <= 24h,
    start < 24h, both whole minutes. *)
Theorem C18_validate : forall r, validate_range r = None <-> range_ok r.
Proof. exact validate_range_spec. Qed.
Print Assumptions C18_validate.

Theorem C18_roundtrip_json : forall w, weekly_ok w -> unmarshal_json (marshal_json w) = inr w.
Proof. exact json_roundtrip. Qed.
Print Assumptions C18_roundtrip_json.

Theorem C18_roundtrip_yaml : forall w, weekly_ok w -> unmarshal_yaml (marshal_yaml w) = inr w.
Proof. exact yaml_roundtrip. Qed.
Print Assumptions C18_roundtrip_yaml.

Theorem C18_unmarshal_only_valid : forall l w,
  unmarshal_ranges l = inr w -> w = l /\ weekly_ok w.
Proof. exact unmarshal_accepts_only_valid. Qed.
Print Assumptions C18_unmarshal_only_valid.

Theorem C18_unmarshal_rejects_invalid : forall l,
  ~ weekly_ok l -> exists e, unmarshal_ranges l = inl e.
Proof. exact unmarshal_rejects_invalid. Qed.
Print Assumptions C18_unmarshal_rejects_invalid.

(** Non-vacuity: a concrete validated schedule with a working-hours range. *)
Example C18_premises_satisfiable :
  weekly_ok (repeat {| dr_start := 9 * ns_hour; dr_end := 17 * ns_hour + 30 * ns_min |} 7)
  /\ contains (repeat full_day 7) ny_off (1730694600 * ns_sec) = true.
Proof.
  split; [|vm_compute; reflexivity].
  unfold weekly_ok; cbn [repeat].
  repeat (apply Forall_cons; [right; vm_compute; intuition congruence|]). apply Forall_nil.
Qed.

(** C18: the pause schedule follows local wall-clock time in its zone.
    Only statements here; proofs live in Proofs/Schedule.v. *)
From Coq Require Import ZArith List.
From AGH Require Import Base.Run Model.Schedule Proofs.Schedule.
From AGH Require Import Model.ScheduleText Proofs.ScheduleText Proofs.DurationText.
From AGH Require Import Model.BlockedSvcHttp Proofs.BlockedSvcHttp.
From AGH Require Import Model.BlockedSvcClient Proofs.BlockedSvcClient.
From AGH Require Import Model.ScheduleZone Proofs.ScheduleZone.
From AGH Require Import Model.BlockedSvcPersist Proofs.BlockedSvcPersist.
From AGH Require Model.ClientIndex Model.ClientConfig Proofs.ClientSchedConfig.
Local Open Scope Z_scope.

(** For every zone (any offset function), instant and schedule: in effect
    exactly when the wall-clock time of day lies in that weekday's range. *)
Theorem C18_wall_clock : forall (w : weekly) (off : Z -> Z) (t : Z),
  contains w off t = true <->
  dr_start (day_of w (wall_weekday off t)) <= wall_tod off t
    < dr_end (day_of w (wall_weekday off t)).
Proof. exact contains_wall_clock. Qed.
Print Assumptions C18_wall_clock.

(** A full-day range covers every instant of that local day (whatever its
    length in elapsed time), an empty or inverted one covers none. *)
Theorem C18_full_day : forall w off t,
  day_of w (wall_weekday off t) = full_day -> contains w off t = true.
Proof. exact full_day_contains. Qed.
Print Assumptions C18_full_day.

Theorem C18_empty_day : forall w off t,
  dr_end (day_of w (wall_weekday off t)) <= dr_start (day_of w (wall_weekday off t)) ->
  contains w off t = false.
Proof. exact empty_day_contains. Qed.
Print Assumptions C18_empty_day.

(** The elapsed-since-midnight reading (the code before the fix) is not the
    property: New York, 2024-11-03 23:30, full-day schedule. *)
Theorem C18_elapsed_reading_refuted :
  exists w off midnight t,
    day_of w (wall_weekday off t) = full_day /\
    elapsed_contains w off midnight t = false /\ contains w off t = true.
Proof. exact elapsed_reading_refuted. Qed.
Print Assumptions C18_elapsed_reading_refuted.

(** Accepted ranges are exactly: the zero range, or 0 <= start < end <= 24h,
    start < 24h, both whole minutes. *)
Theorem C18_validate : forall r, validate_range r = None <-> range_ok r.
Proof. exact validate_range_spec. Qed.
Print Assumptions C18_validate.

Theorem C18_roundtrip_json : forall w, weekly_ok w -> unmarshal_json (marshal_json w) = inr w.
Proof. exact json_roundtrip. Qed.
Print Assumptions C18_roundtrip_json.

Theorem C18_roundtrip_yaml : forall w, weekly_ok w -> unmarshal_yaml (marshal_yaml w) = inr w.
Proof. exact yaml_roundtrip. Qed.
Print Assumptions C18_roundtrip_yaml.

(** The same round trips on the concrete texts.  YAML: every non-zero day is
    written as two [timeutil.Duration] strings (Go's [time.Duration.String]
    with the trailing "0s" / "0m0s" cut) and read back by Go's
    [time.ParseDuration]; JSON: as two millisecond number texts read back as
    decimals.  The decoders take the texts in document order. *)
Theorem C18_roundtrip_yaml_text : forall w,
  weekly_ok w -> unmarshal_yaml_text (marshal_yaml_text w) = inr w.
Proof. exact yaml_text_roundtrip_structural. Qed.
Print Assumptions C18_roundtrip_yaml_text.

Theorem C18_roundtrip_json_text : forall w,
  weekly_ok w -> unmarshal_json_text (marshal_json_text w) = inr w.
Proof. exact json_text_roundtrip_structural. Qed.
Print Assumptions C18_roundtrip_json_text.

(** Underneath: print-then-parse is the identity for EVERY duration, by
    structural reasoning on the printers (hours / minutes / seconds /
    fraction, trimming of trailing zeros, the "0s" / "0m0s" cut), not by
    enumeration: Go's [time.Duration.String] and [timeutil.Duration.String]
    read back by [time.ParseDuration] on all of int64, -2^63 included; the
    JSON millisecond number text on |d| < 10^26 ns. *)
Theorem C18_duration_text_roundtrip : forall d,
  - two63 <= d < two63 -> parse_duration (duration_string d) = inr d.
Proof. exact duration_string_roundtrip. Qed.
Print Assumptions C18_duration_text_roundtrip.

Theorem C18_timeutil_text_roundtrip : forall d,
  - two63 <= d < two63 -> parse_duration (tu_string d) = inr d.
Proof. exact tu_string_roundtrip. Qed.
Print Assumptions C18_timeutil_text_roundtrip.

Theorem C18_ms_text_roundtrip : forall d,
  Z.abs d < 10 ^ 26 -> parse_ms_text (print_ms_text d) = Some d.
Proof. exact ms_text_roundtrip. Qed.
Print Assumptions C18_ms_text_roundtrip.

(** Hence the text layer of a document is transparent for every week of
    int64 bounds, validated or not: what is written reads back as the same
    bounds, and the decoder's verdict is the validation of those bounds. *)
Theorem C18_yaml_text_transparent : forall w,
  Forall int64_range w ->
  unmarshal_yaml_text (marshal_yaml_text w)
  = match unmarshal_ranges w with
    | inl (i, e) => inl (TRange i e)
    | inr w => inr w
    end.
Proof. exact yaml_text_transparent. Qed.
Print Assumptions C18_yaml_text_transparent.

Theorem C18_json_text_transparent : forall w,
  Forall ms_range w ->
  unmarshal_json_text (marshal_json_text w)
  = match unmarshal_ranges w with
    | inl (i, e) => inl (TRange i e)
    | inr w => inr w
    end.
Proof. exact json_text_transparent. Qed.
Print Assumptions C18_json_text_transparent.

Example C18_text_transparent_example :
  Forall int64_range ex_odd_week /\
  unmarshal_yaml_text (marshal_yaml_text ex_odd_week) = inl (TRange 1 EEndNotMin).
Proof. exact ex_odd_week_transparent. Qed.
Print Assumptions C18_text_transparent_example.

(** Cross-check by the other route: the 1441 whole minutes of a day (the
    whole domain of validated bounds) by a computed [forallb]; the two routes
    agree. *)
Theorem C18_minute_text_yaml : forall k,
  0 <= k <= 1440 -> parse_duration (tu_string (k * ns_min)) = inr (k * ns_min).
Proof. exact yaml_minute_roundtrip. Qed.
Print Assumptions C18_minute_text_yaml.

Theorem C18_minute_text_json : forall k,
  0 <= k <= 1440 -> parse_ms_text (print_ms_text (k * ns_min)) = Some (k * ns_min).
Proof. exact json_minute_roundtrip. Qed.
Print Assumptions C18_minute_text_json.

Theorem C18_minute_routes_agree : forall k,
  0 <= k <= 1440 -> yaml_minute_ok k = true /\ json_minute_ok k = true.
Proof. exact minute_routes_agree. Qed.
Print Assumptions C18_minute_routes_agree.

(** Whatever the texts and their order in the document, an accepted document
    is a validated schedule. *)
Theorem C18_text_unmarshal_only_valid : forall parse n fs w,
  unmarshal_fields parse n fs = inr w -> weekly_ok w.
Proof. exact unmarshal_fields_only_valid. Qed.
Print Assumptions C18_text_unmarshal_only_valid.

(** A bound whose text reads (exact decimal milliseconds, nothing cut before
    the scaling to nanoseconds) as something that is not a whole number of
    minutes (off by a fraction of a millisecond, say) makes the decoder
    reject the document, whatever the other days say.  Likewise for the YAML
    duration texts. *)
Theorem C18_json_fraction_rejected : forall days d s e vs ve,
  nth_error days d = Some (Some (s, e)) ->
  parse_ms_text s = Some vs -> parse_ms_text e = Some ve ->
  vs mod ns_min <> 0 \/ ve mod ns_min <> 0 ->
  exists err, unmarshal_json_text days = inl err.
Proof. exact json_fraction_rejected. Qed.
Print Assumptions C18_json_fraction_rejected.

Theorem C18_yaml_fraction_rejected : forall days d s e vs ve,
  nth_error days d = Some (Some (s, e)) ->
  parse_duration s = inr vs -> parse_duration e = inr ve ->
  vs mod ns_min <> 0 \/ ve mod ns_min <> 0 ->
  exists err, unmarshal_yaml_text days = inl err.
Proof. exact yaml_fraction_rejected. Qed.
Print Assumptions C18_yaml_fraction_rejected.

(** The value is truncated toward zero AFTER the scaling to nanoseconds (the
    resolution of time.Duration): [vs], [ve] above are whole nanoseconds, and
    a fraction below one nanosecond disappears, by design: 51600000.0000001 ms
    reads as 51600000000000 ns and the document is accepted; 51600000.000001
    ms is one nanosecond off a whole minute and is rejected. *)
Example C18_json_sub_nanosecond_examples :
  parse_ms_text txt_51600000_0000001 = Some 51600000000000 /\
  51600000000000 mod ns_min = 0 /\
  unmarshal_json_text (cons None (cons None (cons None (cons None
     (cons (Some (txt_51600000_0000001, txt_58140000)) (cons None (cons None nil)))))))
    = inr (cons zero_range (cons zero_range (cons zero_range (cons zero_range
           (cons {| dr_start := 51600000000000; dr_end := 58140000000000 |}
           (cons zero_range (cons zero_range nil))))))) /\
  unmarshal_json_text (cons None (cons None (cons None (cons None
     (cons (Some (txt_51600000_000001, txt_58140000)) (cons None (cons None nil)))))))
    = inl (TRange 4 EStartNotMin).
Proof. exact json_sub_nanosecond_examples. Qed.
Print Assumptions C18_json_sub_nanosecond_examples.

(** More generally: any day whose two texts read as a range outside the
    documented ones. *)
Theorem C18_text_day_rejected : forall parse days d s e a b,
  nth_error days d = Some (Some (s, e)) ->
  parse s = inr a -> parse e = inr b ->
  ~ range_ok {| dr_start := a; dr_end := b |} ->
  exists err, unmarshal_fields parse (length days) (flatten_days 0 days) = inl err.
Proof. exact text_day_rejected. Qed.
Print Assumptions C18_text_day_rejected.

(** Non-vacuity: "120000.5" is 120000500000 ns;
    {"mon":{"start":60000,"end":120000.5}} and
    {"sun":{"start":0,"end":86400000.5}} are rejected. *)
Example C18_json_fraction_examples :
  parse_ms_text txt_120000_5 = Some 120000500000 /\
  120000500000 mod ns_min <> 0 /\
  unmarshal_json_text [None; Some (txt_60000, txt_120000_5); None; None; None; None; None]
    = inl (TRange 1 EEndNotMin) /\
  unmarshal_json_text [Some (txt_0, txt_86400000_5); None; None; None; None; None; None]
    = inl (TRange 0 EEndGtMax).
Proof. exact json_fraction_examples. Qed.
Print Assumptions C18_json_fraction_examples.

Theorem C18_unmarshal_only_valid : forall l w,
  unmarshal_ranges l = inr w -> w = l /\ weekly_ok w.
Proof. exact unmarshal_accepts_only_valid. Qed.
Print Assumptions C18_unmarshal_only_valid.

Theorem C18_unmarshal_rejects_invalid : forall l,
  ~ weekly_ok l -> exists e, unmarshal_ranges l = inl e.
Proof. exact unmarshal_rejects_invalid. Qed.
Print Assumptions C18_unmarshal_rejects_invalid.

(** Non-vacuity: a concrete validated schedule with a working-hours range. *)
Example C18_premises_satisfiable :
  weekly_ok (repeat {| dr_start := 9 * ns_hour; dr_end := 17 * ns_hour + 30 * ns_min |} 7)
  /\ contains (repeat full_day 7) ny_off (1730694600 * ns_sec) = true.
Proof.
  split; [|vm_compute; reflexivity].
  unfold weekly_ok; cbn [repeat].
  repeat (apply Forall_cons; [right; vm_compute; intuition congruence|]). apply Forall_nil.
Qed.

(** * The HTTP handlers of the blocked services (Model/BlockedSvcHttp.v)

    [known]: the service table (any).  [step known o s]: status and stored
    value after request [o]; [run]: a history. *)

(** The deprecated POST /control/blocked_services/set replaces the ids and
    nothing else: the pause schedule (zone and ranges) is the one from before. *)
Theorem C18_legacy_set_keeps_schedule : forall known ids s,
  bs_sched (snd (step known (OSet ids) s)) = bs_sched s /\
  bs_ids (snd (step known (OSet ids) s)) = ids /\
  fst (step known (OSet ids) s) = st_ok.
Proof. exact legacy_set_keeps_schedule. Qed.
Print Assumptions C18_legacy_set_keeps_schedule.

Theorem C18_non_update_keeps_schedule : forall known o s,
  is_update o = false -> bs_sched (snd (step known o s)) = bs_sched s.
Proof. exact non_update_keeps_schedule. Qed.
Print Assumptions C18_non_update_keeps_schedule.

(** Hence the pause verdict at every instant in every zone is unchanged by a
    legacy set, and is the wall-clock reading of the ranges configured before
    it (with C18_wall_clock). *)
Theorem C18_legacy_set_keeps_verdict : forall known ids s off t,
  contains (sc_days (bs_sched (snd (step known (OSet ids) s)))) off t =
  contains (sc_days (bs_sched s)) off t.
Proof. exact legacy_set_keeps_verdict. Qed.
Print Assumptions C18_legacy_set_keeps_verdict.

Theorem C18_legacy_set_wall_clock : forall known ids s off t,
  contains (sc_days (bs_sched (snd (step known (OSet ids) s)))) off t = true <->
  in_effect (sc_days (bs_sched s)) off t.
Proof. exact legacy_set_wall_clock. Qed.
Print Assumptions C18_legacy_set_wall_clock.

(** Blocking after a legacy set: the new list is applied exactly outside the
    pause configured before it. *)
Theorem C18_apply_after_legacy_set : forall known ids s off t,
  let s' := snd (step known (OSet ids) s) in
  apply known s' (contains (sc_days (bs_sched s')) off t) =
  if contains (sc_days (bs_sched s)) off t then nil else filter (id_known known) ids.
Proof. exact apply_after_legacy_set. Qed.
Print Assumptions C18_apply_after_legacy_set.

(** For every history: the schedule in effect afterwards is the one of the
    last accepted update, whatever requests (legacy sets, rejected updates,
    gets) came after it; with no accepted update it is the configured one. *)
Theorem C18_schedule_is_last_update : forall known s ops1 o ops2 sc,
  accepted_update known o sc -> no_accepted_update known ops2 ->
  bs_sched (run known s (ops1 ++ o :: ops2)) = sc.
Proof. exact schedule_is_last_update. Qed.
Print Assumptions C18_schedule_is_last_update.

Theorem C18_no_update_keeps_schedule : forall known ops s,
  no_accepted_update known ops -> bs_sched (run known s ops) = bs_sched s.
Proof. exact no_update_keeps_schedule. Qed.
Print Assumptions C18_no_update_keeps_schedule.

Theorem C18_update_then_legacy_sets : forall known s ops1 sch ids sc ops2,
  update_accepted known sch ids sc ->
  forallb (fun o => negb (is_update o)) ops2 = true ->
  bs_sched (run known s (ops1 ++ OUpdate sch ids :: ops2)) = sc.
Proof. exact update_then_legacy_sets. Qed.
Print Assumptions C18_update_then_legacy_sets.

(** A rejected update (schedule member that does not decode: number syntax,
    unknown zone, a range outside the documented ones; or an id outside the
    table) is not answered 200 and changes nothing; so does every request
    that is not answered 200. *)
Theorem C18_failed_update_is_noop : forall known sch ids s,
  (forall sc, ~ update_accepted known sch ids sc) ->
  snd (step known (OUpdate sch ids) s) = s /\ fst (step known (OUpdate sch ids) s) <> st_ok.
Proof. exact failed_update_is_noop. Qed.
Print Assumptions C18_failed_update_is_noop.

Theorem C18_failed_request_is_noop : forall known o s,
  fst (step known o s) <> st_ok -> snd (step known o s) = s.
Proof. exact failed_request_is_noop. Qed.
Print Assumptions C18_failed_request_is_noop.

(** Invariant over every history: the stored schedule is seven validated
    ranges. *)
Theorem C18_stored_schedule_valid : forall known ops s,
  sched_ok (bs_sched s) -> sched_ok (bs_sched (run known s ops)).
Proof. exact stored_schedule_valid. Qed.
Print Assumptions C18_stored_schedule_valid.

(** GET after an accepted update reports the ids, the zone and the validated
    ranges that were sent (as the number texts of C18_roundtrip_json_text);
    sending what GET reported stores the same value again. *)
Theorem C18_get_after_update_roundtrip : forall known d ids sc s,
  update_accepted known (Some d) ids sc ->
  let s' := snd (step known (OUpdate (Some d) ids) s) in
  get s' = (ids, sc_zone sc, marshal_json_text (sc_days sc)) /\
  sd_zone d = Some (sc_zone sc) /\
  unmarshal_fields parse_json_dur 7 (sd_fields d) = inr (sc_days sc) /\
  sched_ok sc /\
  forall s2, snd (step known (OUpdate (Some (doc_of_get (get s'))) ids) s2) = s'.
Proof. exact get_after_update_roundtrip. Qed.
Print Assumptions C18_get_after_update_roundtrip.

Theorem C18_get_reads_back : forall s,
  sched_ok (bs_sched s) -> decode_sched (doc_of_get (get s)) = Some (bs_sched s).
Proof. exact get_reads_back. Qed.
Print Assumptions C18_get_reads_back.

(** Seven full days pause at every instant in every zone; zero ranges never. *)
Theorem C18_const_week : forall w b,
  week_const w = Some b -> forall off t, contains w off t = b.
Proof. exact week_const_spec. Qed.
Print Assumptions C18_const_week.

(** Non-vacuity of the premises above: an accepted update, two rejected
    ones (id outside the table; zone that does not load), and a history
    update / legacy set / legacy set with an unknown id / rejected update. *)
Example C18_http_premises_satisfiable :
  update_accepted ex_known (Some ex_doc) (cons (cons 97%N nil) nil) ex_sched /\
  ((forall sc, ~ update_accepted ex_known (Some ex_doc) (cons (cons 99%N nil) nil) sc) /\
   (forall sc, ~ update_accepted ex_known
                   (Some {| sd_zone := None; sd_fields := sd_fields ex_doc |})
                   (cons (cons 97%N nil) nil) sc)).
Proof. exact (conj ex_update_accepted ex_update_rejected). Qed.
Print Assumptions C18_http_premises_satisfiable.

Example C18_http_history_example :
  let s0 := {| bs_ids := nil; bs_sched := empty_weekly |} in
  let ops := cons (OUpdate (Some ex_doc) (cons (cons 97%N nil) nil))
            (cons (OSet (cons (cons 98%N nil) nil))
            (cons (OSet (cons (cons 120%N nil) nil))
            (cons (OUpdate (Some ex_doc) (cons (cons 99%N nil) nil)) nil))) in
  bs_sched (run ex_known s0 ops) = ex_sched /\ bs_ids (run ex_known s0 ops) = cons (cons 120%N nil) nil /\
  sched_ok ex_sched /\
  week_const (repeat full_day 7) = Some true /\ week_const (sc_days empty_weekly) = Some false.
Proof. exact ex_history. Qed.
Print Assumptions C18_http_history_example.

(** * The request side: the schedule is consulted for the global and for the
    client's own blocked services on every request
    (blocked.go ApplyBlockedServices, filter.go ApplyAdditionalFiltering).

    For every tz database [zoff], service table, global list + schedule [g],
    client the lookup found ([None]: none; with or without own blocked
    services, own list + own schedule in its own zone) and the two instants
    at which the code reads the clock: the services blocked for the request
    are the client's own ids outside the client's pause when the client uses
    its own (the global rules are REPLACED), else the global ids outside the
    global pause; only ids of the service table count. *)
Theorem C18_request_services : forall zoff known g c t1 t2,
  request_services zoff known g c t1 t2 =
  match own_list c with
  | Some b => if paused zoff (bs_sched b) t2 then nil else filter (id_known known) (bs_ids b)
  | None => if paused zoff (bs_sched g) t1 then nil else filter (id_known known) (bs_ids g)
  end.
Proof. exact request_services_spec. Qed.
Print Assumptions C18_request_services.

(** "Paused" is the wall-clock reading of C18_wall_clock in the zone the
    governing schedule is stored with. *)
Theorem C18_request_services_wall_clock : forall zoff known g c t1 t2,
  let b := effective g c in
  let t := effective_instant c t1 t2 in
  (in_pause zoff (bs_sched b) t -> request_services zoff known g c t1 t2 = nil) /\
  (~ in_pause zoff (bs_sched b) t ->
   request_services zoff known g c t1 t2 = filter (id_known known) (bs_ids b)).
Proof. exact request_services_wall_clock. Qed.
Print Assumptions C18_request_services_wall_clock.

Theorem C18_request_blocks_iff : forall zoff known g c t name,
  In name (request_services zoff known g c t t) <->
  In name (bs_ids (effective g c)) /\ id_known known name = true /\
  ~ in_pause zoff (bs_sched (effective g c)) t.
Proof. exact request_blocks_iff. Qed.
Print Assumptions C18_request_blocks_iff.

(** Whatever the caller left in [setts.BlockedServices] and
    [setts.ServicesRules]. *)
Theorem C18_apply_additional_filtering : forall zoff known g c t1 t2 se,
  se_rules (apply_additional_filtering zoff known g c t1 t2 se) =
  match (match own_list c with Some b => Some b | None => se_bsvc se end) with
  | Some b => if paused zoff (bs_sched b) t2 then nil else filter (id_known known) (bs_ids b)
  | None => if paused zoff (bs_sched g) t1 then nil else filter (id_known known) (bs_ids g)
  end.
Proof. exact apply_additional_filtering_spec. Qed.
Print Assumptions C18_apply_additional_filtering.

(** A client with own blocked services: the global list, its schedule and
    any history of requests to the global endpoints are irrelevant; in the
    client's pause nothing is blocked. *)
Theorem C18_own_client_ignores_global : forall zoff known g g' c b t1 t1' t2,
  own_list c = Some b ->
  request_services zoff known g c t1 t2 = request_services zoff known g' c t1' t2.
Proof. exact own_client_ignores_global. Qed.
Print Assumptions C18_own_client_ignores_global.

Theorem C18_own_client_paused_blocks_nothing : forall zoff known g c b t1 t2,
  own_list c = Some b -> in_pause zoff (bs_sched b) t2 ->
  request_services zoff known g c t1 t2 = nil.
Proof. exact own_client_paused_blocks_nothing. Qed.
Print Assumptions C18_own_client_paused_blocks_nothing.

Theorem C18_own_client_ignores_history : forall zoff known s ops c b t1 t2,
  own_list c = Some b ->
  request_services zoff known (run known s ops) c t1 t2 = request_services zoff known s c t1 t2.
Proof. exact own_client_ignores_history. Qed.
Print Assumptions C18_own_client_ignores_history.

(** Requests without own blocked services after a history of HTTP requests:
    the pause is the one of the last accepted update; a legacy set changes
    the list, never the pause. *)
Theorem C18_request_after_last_update : forall zoff known s ops1 o ops2 sc c t1 t2,
  accepted_update known o sc -> no_accepted_update known ops2 -> own_list c = None ->
  request_services zoff known (run known s (ops1 ++ o :: ops2)) c t1 t2 =
  if paused zoff sc t1 then nil
  else filter (id_known known) (bs_ids (run known s (ops1 ++ o :: ops2))).
Proof. exact request_after_last_update. Qed.
Print Assumptions C18_request_after_last_update.

Theorem C18_request_after_legacy_set : forall zoff known ids s c t1 t2,
  own_list c = None ->
  request_services zoff known (snd (step known (OSet ids) s)) c t1 t2 =
  if paused zoff (bs_sched s) t1 then nil else filter (id_known known) ids.
Proof. exact request_after_legacy_set. Qed.
Print Assumptions C18_request_after_legacy_set.

(** Non-vacuity: a not-paused global list [a, x, b] (x outside the table)
    and a client pausing 09:00-17:00 at +05:30 with own list [b]; and the
    variant of seeded change C18-C (reset moved inside the not-paused branch)
    keeps global rules for the paused client. *)
Example C18_request_example :
  request_services ex_zoff ex_known ex_global None (4 * ns_hour) (4 * ns_hour)
    = cons (cons 97%N nil) (cons (cons 98%N nil) nil) /\
  request_services ex_zoff ex_known ex_global (Some ex_client) (4 * ns_hour) (4 * ns_hour) = nil /\
  request_services ex_zoff ex_known ex_global (Some ex_client) (12 * ns_hour) (12 * ns_hour)
    = cons (cons 98%N nil) nil /\
  own_list (Some ex_client) = Some (cl_bsvc ex_client) /\
  in_pause ex_zoff (bs_sched (cl_bsvc ex_client)) (4 * ns_hour) /\
  ~ in_pause ex_zoff (bs_sched (cl_bsvc ex_client)) (12 * ns_hour).
Proof. exact ex_requests. Qed.
Print Assumptions C18_request_example.

Theorem C18_reset_inside_branch_refuted :
  exists zoff known g c t,
    in_pause zoff (bs_sched (effective g (Some c))) t /\
    se_rules (apply_additional_filtering_c18c zoff known g (Some c) t t fresh_settings) <> nil /\
    request_services zoff known g (Some c) t t = nil.
Proof. exact reset_inside_branch_refuted. Qed.
Print Assumptions C18_reset_inside_branch_refuted.

(** * The two switches of a persistent client (client/storage.go
    ApplyClientFiltering as it stands: the blocked-services assignment before
    the early return on UseOwnSettings)

    Which list and schedule a request of a persistent client gets depends on
    use_global_blocked_services only: the client's own list under the
    client's own schedule iff the client does not use the global blocked
    services, whatever use_global_settings says. *)
Theorem C18_client_request_services : forall zoff known g c t1 t2,
  request_services zoff known g (Some c) t1 t2 =
  if cl_use_own c
  then (if paused zoff (bs_sched (cl_bsvc c)) t2 then nil
        else filter (id_known known) (bs_ids (cl_bsvc c)))
  else (if paused zoff (bs_sched g) t1 then nil else filter (id_known known) (bs_ids g)).
Proof. exact client_request_services. Qed.
Print Assumptions C18_client_request_services.

Theorem C18_own_services_independent_of_own_settings : forall zoff known g c c' t1 t2,
  cl_use_own c = cl_use_own c' -> cl_bsvc c = cl_bsvc c' ->
  request_services zoff known g (Some c) t1 t2 = request_services zoff known g (Some c') t1 t2.
Proof. exact own_services_independent_of_own_settings. Qed.
Print Assumptions C18_own_services_independent_of_own_settings.

Theorem C18_flip_own_settings_keeps_services : forall zoff known g c b f t1 t2,
  request_services zoff known g (Some (with_own_settings b f c)) t1 t2 =
  request_services zoff known g (Some c) t1 t2.
Proof. exact flip_own_settings_keeps_services. Qed.
Print Assumptions C18_flip_own_settings_keeps_services.

(** The other way round: the general settings of the request (represented by
    FilteringEnabled) follow use_global_settings only. *)
Theorem C18_own_settings_independent_of_own_services : forall zoff known gf g c t1 t2,
  request_filtering zoff known gf g c t1 t2 =
  match c with
  | Some c => if cl_use_own_settings c then cl_filtering c else gf
  | None => gf
  end.
Proof. exact request_filtering_spec. Qed.
Print Assumptions C18_own_settings_independent_of_own_services.

(** The order of seeded change C18-I (early return first) violates the
    clause: own services, global settings, own schedule in pause, a non-empty
    global list not in pause: the global list is applied.  It differs from the
    code only on clients with own blocked services and global settings. *)
Theorem C18_early_return_order_refuted :
  exists zoff known g c t,
    cl_use_own c = true /\ cl_use_own_settings c = false /\
    in_pause zoff (bs_sched (cl_bsvc c)) t /\
    ~ in_pause zoff (bs_sched g) t /\ filter (id_known known) (bs_ids g) <> nil /\
    se_rules (apply_additional_filtering_c18i zoff known g (Some c) t t fresh_settings)
      = filter (id_known known) (bs_ids g) /\
    request_services zoff known g (Some c) t t = nil.
Proof. exact early_return_order_refuted. Qed.
Print Assumptions C18_early_return_order_refuted.

Theorem C18_early_return_order_differs_only_there : forall zoff known g c t1 t2 se,
  (cl_use_own c = false \/ cl_use_own_settings c = true) ->
  se_rules (apply_additional_filtering_c18i zoff known g (Some c) t1 t2 se) =
  se_rules (apply_additional_filtering zoff known g (Some c) t1 t2 se).
Proof. exact early_return_order_differs_only_there. Qed.
Print Assumptions C18_early_return_order_differs_only_there.

Example C18_four_combinations_example :
  let req b own t := request_services ex_zoff ex_known ex_global
                       (Some {| cl_use_own_settings := b; cl_filtering := false;
                                cl_use_own := own; cl_bsvc := cl_bsvc ex_client |}) t t in
  req false true (4 * ns_hour) = nil /\ req true true (4 * ns_hour) = nil /\
  req false true (12 * ns_hour) = cons (cons 98%N nil) nil /\
  req true true (12 * ns_hour) = cons (cons 98%N nil) nil /\
  req false false (4 * ns_hour) = cons (cons 97%N nil) (cons (cons 98%N nil) nil) /\
  req true false (4 * ns_hour) = cons (cons 97%N nil) (cons (cons 98%N nil) nil) /\
  request_filtering ex_zoff ex_known true ex_global
    (Some {| cl_use_own_settings := true; cl_filtering := false; cl_use_own := false;
             cl_bsvc := cl_bsvc ex_client |}) 0 0 = false /\
  request_filtering ex_zoff ex_known true ex_global
    (Some {| cl_use_own_settings := false; cl_filtering := false; cl_use_own := true;
             cl_bsvc := cl_bsvc ex_client |}) 0 0 = true.
Proof. exact ex_four_combinations. Qed.
Print Assumptions C18_four_combinations_example.

(** * The whole document, "time_zone" member included (Model/ScheduleZone.v)

    [known]: the tz database (ANY set of names).  [load_location known] is
    time.LoadLocation: "" and "UTC" are UTC, "Local" is Local, a name with
    ".." or a leading slash is refused, every other ("plain") name is loaded
    iff the database has it, and the location reports that very name.  The
    zone name is an opaque string for the text layer. *)
Theorem C18_load_location_plain : forall known name,
  plain_name name = true ->
  load_location known name = if known name then Some name else None.
Proof. exact load_location_plain. Qed.
Print Assumptions C18_load_location_plain.

(** What a marshaller writes (the name the location reports) loads again, as
    itself. *)
Theorem C18_loaded_name_reloads : forall known name z,
  load_location known name = Some z -> load_location known z = Some z.
Proof. exact loaded_name_reloads. Qed.
Print Assumptions C18_loaded_name_reloads.

(** The decoder accepts a document iff its bounds validate AND the tz
    database knows the name; nothing else about the name matters. *)
Theorem C18_decode_accepts_iff : forall known parse d,
  (exists sc, decode_zdoc known parse d = inr sc) <->
  (exists w, unmarshal_fields parse 7 (zd_fields d) = inr w) /\
  (exists z, load_location known (zd_zone d) = Some z).
Proof. exact decode_accepts_iff. Qed.
Print Assumptions C18_decode_accepts_iff.

Theorem C18_decode_accepts_iff_zone_known : forall known parse d sc,
  plain_name (zd_zone d) = true ->
  (decode_zdoc known parse d = inr sc <->
   known (zd_zone d) = true /\ sc_zone sc = zd_zone d /\
   unmarshal_fields parse 7 (zd_fields d) = inr (sc_days sc)).
Proof. exact decode_accepts_iff_zone_known. Qed.
Print Assumptions C18_decode_accepts_iff_zone_known.

Theorem C18_decode_unknown_zone_rejected : forall known parse d,
  plain_name (zd_zone d) = true -> known (zd_zone d) = false ->
  forall sc, decode_zdoc known parse d <> inr sc.
Proof. exact decode_unknown_zone_rejected. Qed.
Print Assumptions C18_decode_unknown_zone_rejected.

(** The text layer is transparent for the zone too: for every week of int64
    bounds, validated or not, in a zone of any name, the verdict on the
    written document is the verdict of time.LoadLocation on the stored name
    and of the validation on the stored bounds. *)
Theorem C18_yaml_zdoc_transparent : forall known sc,
  length (sc_days sc) = 7%nat -> Forall int64_range (sc_days sc) ->
  decode_zdoc known parse_yaml_dur (marshal_zdoc tu_string sc) =
  match load_location known (sc_zone sc) with
  | None => inl ZZone
  | Some z =>
      match unmarshal_ranges (sc_days sc) with
      | inl (i, e) => inl (ZRange i e)
      | inr w => inr {| sc_zone := z; sc_days := w |}
      end
  end.
Proof. exact yaml_zdoc_transparent. Qed.
Print Assumptions C18_yaml_zdoc_transparent.

Theorem C18_json_zdoc_transparent : forall known sc,
  length (sc_days sc) = 7%nat -> Forall ms_range (sc_days sc) ->
  decode_zdoc known parse_json_dur (marshal_zdoc print_ms_text sc) =
  match load_location known (sc_zone sc) with
  | None => inl ZZone
  | Some z =>
      match unmarshal_ranges (sc_days sc) with
      | inl (i, e) => inl (ZRange i e)
      | inr w => inr {| sc_zone := z; sc_days := w |}
      end
  end.
Proof. exact json_zdoc_transparent. Qed.
Print Assumptions C18_json_zdoc_transparent.

(** The round-trip clause over EVERY zone the database offers: a validated
    schedule located in a zone of any plain name the database has (letters,
    digits, [/], [_], [-], [+], three levels, links: no condition on the
    characters) reads back unchanged, zone name and bounds, from YAML and from
    JSON; so does a schedule in UTC or Local. *)
Theorem C18_roundtrip_yaml_zone : forall known sc,
  sched_ok sc -> zone_reloads known (sc_zone sc) ->
  decode_zdoc known parse_yaml_dur (marshal_zdoc tu_string sc) = inr sc.
Proof. exact yaml_zdoc_roundtrip. Qed.
Print Assumptions C18_roundtrip_yaml_zone.

Theorem C18_roundtrip_json_zone : forall known sc,
  sched_ok sc -> zone_reloads known (sc_zone sc) ->
  decode_zdoc known parse_json_dur (marshal_zdoc print_ms_text sc) = inr sc.
Proof. exact json_zdoc_roundtrip. Qed.
Print Assumptions C18_roundtrip_json_zone.

Theorem C18_roundtrip_every_known_zone : forall known z w,
  plain_name z = true -> known z = true -> length w = 7%nat -> weekly_ok w ->
  let sc := {| sc_zone := z; sc_days := w |} in
  decode_zdoc known parse_yaml_dur (marshal_zdoc tu_string sc) = inr sc /\
  decode_zdoc known parse_json_dur (marshal_zdoc print_ms_text sc) = inr sc.
Proof. exact zdoc_roundtrip_every_known_zone. Qed.
Print Assumptions C18_roundtrip_every_known_zone.

(** Configuration saved and loaded again, a GET answer sent back: whatever a
    decoder accepted, from either form, is written and read back as the same
    schedule in both forms. *)
Theorem C18_decoded_reads_back : forall known parse d sc,
  decode_zdoc known parse d = inr sc ->
  decode_zdoc known parse_yaml_dur (marshal_zdoc tu_string sc) = inr sc /\
  decode_zdoc known parse_json_dur (marshal_zdoc print_ms_text sc) = inr sc.
Proof. exact decoded_reads_back. Qed.
Print Assumptions C18_decoded_reads_back.

(** The HTTP path: an update with a validated schedule in any zone the
    database offers is accepted and GET reports that zone and those bounds. *)
Theorem C18_update_every_known_zone : forall tz tbl ids sc s,
  sched_ok sc -> zone_reloads tz (sc_zone sc) -> ids_known tbl ids = true ->
  let o := OUpdate (Some (sched_doc_of tz (marshal_zdoc print_ms_text sc))) ids in
  step tbl o s = (st_ok, {| bs_ids := ids; bs_sched := sc |}) /\
  get (snd (step tbl o s)) = (ids, sc_zone sc, marshal_json_text (sc_days sc)).
Proof. exact update_every_known_zone. Qed.
Print Assumptions C18_update_every_known_zone.

(** A decoder with an additional syntactic test [f] of the name in front of
    the lookup satisfies the round-trip clause only if [f] lets every name of
    the database through; the test of seeded change C18-J (letters, digits,
    [/], [_], [-]) does not: Etc/GMT+5 is in the database, its schedule reads
    back from both forms, and the filtered decoder refuses both documents. *)
Theorem C18_name_filter_must_accept_known : forall f known,
  (forall sc, sched_ok sc -> zone_reloads known (sc_zone sc) ->
              decode_zdoc_filtered f known parse_yaml_dur (marshal_zdoc tu_string sc) = inr sc) ->
  forall z, plain_name z = true -> known z = true -> f z = true.
Proof. exact name_filter_must_accept_known. Qed.
Print Assumptions C18_name_filter_must_accept_known.

Theorem C18_name_filter_refuted :
  exists known sc,
    sched_ok sc /\ plain_name (sc_zone sc) = true /\ known (sc_zone sc) = true /\
    decode_zdoc known parse_yaml_dur (marshal_zdoc tu_string sc) = inr sc /\
    decode_zdoc known parse_json_dur (marshal_zdoc print_ms_text sc) = inr sc /\
    decode_zdoc_filtered j_name_ok known parse_yaml_dur (marshal_zdoc tu_string sc) = inl ZZone /\
    decode_zdoc_filtered j_name_ok known parse_json_dur (marshal_zdoc print_ms_text sc) = inl ZZone.
Proof. exact name_filter_refuted. Qed.
Print Assumptions C18_name_filter_refuted.

(** Non-vacuity: names with [+], [-], digits, three levels are plain; "",
    "UTC", "Local" are not; unknown, dot-dot and rooted names do not load. *)
Example C18_zone_names_example :
  plain_name zone_etc_gmt_plus_5 = true /\ plain_name zone_buenos_aires = true /\
  plain_name zone_etc_gmt_minus_14 = true /\ plain_name zone_gmt_plus_0 = true /\
  plain_name zone_utc = false /\ plain_name zone_local = false /\ plain_name nil = false /\
  j_name_ok zone_etc_gmt_plus_5 = false /\ j_name_ok zone_gmt_plus_0 = false /\
  j_name_ok zone_buenos_aires = true /\ j_name_ok zone_etc_gmt_minus_14 = true /\
  load_location (fun _ => false) zone_etc_gmt_plus_5 = None /\
  load_location (fun _ => true) (cons 46%N (cons 46%N (cons 47%N (cons 85%N (cons 84%N (cons 67%N nil)))))) = None /\
  load_location (fun _ => true) (cons 47%N (cons 85%N (cons 84%N (cons 67%N nil)))) = None.
Proof. exact ex_zone_names. Qed.
Print Assumptions C18_zone_names_example.

(** * Round 6: accepted request -> ConfigModified -> file -> restart

    [ylife] = the stored value + the blocked_services section of the
    configuration file; [ystep] = a handler as the code orders it now (store
    under the lock, then the callback, which reads the stored value through
    WriteDiskConfig and writes it as YAML); [yrestart] = the file decoded and
    handed to filtering.New; [yrun] = a history of requests and restarts
    ([None]: some restart was refused).  [good tz l] = the file is the YAML
    of the stored value, which has seven validated ranges in a zone that
    loads as itself in [tz]; [lop_zone_ok] = the LoadLocation oracle of the
    update documents answers as [tz] does. *)

(** Invariant: after every history the file holds exactly the stored value
    and reads back as it. *)
Theorem C18_persisted_is_memory : forall tz known ops l l',
  good tz l -> Forall (lop_zone_ok tz) ops -> yrun tz known l ops = Some l' ->
  lf_disk l' = save_yaml (lf_mem l') /\ load_yaml tz (lf_disk l') = Some (lf_mem l').
Proof. exact yrun_persisted_loads. Qed.
Print Assumptions C18_persisted_is_memory.

Theorem C18_accepted_request_is_persisted : forall tz known o l,
  good tz l -> op_zone_ok tz o -> good tz (snd (ystep known o l)).
Proof. exact ystep_good. Qed.
Print Assumptions C18_accepted_request_is_persisted.

(** A request that is not answered 200 changes neither. *)
Theorem C18_rejected_request_changes_neither : forall known o l,
  fst (ystep known o l) <> st_ok -> snd (ystep known o l) = l.
Proof. exact ystep_rejected_noop. Qed.
Print Assumptions C18_rejected_request_changes_neither.

(** A restart is the identity when the stored ids are in the service table
    and is refused otherwise (ids outside the table come only from the
    deprecated set endpoint). *)
Theorem C18_restart_is_identity_or_refused : forall tz known l,
  good tz l ->
  yrestart tz known l = if ids_known known (bs_ids (lf_mem l)) then Some l else None.
Proof. exact restart_good. Qed.
Print Assumptions C18_restart_is_identity_or_refused.

Theorem C18_restart_refused_iff_unknown_id : forall tz known l,
  good tz l -> (yrestart tz known l = None <-> ids_known known (bs_ids (lf_mem l)) = false).
Proof. exact restart_refused_iff. Qed.
Print Assumptions C18_restart_refused_iff_unknown_id.

(** GET, the verdict at every instant in every zone, and the services
    blocked are unchanged by a restart. *)
Theorem C18_restart_keeps_verdict : forall tz known l l',
  good tz l -> yrestart tz known l = Some l' ->
  get (lf_mem l') = get (lf_mem l) /\
  (forall off t, contains (sc_days (bs_sched (lf_mem l'))) off t =
                 contains (sc_days (bs_sched (lf_mem l))) off t) /\
  (forall paused, apply known (lf_mem l') paused = apply known (lf_mem l) paused).
Proof. exact restart_keeps_verdict. Qed.
Print Assumptions C18_restart_keeps_verdict.

(** Restarts are invisible in the stored value. *)
Theorem C18_restart_transparent : forall tz known ops l l',
  good tz l -> Forall (lop_zone_ok tz) ops -> yrun tz known l ops = Some l' ->
  lf_mem l' = run known (lf_mem l) (reqs_of ops).
Proof. exact restart_transparent. Qed.
Print Assumptions C18_restart_transparent.

(** After any history of updates, legacy sets, gets and restarts the
    schedule (zone and bounds) is the one of the last accepted update, the
    file reads back as the stored value, the pause is in effect exactly per
    the wall clock of the ranges that update asked for, and when nothing
    else was accepted since, the id list is that update's. *)
Theorem C18_restart_keeps_last_update : forall tz known l ops1 sch ids sc ops2 l',
  good tz l -> Forall (lop_zone_ok tz) (ops1 ++ LReq (OUpdate sch ids) :: ops2) ->
  update_accepted known sch ids sc -> no_accepted_update known (reqs_of ops2) ->
  yrun tz known l (ops1 ++ LReq (OUpdate sch ids) :: ops2) = Some l' ->
  bs_sched (lf_mem l') = sc /\
  load_yaml tz (lf_disk l') = Some (lf_mem l') /\
  (forall off t, contains (sc_days (bs_sched (lf_mem l'))) off t = true <-> in_effect (sc_days sc) off t) /\
  (quiet known (reqs_of ops2) -> lf_mem l' = {| bs_ids := ids; bs_sched := sc |}).
Proof. exact restart_keeps_last_update. Qed.
Print Assumptions C18_restart_keeps_last_update.

(** The oracle premise holds for every update document whose zone verdict
    comes from the database. *)
Theorem C18_update_zone_oracle_ok : forall tz d ids,
  op_zone_ok tz (OUpdate (Some (sched_doc_of tz d)) ids).
Proof. exact sched_doc_of_zone_ok. Qed.
Print Assumptions C18_update_zone_oracle_ok.

(** The callback in front of the store (seeded change C18-L): invisible as
    long as there is no restart ... *)
Theorem C18_callback_order_invisible_without_restart : forall ord tz known ops l,
  (forall o, In o ops -> o <> LRestart) ->
  option_map lf_mem (yrun_ord tz ord known l ops) = Some (run known (lf_mem l) (reqs_of ops)).
Proof. exact order_invisible_without_restart. Qed.
Print Assumptions C18_callback_order_invisible_without_restart.

(** ... and refuted by the seed's sequence: update (no pause), update (whole
    week paused, Asia/Kolkata), restart. *)
Theorem C18_callback_before_store_refuted :
  let tz := fun _ : bytes => true in
  let known := cons l_svc nil in
  let kolkata := fun _ : Z => 19800 in
  (exists l', yrun tz known (ylife_init l_init) l_history = Some l' /\
              bs_sched (lf_mem l') = l_sched_full /\
              contains (sc_days (bs_sched (lf_mem l'))) kolkata 0 = true /\
              apply known (lf_mem l') (contains (sc_days (bs_sched (lf_mem l'))) kolkata 0) = nil) /\
  (exists l', yrun_ord tz callback_first_order known (ylife_init l_init) l_history = Some l' /\
              bs_sched (lf_mem l') <> l_sched_full /\
              in_effect (sc_days l_sched_full) kolkata 0 /\
              contains (sc_days (bs_sched (lf_mem l'))) kolkata 0 = false /\
              apply known (lf_mem l') (contains (sc_days (bs_sched (lf_mem l'))) kolkata 0) = cons l_svc nil).
Proof. exact callback_first_refuted. Qed.
Print Assumptions C18_callback_before_store_refuted.

(** Non-vacuity: the premises of the theorems above hold for the seed's
    history and for a state with a Monday range and a known id. *)
Example C18_restart_premises_satisfiable :
  good (fun _ => true) (ylife_init l_init) /\ Forall (lop_zone_ok (fun _ => true)) l_history /\
  update_accepted (cons l_svc nil) (Some l_doc_full) (cons l_svc nil) l_sched_full /\
  no_accepted_update (cons l_svc nil) (reqs_of (cons LRestart nil)).
Proof. exact l_premises. Qed.
Print Assumptions C18_restart_premises_satisfiable.

Example C18_restart_example :
  let tz := fun _ : bytes => true in
  let m := {| bs_ids := cons (cons 97%N nil) nil; bs_sched := ex_sched |} in
  good tz (ylife_init m) /\
  yrestart tz ex_known (ylife_init m) = Some (ylife_init m) /\
  yrun tz ex_known (ylife_init m) (cons (LReq (OSet (cons (cons 120%N nil) nil))) (cons LRestart nil)) = None /\
  (exists l', yrun tz ex_known (ylife_init m)
                (cons (LReq (OUpdate (Some ex_doc) (cons (cons 98%N nil) nil)))
                   (cons LRestart (cons (LReq (OSet (cons (cons 97%N nil) nil)))
                      (cons LRestart (cons (LReq OGet) nil)))))
              = Some l' /\ lf_mem l' = {| bs_ids := cons (cons 97%N nil) nil; bs_sched := ex_sched |}).
Proof. exact ex_persist. Qed.
Print Assumptions C18_restart_example.

(** * Round 8: the per-client schedule through the clients section of the
    configuration file (C04's model of toPersistent / forConfig, not
    re-modelled) *)

(** For every clientObject (every combination of use_global_blocked_services,
    own list, own schedule, zone, and every other key): the client read back
    from what forConfig wrote carries the same own list and schedule (zone
    and bounds) and the same switch. *)
Theorem C18_client_schedule_survives_config_roundtrip : forall known g g' o c x,
  Model.ClientConfig.to_persistent known g o = Model.ClientConfig.COk c x ->
  Model.ClientIndex.c_uid c <> 0%N ->
  exists c', Model.ClientConfig.to_persistent known g' (Model.ClientConfig.for_config c x)
               = Model.ClientConfig.COk c' x /\
             Model.ClientIndex.c_blocked c' = Model.ClientIndex.c_blocked c /\
             Model.ClientIndex.c_own_blocked c' = Model.ClientIndex.c_own_blocked c /\
             Model.ClientIndex.c_blocked c' =
               Some (Model.ClientConfig.stored_blocked (Model.ClientConfig.o_blocked o)).
Proof. exact Proofs.ClientSchedConfig.client_schedule_survives. Qed.
Print Assumptions C18_client_schedule_survives_config_roundtrip.

(** forConfig copying the section only when the client uses its own services
    (seeded change C18-O): a client with list [4chan] and a whole-week pause
    in zone 3 that uses the global services is read back with the empty week
    in zone Local and no ids. *)
Theorem C18_client_config_own_only_refuted :
  exists c x c',
    Model.ClientConfig.to_persistent (cons Proofs.ClientSchedConfig.svc_4chan nil) 0%N
      (Proofs.ClientSchedConfig.ex_obj_global true) = Model.ClientConfig.COk c x /\
    Model.ClientIndex.c_uid c <> 0%N /\
    Model.ClientIndex.c_blocked c =
      Some {| Model.ClientIndex.b_ids := cons Proofs.ClientSchedConfig.svc_4chan nil;
              Model.ClientIndex.b_sched := Proofs.ClientSchedConfig.full_week;
              Model.ClientIndex.b_zone := 3%N |} /\
    Model.ClientConfig.to_persistent (cons Proofs.ClientSchedConfig.svc_4chan nil) 0%N
      (Proofs.ClientSchedConfig.for_config_own_only c x) = Model.ClientConfig.COk c' x /\
    Model.ClientIndex.c_blocked c' = Some Model.ClientConfig.default_blocked /\
    (forall c2 x2,
       Model.ClientConfig.to_persistent (cons Proofs.ClientSchedConfig.svc_4chan nil) 0%N
         (Proofs.ClientSchedConfig.ex_obj_global false) = Model.ClientConfig.COk c2 x2 ->
       Proofs.ClientSchedConfig.for_config_own_only c2 x2 = Model.ClientConfig.for_config c2 x2).
Proof. exact Proofs.ClientSchedConfig.own_only_refuted. Qed.
Print Assumptions C18_client_config_own_only_refuted.

Example C18_client_config_premises_satisfiable :
  forall b, exists c x,
    Model.ClientConfig.to_persistent (cons Proofs.ClientSchedConfig.svc_4chan nil) 0%N
      (Proofs.ClientSchedConfig.ex_obj_global b) = Model.ClientConfig.COk c x /\
    Model.ClientIndex.c_uid c <> 0%N /\
    Model.ClientIndex.c_own_blocked c = negb b /\
    Model.ClientIndex.c_blocked c =
      Some {| Model.ClientIndex.b_ids := cons Proofs.ClientSchedConfig.svc_4chan nil;
              Model.ClientIndex.b_sched := Proofs.ClientSchedConfig.full_week;
              Model.ClientIndex.b_zone := 3%N |}.
Proof. exact Proofs.ClientSchedConfig.ex_client_sched. Qed.
Print Assumptions C18_client_config_premises_satisfiable.

(** C18: the pause schedule follows local wall-clock time in its zone.
    Only statements here; proofs live in Proofs/Schedule.v. *)
From Coq Require Import ZArith List.
From AGH Require Import Base.Run Model.Schedule Proofs.Schedule.
From AGH Require Import Model.ScheduleText Proofs.ScheduleText.
Local Open Scope Z_scope.

(** For every zone (any offset function), instant and schedule: in effect
    exactly when the wall-clock time of day lies in that weekday's range. *)
Theorem C18_wall_clock : forall (w : weekly) (off : Z -> Z) (t : Z),
  contains w off t = true <->
  dr_start (day_of w (wall_weekday off t)) <= wall_tod off t
    < dr_end (day_of w (wall_weekday off t)).
Proof. exact contains_wall_clock. Qed.
Print Assumptions C18_wall_clock.

(** A full-day range covers every instant of that local day (whatever its
    length in elapsed time), an empty or inverted one covers none. *)
Theorem C18_full_day : forall w off t,
  day_of w (wall_weekday off t) = full_day -> contains w off t = true.
Proof. exact full_day_contains. Qed.
Print Assumptions C18_full_day.

Theorem C18_empty_day : forall w off t,
  dr_end (day_of w (wall_weekday off t)) <= dr_start (day_of w (wall_weekday off t)) ->
  contains w off t = false.
Proof. exact empty_day_contains. Qed.
Print Assumptions C18_empty_day.

(** The elapsed-since-midnight reading (the code before the fix) is not the
    property: New York, 2024-11-03 23:30, full-day schedule. *)
Theorem C18_elapsed_reading_refuted :
  exists w off midnight t,
    day_of w (wall_weekday off t) = full_day /\
    elapsed_contains w off midnight t = false /\ contains w off t = true.
Proof. exact elapsed_reading_refuted. Qed.
Print Assumptions C18_elapsed_reading_refuted.

(** Accepted ranges are exactly: the zero range, or 0 <= start < end <= 24h,
    start < 24h, both whole minutes. *)
Theorem C18_validate : forall r, validate_range r = None <-> range_ok r.
Proof. exact validate_range_spec. Qed.
Print Assumptions C18_validate.

Theorem C18_roundtrip_json : forall w, weekly_ok w -> unmarshal_json (marshal_json w) = inr w.
Proof. exact json_roundtrip. Qed.
Print Assumptions C18_roundtrip_json.

Theorem C18_roundtrip_yaml : forall w, weekly_ok w -> unmarshal_yaml (marshal_yaml w) = inr w.
Proof. exact yaml_roundtrip. Qed.
Print Assumptions C18_roundtrip_yaml.

(** The same round trips on the concrete texts.  YAML: every non-zero day is
    written as two [timeutil.Duration] strings (Go's [time.Duration.String]
    with the trailing "0s" / "0m0s" cut) and read back by Go's
    [time.ParseDuration]; JSON: as two millisecond number texts read back as
    decimals.  The decoders take the texts in document order. *)
Theorem C18_roundtrip_yaml_text : forall w,
  weekly_ok w -> unmarshal_yaml_text (marshal_yaml_text w) = inr w.
Proof. exact yaml_text_roundtrip. Qed.
Print Assumptions C18_roundtrip_yaml_text.

Theorem C18_roundtrip_json_text : forall w,
  weekly_ok w -> unmarshal_json_text (marshal_json_text w) = inr w.
Proof. exact json_text_roundtrip. Qed.
Print Assumptions C18_roundtrip_json_text.

(** The finite domain underneath: the 1441 whole minutes of a day. *)
Theorem C18_minute_text_yaml : forall k,
  0 <= k <= 1440 -> parse_duration (tu_string (k * ns_min)) = inr (k * ns_min).
Proof. exact yaml_minute_roundtrip. Qed.
Print Assumptions C18_minute_text_yaml.

Theorem C18_minute_text_json : forall k,
  0 <= k <= 1440 -> parse_ms_text (print_ms_text (k * ns_min)) = Some (k * ns_min).
Proof. exact json_minute_roundtrip. Qed.
Print Assumptions C18_minute_text_json.

(** Whatever the texts and their order in the document, an accepted document
    is a validated schedule. *)
Theorem C18_text_unmarshal_only_valid : forall parse n fs w,
  unmarshal_fields parse n fs = inr w -> weekly_ok w.
Proof. exact unmarshal_fields_only_valid. Qed.
Print Assumptions C18_text_unmarshal_only_valid.

Theorem C18_unmarshal_only_valid : forall l w,
  unmarshal_ranges l = inr w -> w = l /\ weekly_ok w.
Proof. exact unmarshal_accepts_only_valid. Qed.
Print Assumptions C18_unmarshal_only_valid.

Theorem C18_unmarshal_rejects_invalid : forall l,
  ~ weekly_ok l -> exists e, unmarshal_ranges l = inl e.
Proof. exact unmarshal_rejects_invalid. Qed.
Print Assumptions C18_unmarshal_rejects_invalid.

(** Non-vacuity: a concrete validated schedule with a working-hours range. *)
Example C18_premises_satisfiable :
  weekly_ok (repeat {| dr_start := 9 * ns_hour; dr_end := 17 * ns_hour + 30 * ns_min |} 7)
  /\ contains (repeat full_day 7) ny_off (1730694600 * ns_sec) = true.
Proof.
  split; [|vm_compute; reflexivity].
  unfold weekly_ok; cbn [repeat].
  repeat (apply Forall_cons; [right; vm_compute; intuition congruence|]). apply Forall_nil.
Qed.

(** C01: a query blocked by rules is answered locally and never forwarded.
    Only statements here; proofs live in Proofs/Pipeline.v (layer A: AdGuard
    Home's pipeline, for arbitrary rule engines, verdict oracles, rewrite
    sort and upstreams) and Proofs/RuleEngine.v (layer B: the engine model).

    Round 2: every theorem quantifies over configurations in which the legacy
    rewrites, $dnsrewrite / $ctag rules, the hosts-file container, safe
    search, a block page given as a name, DDR and the DHCP stages are part of
    [cfg]; nothing is assumed absent. *)
From Coq Require Import List NArith Bool.
From AGH Require Import Base.Run Base.NetAddr Base.RuleEngine Model.Pipeline Proofs.Pipeline Proofs.RuleEngine.
From AGH Require Import Model.PipelineNames Gen.PipelineTables Proofs.PipelineTables.
From AGH Require Import Model.PipelineGuards Proofs.PipelineGuards.
From AGH Require Model.Rewrites.
Import ListNotations.
Local Open Scope N_scope.

(** For all configurations (five modes, any custom addresses and TTL, any
    rewrites / hosts file / safe search / DDR / DHCP settings), all engines,
    oracles, upstreams and requests: protection on; no stage in front of
    filtering answers the request; none of the administrator's own rewrites
    (legacy rewrite, hosts file, $dnsrewrite rule) applies to the name; and
    the rule lists block the name (no allow-list rule matches, the block
    engine's winning rule is not an exception) or an active blocked service
    does while the lists are silent  ==>  nothing is sent upstream, the
    answer is the synthetic answer of the mode (the table [synthetic]) and
    carries the client's question. *)
Theorem C01_blocked_is_local :
  forall allow_eng block_eng sb par ss srt c up q,
  blocked_by_spec allow_eng block_eng srt c q ->
  let o := process allow_eng block_eng sb par ss srt c up q in
  o_calls o = [] /\
  r_filtered (o_result o) = true /\ rule_reason (r_reason (o_result o)) /\
  o_resp o = Some (synthetic c (q_name q) (q_qtype q) (ips_from_rules (o_result o))) /\
  o_qname o = q_name q.
Proof. exact blocked_is_local. Qed.
Print Assumptions C01_blocked_is_local.

(** "The answer contains no upstream data": non-interference in the upstream. *)
Theorem C01_no_upstream_data :
  forall allow_eng block_eng sb par ss srt c up1 up2 q,
  blocked_by_spec allow_eng block_eng srt c q ->
  process allow_eng block_eng sb par ss srt c up1 q = process allow_eng block_eng sb par ss srt c up2 q.
Proof. exact no_upstream_data. Qed.
Print Assumptions C01_no_upstream_data.

(** The pipeline is the explicit function [process_spec] (pre-filter stages,
    CheckHost verdict, what is done with each kind of verdict): the nine
    stages collapse to it for every input. *)
Theorem C01_pipeline_unfolded :
  forall allow_eng block_eng sb par ss srt c up q,
  process allow_eng block_eng sb par ss srt c up q = process_spec allow_eng block_eng sb par ss srt c up q.
Proof. exact process_unfold. Qed.
Print Assumptions C01_pipeline_unfolded.

(** Every question ever put to the upstream, with all features on: the
    client's own question when the verdict neither filters nor rewrites it
    and it is not a DHCP host name; the target of a rewrite (legacy,
    $dnsrewrite CNAME, safe search); the name of the block page.  Nothing
    else. *)
Theorem C01_upstream_calls_characterised :
  forall allow_eng block_eng sb par ss srt c up q,
  o_calls (process allow_eng block_eng sb par ss srt c up q) = spec_calls allow_eng block_eng sb par ss srt c q.
Proof. exact upstream_calls_spec. Qed.
Print Assumptions C01_upstream_calls_characterised.

(** Whatever else is configured: a verdict "filtered" by a rule list or a
    blocked service means no upstream call at all. *)
Theorem C01_filtered_never_forwarded :
  forall allow_eng block_eng sb par ss srt c up q res,
  verdict allow_eng block_eng sb par ss srt c q = Some res -> r_filtered res = true ->
  rule_reason (r_reason res) ->
  o_calls (process allow_eng block_eng sb par ss srt c up q) = [].
Proof. exact filtered_never_forwarded. Qed.
Print Assumptions C01_filtered_never_forwarded.

(** The stages in front of filtering (AAAA off, canary, health check, DDR,
    DHCP host names and addresses) answer locally and never forward, blocked
    name or not. *)
Theorem C01_local_stages_never_forward :
  forall allow_eng block_eng sb par ss srt c up q,
  (forall dhcp, prefilter c q <> PContinue dhcp) ->
  o_calls (process allow_eng block_eng sb par ss srt c up q) = [].
Proof. exact local_stages_never_forward. Qed.
Print Assumptions C01_local_stages_never_forward.

(** Safe browsing / parental control with the block page given as a NAME:
    the code resolves that name through the upstream; the only question sent
    is for the block page (with the client's question type), never for the
    blocked name. *)
Theorem C01_blockpage_lookup_only :
  forall allow_eng block_eng sb par ss srt c up q res,
  verdict allow_eng block_eng sb par ss srt c q = Some res -> r_filtered res = true ->
  (r_reason res = FilteredSafeBrowsing \/ r_reason res = FilteredParental) ->
  forall call, In call (o_calls (process allow_eng block_eng sb par ss srt c up q)) ->
  exists n, (c_sb_host c = BHName n \/ c_par_host c = BHName n) /\ call = (fqdn n, q_qtype q).
Proof. exact blockpage_lookup_only. Qed.
Print Assumptions C01_blockpage_lookup_only.

(** A name that is both rewritten by the administrator's legacy rewrites and
    on a block list: the rewrite decides; the outcome [rewritten_outcome] has
    no engine, oracle or block list in it (answered from the rewrite's
    addresses, or the rewrite's target is resolved instead of the name). *)
Theorem C01_legacy_rewrite_decides :
  forall allow_eng block_eng sb par ss srt c up q dhcp r,
  prefilter c q = PContinue dhcp -> host_of q <> [] ->
  st_filtering (request_settings c q) = true ->
  legacy_rewrite srt c (host_of q) (q_qtype q) = Some r -> matched r = true ->
  process allow_eng block_eng sb par ss srt c up q = rewritten_outcome c up q dhcp r /\
  r_reason r = RewrittenLegacy.
Proof. exact legacy_rewrite_decides. Qed.
Print Assumptions C01_legacy_rewrite_decides.

(** A query matched by an allow-list rule, or by nothing at all, passes the
    request stage ... *)
Theorem C01_allow_rule_passes :
  forall allow_eng block_eng sb par ss srt c q,
  prefilter c q = PContinue false -> protection_on c = true -> host_of q <> [] ->
  rewrites_pass srt c (request_settings c q) (host_of q) (q_qtype q) ->
  hosts_silent c (request_settings c q) (host_of q) (q_qtype q) ->
  allow_hit allow_eng (request_settings c q) (host_of q) (q_qtype q) ->
  exists res, passes_request_stage allow_eng block_eng sb par ss srt c q res /\
              r_reason res = NotFilteredAllowList.
Proof. exact allow_hit_passes. Qed.
Print Assumptions C01_allow_rule_passes.

Theorem C01_unmatched_passes :
  forall allow_eng block_eng sb par ss srt c q,
  prefilter c q = PContinue false -> nothing_matches allow_eng block_eng sb par ss srt c q ->
  passes_request_stage allow_eng block_eng sb par ss srt c q no_result.
Proof. exact nothing_matches_passes. Qed.
Print Assumptions C01_unmatched_passes.

(** ... and is forwarded exactly once with its own name and type; the answer
    carries the client's question when it is the blocking-mode answer and the
    question the upstream put into its answer otherwise (round 6: the code
    does not touch it; [resp_qname]: the client's up to ASCII case, see
    C01_upstream_question_is_clients_up_to_case); an upstream failure gives
    SERVFAIL; an allow-listed query gets the upstream answer exactly as it
    came (for the unmatched case see C02_clean_answer_unchanged). *)
Theorem C01_forwarded_once :
  forall allow_eng block_eng sb par ss srt c up q res,
  passes_request_stage allow_eng block_eng sb par ss srt c q res ->
  o_calls (process allow_eng block_eng sb par ss srt c up q) = [the_call q] /\
  o_qname (process allow_eng block_eng sb par ss srt c up q) =
    match up (q_name q) (q_qtype q) with
    | Some r => if o_orig_kept (process allow_eng block_eng sb par ss srt c up q)
                then q_name q else resp_qname r (q_name q)
    | None => q_name q
    end /\
  (up (q_name q) (q_qtype q) = None ->
   o_resp (process allow_eng block_eng sb par ss srt c up q) = Some servfail).
Proof. exact forwarded_once. Qed.
Print Assumptions C01_forwarded_once.

Theorem C01_upstream_question_is_clients_up_to_case :
  forall r n, lower (resp_qname r n) = lower n.
Proof. exact resp_qname_fold. Qed.
Print Assumptions C01_upstream_question_is_clients_up_to_case.

Theorem C01_forwarded_intact :
  forall allow_eng block_eng sb par ss srt c up q res r,
  passes_request_stage allow_eng block_eng sb par ss srt c q res ->
  r_reason res = NotFilteredAllowList ->
  up (q_name q) (q_qtype q) = Some r ->
  o_resp (process allow_eng block_eng sb par ss srt c up q) = Some r /\
  o_result (process allow_eng block_eng sb par ss srt c up q) = res /\
  o_qname (process allow_eng block_eng sb par ss srt c up q) = resp_qname r (q_name q).
Proof. exact allowlisted_intact. Qed.
Print Assumptions C01_forwarded_intact.

(** Protection off (switched off, or paused with the deadline ahead):
    nothing is blocked, whatever the lists, services and oracles say - no
    verdict carries a blocking, safe-search or allow-list reason (the
    administrator's rewrites still apply, as in the code) ... *)
Theorem C01_protection_off_blocks_nothing :
  forall allow_eng block_eng sb par ss srt c q res,
  protection_on c = false -> verdict allow_eng block_eng sb par ss srt c q = Some res ->
  r_filtered res = false /\
  (r_reason res = NotFilteredNotFound \/ r_reason res = RewrittenLegacy \/
   r_reason res = RewrittenAutoHosts \/ r_reason res = RewrittenRule).
Proof. exact protection_off_blocks_nothing. Qed.
Print Assumptions C01_protection_off_blocks_nothing.

(** ... and a query none of those rewrites concerns is forwarded and the
    upstream answer delivered unchanged. *)
Theorem C01_protection_off :
  forall allow_eng block_eng sb par ss srt c up q,
  protection_on c = false -> prefilter c q = PContinue false ->
  nothing_matches allow_eng block_eng sb par ss srt c q ->
  let o := process allow_eng block_eng sb par ss srt c up q in
  o_result o = no_result /\ o_calls o = [the_call q] /\
  o_resp o = Some (match up (q_name q) (q_qtype q) with Some r => r | None => servfail end).
Proof. exact protection_off. Qed.
Print Assumptions C01_protection_off.

(** Filtering off for the client: the rule engines are not consulted (the
    outcome is the same for any two pairs of engines) and no rule-list
    reason is reported. *)
Theorem C01_client_filtering_off :
  forall a1 b1 a2 b2 sb par ss srt c up q,
  st_filtering (request_settings c q) = false ->
  process a1 b1 sb par ss srt c up q = process a2 b2 sb par ss srt c up q.
Proof. exact client_filtering_off. Qed.
Print Assumptions C01_client_filtering_off.

Theorem C01_client_filtering_off_reason :
  forall a b sb par ss srt c up q,
  st_filtering (request_settings c q) = false ->
  let r := r_reason (o_result (process a b sb par ss srt c up q)) in
  r <> FilteredBlockList /\ r <> NotFilteredAllowList.
Proof. exact client_filtering_off_reason. Qed.
Print Assumptions C01_client_filtering_off_reason.

(** Layer B: what the engine's verdict means over the rule list: the reported
    rule is a candidate (survives $badfilter, carries no $dnsrewrite) of the
    maximal priority class. *)
Theorem C01_engine_verdict_class :
  forall rs r, get_dns_basic_rule rs = Some r ->
  In r (basic_candidates rs) /\
  forall r', In r' (basic_candidates rs) -> (rule_class r' <= rule_class r)%nat.
Proof. exact basic_rule_max_class. Qed.
Print Assumptions C01_engine_verdict_class.

Theorem C01_engine_verdict_none :
  forall rs, get_dns_basic_rule rs = None <-> basic_candidates rs = [].
Proof. exact basic_rule_none. Qed.
Print Assumptions C01_engine_verdict_none.

(** $dnsrewrite: the in-place loop of DNSRewrites() terminates within its
    bound (the model's fuel is never exhausted) and returns only matching
    $dnsrewrite rules. *)
Theorem C01_dnsrewrites_total :
  forall dr, exists l,
  drw_loop (S (length (filter has_drw (dr_all dr)))) 0 (filter has_drw (dr_all dr)) = Some l /\
  dns_rewrites dr = l.
Proof. exact dns_rewrites_total. Qed.
Print Assumptions C01_dnsrewrites_total.

Theorem C01_dnsrewrites_sound :
  forall dr r, In r (dns_rewrites dr) -> In r (dr_all dr) /\ has_drw r = true.
Proof. exact dns_rewrites_sound. Qed.
Print Assumptions C01_dnsrewrites_sound.

(** Layers together: over the rule lists themselves (any length), "no
    allow-list rule matches, no matching block-list rule carries $dnsrewrite,
    and a non-exception block rule is of the highest priority class among the
    candidates" gives the rule-list premise of C01_blocked_is_local for the
    modelled engines. *)
Theorem C01_engine_verdict_spec :
  forall allow block st host qt,
  host <> [] -> st_filtering st = true ->
  no_rule_matches allow (rq_of st host qt) -> no_rewrite_rule block (rq_of st host qt) ->
  wins_block block (rq_of st host qt) ->
  list_blocked (match_request allow) (match_request block) st host qt.
Proof. exact list_blocked_from_rules. Qed.
Print Assumptions C01_engine_verdict_spec.

(** The tie of the two order tables to the source: the host-checker list of
    filtering.New and the stage list of handleDNSRequest, as extracted from
    the current source by tools/ordertables, are exactly the images of the
    literals [checker_order] / [stage_order] of the model (every checker and
    every stage has its constructor), and the extraction left nothing
    unresolved.  A reordering in the source changes Gen/PipelineTables.v and
    breaks this. *)
Theorem C01_tables_match_source :
  Gen.PipelineTables.unresolved = [] /\
  Gen.PipelineTables.host_checkers = expected_checkers /\
  Gen.PipelineTables.stages = expected_stages.
Proof. exact tables_match_source. Qed.
Print Assumptions C01_tables_match_source.

(** The guard facts the theorems rely on, pinned to the source: the
    early-exit structure (guard conditions, returned codes, which arms set the
    response, switch / case lists) of the stage functions, filterDNSRequest /
    filterDNSResponse, isRewrittenCNAME, genDNSFilterMessage, genBlockedHost,
    CheckHost, matchHost, processDNSResultRewrites, matchSysHosts,
    matchBlockedServicesRules and checkSafeSearch, as extracted from the
    current source, equals the table written next to the model
    (Model/PipelineGuards.v, each entry naming its model branch).  E.g. the
    `if pctx.Res != nil` guard of processUpstream, the case order of
    filterDNSRequest, the `break` after the first filtered record. *)
Theorem C01_guards_match_source : Gen.PipelineTables.guards = expected_guards.
Proof. exact guards_match_source. Qed.
Print Assumptions C01_guards_match_source.

(** Non-vacuity: one configuration per blocking mode that meets the premise
    of C01_blocked_is_local, with the modelled engine over "||a.test^". *)
Example C01_blocked_premises_satisfiable :
  forall m, blocked_by_spec (match_request []) (match_request ex_block_rules) Rewrites.isort (ex_cfg m) ex_query.
Proof. exact ex_blocked_by_spec. Qed.

Example C01_allow_premises_satisfiable :
  allow_hit (match_request ex_allow_rules) (request_settings (ex_cfg MDefault) ex_query) (host_of ex_query) (q_qtype ex_query) /\
  nothing_matches (match_request []) (match_request ex_block_rules) (fun _ => false) (fun _ => false) no_ss
    Rewrites.isort (ex_cfg MDefault) ex_query_other /\
  prefilter (ex_cfg MDefault) ex_query_other = PContinue false /\
  protection_on ex_cfg_off = false /\ prefilter ex_cfg_off ex_query = PContinue false /\
  st_filtering (request_settings (ex_cfg MDefault) ex_query_kid) = false.
Proof. exact ex_other_premises. Qed.

(** A legacy rewrite and a block rule for the same name: the premises of
    C01_legacy_rewrite_decides hold while the name is blocked by the spec in
    the configuration without the rewrite. *)
Example C01_rewrite_premises_satisfiable :
  prefilter ex_cfg_rw ex_query_a = PContinue false /\ host_of ex_query_a <> [] /\
  st_filtering (request_settings ex_cfg_rw ex_query_a) = true /\
  (exists r, legacy_rewrite Rewrites.isort ex_cfg_rw (host_of ex_query_a) 1 = Some r /\ matched r = true /\
             is_rewritten_cname r = true) /\
  blocked_by_spec (match_request []) (match_request ex_block_rules) Rewrites.isort (ex_cfg MDefault) ex_query_a.
Proof. exact ex_rewrite_premises. Qed.

(** What the code does with a rewritten question: it is not filtered again.
    Rewrite "x.test -> b.a.test", block rule "||a.test^": the blocked name
    b.a.test goes upstream (the administrator's rewrite is followed). *)
Example C01_rewrite_target_not_filtered :
  o_calls (process (match_request []) (match_request ex_block_rules) (fun _ => false) (fun _ => false) no_ss
             Rewrites.isort (ex_cfg_with MDefault None [ex_rw_to_blocked] BHEmpty) (fun _ _ => Some ex_answer)
             ex_query_other)
  = [([98;46;97;46;116;101;115;116;46], 1)].
Proof. exact ex_rewrite_target_not_filtered. Qed.

Example C01_blockpage_premises_satisfiable :
  let c := ex_cfg_with MDefault None [] (BHName [98;108;111;99;107;46;112;97;103;101]) in
  exists res,
    verdict (match_request []) (match_request []) (fun h => eqb_bytes h b_x_test) (fun _ => false) no_ss
            Rewrites.isort c ex_query_other = Some res /\
    r_filtered res = true /\ r_reason res = FilteredSafeBrowsing.
Proof. exact ex_blockpage_premises. Qed.

(** * Rule lists switched on and off while the server runs (round 3)

    "an enabled blocking rule": enabled NOW.  Model/PipelineLists.v: the
    block engine is built from the user rules and the block lists whose flag
    is on after the last change. *)
From AGH Require Import Model.PipelineLists Proofs.PipelineLists.

(** set_url enabled:true for a block list puts its rules in force, whatever
    happened before (disabled and re-enabled any number of times). *)
Theorem C01_enabled_block_list_in_force :
  forall st u f,
  In f (ls_block st) -> fl_url f = u ->
  incl (fl_rules f) (block_rules (apply_change st (LSet false u true))).
Proof. exact block_list_enabled_in_force. Qed.
Print Assumptions C01_enabled_block_list_in_force.

(** Disabling and enabling a list that was enabled restores the lists. *)
Theorem C01_disable_enable_restores :
  forall u ls,
  (forall f, In f ls -> fl_url f = u -> fl_on f = true) ->
  set_on u true (set_on u false ls) = ls.
Proof. exact off_on_restores. Qed.
Print Assumptions C01_disable_enable_restores.

(** A disabled list's rules are in force only if another enabled list has them. *)
Theorem C01_disabled_block_list_not_in_force :
  forall u ls r,
  In r (active (set_on u false ls)) ->
  exists f, In f ls /\ fl_url f <> u /\ fl_on f = true /\ In r (fl_rules f).
Proof. exact switched_off_not_in_force. Qed.
Print Assumptions C01_disabled_block_list_not_in_force.

(** * The queue of pending engine rebuilds (round 4)

    "an enabled blocking rule": enabled by the LATEST accepted configuration
    change.  The web handlers (set_rules, set_url, add_url, remove_url,
    filtering/config) hand a snapshot of the configuration to the updates
    loop through a one-slot channel (drain, then send); Model/FilterQueue.v
    has the channel, the loop's two halves (take a task / install its
    engines), the synchronous rebuild and the handlers as the code is now. *)
From AGH Require Import Model.FilterQueue Proofs.FilterQueue.

(** Generic in the configuration and the snapshot: any interleaving of
    changes, EnableFilters(true) calls, loop steps and synchronous rebuilds
    in which the last change is followed by its trigger; when the loop has
    served the queue the engines are built from the configuration in force,
    nothing is queued and the loop is idle. *)
Theorem C01_rebuild_queue_follows_last_change :
  forall (conf change snap : Type) (apply : conf -> change -> conf) (take : conf -> snap)
         (s0 : qstate conf snap) (h : list (op change)),
  fresh take s0 -> settled h = true ->
  let s := run apply take enq_drain_send s0 h in
  q_engine (quiesce apply take s) = take (q_conf s) /\
  q_chan (quiesce apply take s) = [] /\ q_busy (quiesce apply take s) = None.
Proof. exact engine_follows_last_change. Qed.
Print Assumptions C01_rebuild_queue_follows_last_change.

(** From any state, however stale, one trigger after the last change is enough. *)
Theorem C01_one_trigger_heals :
  forall (conf change snap : Type) (apply : conf -> change -> conf) (take : conf -> snap)
         (s0 : qstate conf snap) (h : list (op change)),
  dirty_after true h = false ->
  let s := run apply take enq_drain_send s0 h in
  q_engine (quiesce apply take s) = take (q_conf s).
Proof. exact one_trigger_heals. Qed.
Print Assumptions C01_one_trigger_heals.

Example C01_rebuild_queue_premises_satisfiable :
  fresh ex_take ex_s0 /\ settled ex_hist = true /\
  let s := run ex_apply ex_take enq_drain_send ex_s0 ex_hist in
  q_chan s = [3%nat] /\ q_engine s = 1%nat /\ q_engine (quiesce ex_apply ex_take s) = 3%nat.
Proof. exact (conj (proj1 ex_premises) (conj (proj2 ex_premises) ex_phases)). Qed.

(** Whole handler calls, loop steps, synchronous rebuilds and idle periods
    in any order on a started server: at most one task is pending and no
    handler blocks on the channel. *)
Theorem C01_at_most_one_pending_rebuild :
  forall st hs,
  let s := hrun (pinit st) hs in (length (q_chan s) <= 1)%nat /\ q_stuck s = false.
Proof. exact at_most_one_pending. Qed.
Print Assumptions C01_at_most_one_pending_rebuild.

(** Once the queue is served every query is answered as by a server whose
    engines were built from the latest configuration. *)
Theorem C01_engine_follows_last_change :
  forall sb par ss srt st hs c up q,
  let s := hrun (pinit st) hs in
  ask_q sb par ss srt (pquiesce s) c up q = PipelineLists.ask sb par ss srt (q_conf s) c up q.
Proof. exact served_queue_answers_with_last_change. Qed.
Print Assumptions C01_engine_follows_last_change.

Theorem C01_engine_follows_last_change_interleaved :
  forall sb par ss srt st h c up q,
  settled h = true ->
  let s := prun (pinit st) h in
  ask_q sb par ss srt (pquiesce s) c up q = PipelineLists.ask sb par ss srt (q_conf s) c up q.
Proof. exact served_queue_answers_with_last_change_interleaved. Qed.
Print Assumptions C01_engine_follows_last_change_interleaved.

(** The main clause over the queue: what the rules of the latest
    configuration block is answered locally, nothing goes upstream. *)
Theorem C01_blocked_by_last_change_is_local :
  forall sb par ss srt st hs c up q,
  let s := hrun (pinit st) hs in
  blocked_by_spec (match_request (allow_rules (q_conf s))) (match_request (block_rules (q_conf s))) srt c q ->
  let o := ask_q sb par ss srt (pquiesce s) c up q in
  o_calls o = [] /\
  r_filtered (o_result o) = true /\ rule_reason (r_reason (o_result o)) /\
  o_resp o = Some (synthetic c (q_name q) (q_qtype q) (ips_from_rules (o_result o))) /\
  o_qname o = q_name q.
Proof. exact blocked_by_last_change_is_local. Qed.
Print Assumptions C01_blocked_by_last_change_is_local.

(** The custom rules of the last set_rules call head the block engine. *)
Theorem C01_last_custom_rules_in_force :
  forall st hs rs,
  let s := pquiesce (handle (hrun (pinit st) hs) (QRules rs)) in
  snd (q_engine s) = rs ++ active (ls_block (q_conf s)) /\ ls_user (q_conf s) = rs.
Proof. exact last_custom_rules_in_force. Qed.
Print Assumptions C01_last_custom_rules_in_force.

Theorem C01_enabled_list_in_force_after_queue :
  forall st hs f,
  let s0 := hrun (pinit st) hs in
  NoDup (map fl_url (ls_block (q_conf s0))) -> In f (ls_block (q_conf s0)) ->
  let s := pquiesce (handle s0 (QSet false (fl_url f) true)) in
  incl (fl_rules f) (snd (q_engine s)).
Proof. exact enabled_list_in_force_after_queue. Qed.
Print Assumptions C01_enabled_list_in_force_after_queue.

(** The variant with a non-blocking send and no drain (seeded change C01-G)
    is refuted: two set_rules calls while the loop is away; the name the
    second call blocks is blocked by the rules of the configuration and not
    by the engines, however long the loop is left alone afterwards.  The
    code as it is blocks it on the same history. *)
Theorem C01_nonblocking_send_refuted :
  settled exq_ops = true /\
  let s := run apply_q ptake enq_nonblocking (pinit exq_st) exq_ops in
  let e := q_engine (pquiesce s) in
  snd (match_request (block_rules (q_conf s)) exl_rq) = true /\
  snd (match_request (snd e) exl_rq) = false.
Proof. exact nonblocking_send_refuted. Qed.
Print Assumptions C01_nonblocking_send_refuted.

Example C01_drain_then_send_on_the_same_history :
  let s := prun (pinit exq_st) exq_ops in
  snd (match_request (snd (q_engine (pquiesce s))) exl_rq) = true.
Proof. exact drain_then_send_on_the_same_history. Qed.

(** * The safe-browsing / parental verdict is the hash-prefix checker's (round 4)

    In the layer-A theorems the verdicts of safe browsing and parental
    control are oracles [sb], [par].  Property C19 models the checker behind
    them (Model/HashPrefix.v); here the two models are put together. *)
From AGH Require Import Model.HashPrefix Proofs.HashPrefix Proofs.PipelineSB.

(** What the oracle is: the outcome of Checker.Check for any cache contents
    consistent with the service's database, any map order, evictions and
    instant, whenever the lookup does not fail. *)
Theorem C01_sb_oracle_is_checker_verdict :
  forall sha pubsuf suffix cache_time db svc order evs now host cch,
  cache_inv db cch -> svc_ok db svc ->
  let res := check sha pubsuf suffix cache_time svc order evs now host cch in
  o_err (snd res) = false -> o_blocked (snd res) = db_verdict sha pubsuf db host.
Proof. exact checker_verdict_is_db_verdict. Qed.
Print Assumptions C01_sb_oracle_is_checker_verdict.

(** A name one of whose checked forms has its full hash in the service's
    database, safe browsing on for the client, protection on, no earlier
    stage, rewrite, rule list or blocked service deciding: the pipeline
    reports FilteredSafeBrowsing, answers with the block page and asks the
    upstream at most for a block page given as a name (never for the name). *)
Theorem C01_listed_hash_is_blocked :
  forall sha pubsuf allow_eng block_eng par ss srt db c up q,
  reaches_hash_checks allow_eng block_eng srt c q ->
  st_safebrowsing (request_settings c q) = true ->
  (exists n, In n (names_to_hash pubsuf (host_of q)) /\ In (sha n) db) ->
  let o := process allow_eng block_eng (db_verdict sha pubsuf db) par ss srt c up q in
  o_result o = sb_result /\
  o_resp o = Some (fst (filter_message c up (q_name q) (q_qtype q) sb_result)) /\
  o_calls o = blockpage_calls c (q_qtype q) sb_result /\
  o_qname o = q_name q.
Proof. exact listed_hash_is_blocked. Qed.
Print Assumptions C01_listed_hash_is_blocked.

Theorem C01_unlisted_hash_not_blocked_by_safebrowsing :
  forall sha pubsuf allow_eng block_eng par ss srt db c q res,
  (forall n, In n (names_to_hash pubsuf (host_of q)) -> ~ In (sha n) db) ->
  verdict allow_eng block_eng (db_verdict sha pubsuf db) par ss srt c q = Some res ->
  reaches_hash_checks allow_eng block_eng srt c q ->
  r_reason res <> FilteredSafeBrowsing.
Proof. exact unlisted_hash_not_blocked_by_sb. Qed.
Print Assumptions C01_unlisted_hash_not_blocked_by_safebrowsing.

(** The same shape for any oracle, safe browsing and parental control. *)
Theorem C01_safebrowsing_verdict_blocks :
  forall allow_eng block_eng sb par ss srt c up q,
  sb_blocked_by_spec allow_eng block_eng sb srt c q ->
  let o := process allow_eng block_eng sb par ss srt c up q in
  o_result o = sb_result /\
  o_resp o = Some (fst (filter_message c up (q_name q) (q_qtype q) sb_result)) /\
  o_calls o = blockpage_calls c (q_qtype q) sb_result /\
  o_qname o = q_name q.
Proof. exact sb_listed_is_blocked. Qed.
Print Assumptions C01_safebrowsing_verdict_blocks.

Theorem C01_parental_verdict_blocks :
  forall allow_eng block_eng sb par ss srt c up q,
  par_blocked_by_spec allow_eng block_eng sb par srt c q ->
  let o := process allow_eng block_eng sb par ss srt c up q in
  o_result o = par_result /\
  o_resp o = Some (fst (filter_message c up (q_name q) (q_qtype q) par_result)) /\
  o_calls o = blockpage_calls c (q_qtype q) par_result /\
  o_qname o = q_name q.
Proof. exact par_listed_is_blocked. Qed.
Print Assumptions C01_parental_verdict_blocks.

Example C01_listed_hash_premises_satisfiable :
  sb_blocked_by_spec (match_request []) (match_request []) (db_verdict exsb_sha exsb_pubsuf exsb_db)
                     Rewrites.isort exsb_cfg ex_query_other /\
  (exists n, In n (names_to_hash exsb_pubsuf (host_of ex_query_other)) /\ In (exsb_sha n) exsb_db).
Proof. exact ex_sb_premises. Qed.

(** * Round 5: "protection on / off / paused" as a history
    (Model/Protection.v: POST /control/protection with and without a
    duration, protection_enabled in POST /control/dns_config, the clock as an
    input, the lazy re-enable of UpdatedProtectionStatus with its goroutine) *)
From AGH Require Import Model.Protection Proofs.Protection.
Local Open Scope Z_scope.

(** For EVERY history of switches (either endpoint, refused requests
    included), clock readings (DNS requests, status reads) and wake-ups of
    enableProtectionAfterPause whose instants do not decrease, in any
    interleaving, from any state that stands for a switch: at every instant
    from the end of the history on, protection is in force iff the LAST
    accepted switch says so: switched on (a pending pause is cancelled), or
    paused until an instant that has been reached. *)
Theorem C01_protection_follows_last_switch :
  forall sw0 T0 s0 h t,
  agrees sw0 T0 s0 -> ordered T0 h -> last_instant T0 h <= t ->
  in_force t (run_now s0 h) = expected (last_switch sw0 h) t.
Proof. exact protection_follows_last_switch. Qed.
Print Assumptions C01_protection_follows_last_switch.

(** An accepted {"enabled": true} (either endpoint) puts protection in force
    for every later instant, whatever pause preceded it, until the next switch. *)
Theorem C01_reenable_cancels_pause :
  forall sw0 T0 s0 h o rest t,
  agrees sw0 T0 s0 -> ordered T0 (h ++ o :: rest) ->
  switch_of o = Some SwOn -> Forall (fun x => switch_of x = None) rest ->
  last_instant T0 (h ++ o :: rest) <= t ->
  in_force t (run_now s0 (h ++ o :: rest)) = true.
Proof. exact reenable_cancels_pause. Qed.
Print Assumptions C01_reenable_cancels_pause.

Theorem C01_pause_in_force_from_deadline :
  forall sw0 T0 s0 h o rest d t,
  agrees sw0 T0 s0 -> ordered T0 (h ++ o :: rest) ->
  switch_of o = Some (SwPause d) -> Forall (fun x => switch_of x = None) rest ->
  last_instant T0 (h ++ o :: rest) <= t ->
  in_force t (run_now s0 (h ++ o :: rest)) = (d <=? t).
Proof. exact pause_in_force_from_deadline. Qed.
Print Assumptions C01_pause_in_force_from_deadline.

(** What a request reads (process.go: UpdatedProtectionStatus once per
    request) is what the state machine yields: the [protection] input of the
    pipeline model. *)
Theorem C01_request_reads_protection_state :
  forall c s now, protection_on (cfg_at c s now) = in_force now s.
Proof. exact cfg_at_protection. Qed.
Print Assumptions C01_request_reads_protection_state.

(** C01 over the history: the last switch says "in force" and the other
    premises of C01_blocked_is_local hold in the configuration the request
    sees  ==>  answered locally with the synthetic answer, nothing upstream. *)
Theorem C01_blocked_is_local_after_history :
  forall allow_eng block_eng sb par ss srt c sw0 T0 s0 h t up q,
  agrees sw0 T0 s0 -> ordered T0 h -> last_instant T0 h <= t ->
  expected (last_switch sw0 h) t = true ->
  (protection_on (cfg_after c s0 h t) = true -> blocked_by_spec allow_eng block_eng srt (cfg_after c s0 h t) q) ->
  let c' := cfg_after c s0 h t in
  let o := process allow_eng block_eng sb par ss srt c' up q in
  o_calls o = [] /\
  r_filtered (o_result o) = true /\ rule_reason (r_reason (o_result o)) /\
  o_resp o = Some (synthetic c' (q_name q) (q_qtype q) (ips_from_rules (o_result o))) /\
  o_qname o = q_name q.
Proof. exact blocked_is_local_after_history. Qed.
Print Assumptions C01_blocked_is_local_after_history.

(** ... and while the last switch says "not in force" nothing is blocked. *)
Theorem C01_nothing_blocked_while_switched_off :
  forall allow_eng block_eng sb par ss srt c sw0 T0 s0 h t q res,
  agrees sw0 T0 s0 -> ordered T0 h -> last_instant T0 h <= t ->
  expected (last_switch sw0 h) t = false ->
  verdict allow_eng block_eng sb par ss srt (cfg_after c s0 h t) q = Some res ->
  r_filtered res = false /\
  (r_reason res = NotFilteredNotFound \/ r_reason res = RewrittenLegacy \/
   r_reason res = RewrittenAutoHosts \/ r_reason res = RewrittenRule).
Proof. exact nothing_blocked_while_off. Qed.
Print Assumptions C01_nothing_blocked_while_switched_off.

(** The seeded handler (a request without a duration only stores the flag):
    on, paused for an hour, switched on again after a second: off until the
    old deadline, while the code as it is yields "in force". *)
Theorem C01_reenable_keeps_deadline_refuted :
  exists h t, ordered 0 h /\ last_instant 0 h <= t /\ last_switch SwOn h = SwOn /\
    in_force t (prot_run set_keeps_deadline conf_as_written wake_as_written (prot_init true None) h) = false /\
    in_force t (run_now (prot_init true None) h) = true.
Proof. exact reenable_keeps_deadline_refuted. Qed.
Print Assumptions C01_reenable_keeps_deadline_refuted.

(** dns_config's protection_enabled as it was before /repo 8ae46d5 (flag
    only): "on" during a pause stays off, "off" during a pause comes back on
    at the deadline. *)
Theorem C01_dns_config_flag_only_refuted :
  (exists h t, ordered 0 h /\ last_instant 0 h <= t /\ last_switch SwOn h = SwOn /\
     in_force t (prot_run set_as_written conf_flag_only wake_as_written (prot_init true None) h) = false /\
     in_force t (run_now (prot_init true None) h) = true) /\
  (exists h t, ordered 0 h /\ last_instant 0 h <= t /\ last_switch SwOn h = SwOff /\
     in_force t (prot_run set_as_written conf_flag_only wake_as_written (prot_init true None) h) = true /\
     in_force t (run_now (prot_init true None) h) = false).
Proof. exact conf_flag_only_refuted. Qed.
Print Assumptions C01_dns_config_flag_only_refuted.

(** enableProtectionAfterPause as it was before /repo c1dbdb6 (it did not look
    at the pair again once it held the lock): a switch that lands after a
    request has started the goroutine and before the goroutine has the lock is
    overridden: {"enabled": false} -> protection on; a new pause -> cancelled. *)
Theorem C01_late_wake_overrides_switch_refuted :
  (exists h t, ordered 0 h /\ last_instant 0 h <= t /\ last_switch SwOn h = SwOff /\
     in_force t (prot_run set_as_written conf_as_written wake_unconditional (prot_init true None) h) = true /\
     in_force t (run_now (prot_init true None) h) = false) /\
  (exists h t d, ordered 0 h /\ last_instant 0 h <= t /\ last_switch SwOn h = SwPause d /\ t < d /\
     in_force t (prot_run set_as_written conf_as_written wake_unconditional (prot_init true None) h) = true /\
     in_force t (run_now (prot_init true None) h) = false).
Proof. exact late_wake_overrides_switch_refuted. Qed.
Print Assumptions C01_late_wake_overrides_switch_refuted.

Example C01_protection_premises_satisfiable :
  agrees SwOn 0 (prot_init true None) /\
  ordered 0 [PSet 0 false hour; PRead 1000; PConf true; PRead (2 * hour); PSet (2 * hour) false hour; PWake (2 * hour)] /\
  last_switch SwOn [PSet 0 false hour; PRead 1000; PWake 1000; PConf true; PRead (2 * hour); PWake (2 * hour)] = SwOn /\
  last_switch SwOn [PSet 0 false hour; PRead 1000; PWake 1000] = SwPause hour /\
  in_force 1000 (run_now (prot_init true None) [PSet 0 false hour]) = false /\
  in_force (hour + 1) (run_now (prot_init true None) [PSet 0 false hour]) = true /\
  in_force (hour + 3) (run_now (prot_init true None) late_wake_history) = false.
Proof. exact premises_satisfiable. Qed.

Example C01_blocked_premises_after_history :
  forall m,
  let h := [PSet 0 false hour; PRead 1000; PWake 1000; PSet 2000 true 0] in
  expected (last_switch SwOn h) 3000 = true /\
  blocked_by_spec (match_request []) (match_request ex_block_rules) Rewrites.isort
    (cfg_after (ex_cfg m) (prot_init true None) h 3000) ex_query.
Proof. exact blocked_premises_after_history. Qed.

(** * Round 5: the rule lists behind the refresh (sources that change and
    fail between passes).  The refresh is property C15's model
    (Model/Refresh.v), imported as it is; Model/PipelineRefresh.v adds the
    step from the texts in force to the pipeline's engines. *)
From AGH Require Model.Refresh Model.RuleListParser Proofs.Refresh Proofs.RefreshEngine.
From AGH Require Model.PipelineRefresh Proofs.PipelineRefresh.
Local Open Scope N_scope.

(** refreshFiltersIntl reports "network error" iff, in an array it refreshed,
    EVERY attempted list failed (and there was one): one failing source among
    several is not a network error.  (The clause seeded change C01-I breaks.) *)
Theorem C01_net_error_iff_whole_array_failed :
  forall crc b a force due oc st,
  Refresh.pass_net_error crc b a force due oc st
  = (b && PipelineRefresh.all_failed crc (Refresh.r_block st) force due oc)
    || (a && PipelineRefresh.all_failed crc (Refresh.r_allow st) force due oc).
Proof. exact PipelineRefresh.pass_net_error_char. Qed.
Print Assumptions C01_net_error_iff_whole_array_failed.

(** A pass that is no network error and in which the source of an attempted
    list brings a text with another checksum reports an update ... *)
Theorem C01_new_text_is_reported :
  forall crc b a force due oc st l,
  Refresh.pass_net_error crc b a force due oc st = false ->
  PipelineRefresh.attempted_in b a force due st l -> PipelineRefresh.brings_new crc (oc (Refresh.f_id l)) l ->
  Refresh.pass_updated crc b a force due oc st <> 0.
Proof. exact PipelineRefresh.pass_updated_pos. Qed.
Print Assumptions C01_new_text_is_reported.

(** ... hence (by C15_rebuilding_step_consistent's clause for passes,
    [updating_pass_consistent]) rebuilds the engines from the stored files,
    whatever the engines held before and whichever other sources failed. *)
Theorem C01_partial_failure_pass_rebuilds :
  forall crc b a force due oc st l,
  (b && PipelineRefresh.all_failed crc (Refresh.r_block st) force due oc)
    || (a && PipelineRefresh.all_failed crc (Refresh.r_allow st) force due oc) = false ->
  PipelineRefresh.attempted_in b a force due st l -> PipelineRefresh.brings_new crc (oc (Refresh.f_id l)) l ->
  Refresh.engine_consistent (Refresh.refresh crc b a force due oc st).
Proof. exact PipelineRefresh.partial_failure_pass_consistent. Qed.
Print Assumptions C01_partial_failure_pass_rebuilds.

(** After such a pass every rule in the stored file of every enabled block
    list is a rule of the block engine, every rule in the stored file of an
    enabled allow list a rule of the allow engine ([rules_of]: urlfilter's
    reading of a stored text, trusted). *)
Theorem C01_refreshed_rule_in_force :
  forall crc rules_of b a force due oc st user l0 l c r,
  (b && PipelineRefresh.all_failed crc (Refresh.r_block st) force due oc)
    || (a && PipelineRefresh.all_failed crc (Refresh.r_allow st) force due oc) = false ->
  PipelineRefresh.attempted_in b a force due st l0 -> PipelineRefresh.brings_new crc (oc (Refresh.f_id l0)) l0 ->
  let st' := Refresh.refresh crc b a force due oc st in
  Refresh.f_enabled l = true -> Refresh.fget (Refresh.f_id l) (Refresh.r_files st') = Some c -> In r (rules_of c) ->
  (In l (Refresh.r_block st') -> In r (PipelineRefresh.block_in_force rules_of user (Refresh.r_engine st'))) /\
  (In l (Refresh.r_allow st') -> In r (PipelineRefresh.allow_in_force rules_of (Refresh.r_engine st'))).
Proof. exact PipelineRefresh.refreshed_rule_in_force. Qed.
Print Assumptions C01_refreshed_rule_in_force.

(** ... and the query the stored rules block is answered locally. *)
Theorem C01_blocked_by_refreshed_list_is_local :
  forall crc rules_of sb par ss srt b a force due oc st user l0 c up q,
  (b && PipelineRefresh.all_failed crc (Refresh.r_block st) force due oc)
    || (a && PipelineRefresh.all_failed crc (Refresh.r_allow st) force due oc) = false ->
  PipelineRefresh.attempted_in b a force due st l0 -> PipelineRefresh.brings_new crc (oc (Refresh.f_id l0)) l0 ->
  let st' := Refresh.refresh crc b a force due oc st in
  blocked_by_spec (match_request (PipelineRefresh.stored_rules rules_of (Refresh.r_allow st') (Refresh.r_files st')))
                  (match_request (user ++ PipelineRefresh.stored_rules rules_of (Refresh.r_block st') (Refresh.r_files st')))
                  srt c q ->
  let o := PipelineRefresh.ask_r rules_of sb par ss srt user st' c up q in
  o_calls o = [] /\
  r_filtered (o_result o) = true /\ rule_reason (r_reason (o_result o)) /\
  o_resp o = Some (synthetic c (q_name q) (q_qtype q) (ips_from_rules (o_result o))) /\
  o_qname o = q_name q.
Proof. exact PipelineRefresh.blocked_by_refreshed_list_is_local. Qed.
Print Assumptions C01_blocked_by_refreshed_list_is_local.

(** For every history of passes (sources changing and failing in any pattern
    that is no network error), set_url switches and rebuilds, from a state
    whose engines are in step with the files, then a query: the verdict is
    that of the rules in the stored files of the lists enabled at that
    moment. *)
Theorem C01_verdict_by_stored_files_after_history :
  forall crc rules_of sb par ss srt h st user c up q,
  Refresh.engine_consistent st -> PipelineRefresh.no_net_error crc h st ->
  let st' := PipelineRefresh.rop_run crc st h in
  PipelineRefresh.ask_r rules_of sb par ss srt user st' c up q =
  process (match_request (PipelineRefresh.stored_rules rules_of (Refresh.r_allow st') (Refresh.r_files st')))
          (match_request (user ++ PipelineRefresh.stored_rules rules_of (Refresh.r_block st') (Refresh.r_files st')))
          sb par ss srt c up q.
Proof. exact PipelineRefresh.history_rules_in_force. Qed.
Print Assumptions C01_verdict_by_stored_files_after_history.

(** After ANY history (network errors included, engines behind the files):
    a pass that is none and in which some source brings a new text puts the
    stored files in force again. *)
Theorem C01_updating_pass_heals_any_history :
  forall crc rules_of sb par ss srt h st b a force oc user l0 c up q,
  let s := PipelineRefresh.rop_run crc st h in
  (b && PipelineRefresh.all_failed crc (Refresh.r_block s) force PipelineRefresh.all_due oc)
    || (a && PipelineRefresh.all_failed crc (Refresh.r_allow s) force PipelineRefresh.all_due oc) = false ->
  PipelineRefresh.attempted_in b a force PipelineRefresh.all_due s l0 ->
  PipelineRefresh.brings_new crc (oc (Refresh.f_id l0)) l0 ->
  let st' := PipelineRefresh.rop_run crc st (h ++ [PipelineRefresh.RPass b a force oc]) in
  PipelineRefresh.ask_r rules_of sb par ss srt user st' c up q =
  process (match_request (PipelineRefresh.stored_rules rules_of (Refresh.r_allow st') (Refresh.r_files st')))
          (match_request (user ++ PipelineRefresh.stored_rules rules_of (Refresh.r_block st') (Refresh.r_files st')))
          sb par ss srt c up q.
Proof. exact PipelineRefresh.history_then_updating_pass. Qed.
Print Assumptions C01_updating_pass_heals_any_history.

(** The seeded reading "a pass with a failing source leaves the engines as
    they were" does not hold of the model (one source failing, the other
    bringing a new text: the engines hold the new text afterwards). *)
Theorem C01_any_failure_keeps_engine_refuted : ~ PipelineRefresh.any_failure_keeps_engine_statement.
Proof. exact PipelineRefresh.any_failure_keeps_engine_refuted. Qed.
Print Assumptions C01_any_failure_keeps_engine_refuted.

Example C01_partial_failure_premises_satisfiable :
  Refresh.engine_consistent PipelineRefresh.RX.st0 /\
  (true && PipelineRefresh.all_failed RuleListParser.crc32_update (Refresh.r_block PipelineRefresh.RX.st0) true PipelineRefresh.all_due PipelineRefresh.RX.oc1) ||
    (false && PipelineRefresh.all_failed RuleListParser.crc32_update (Refresh.r_allow PipelineRefresh.RX.st0) true PipelineRefresh.all_due PipelineRefresh.RX.oc1) = false /\
  PipelineRefresh.attempted_in true false true PipelineRefresh.all_due PipelineRefresh.RX.st0 PipelineRefresh.RX.l1 /\
  PipelineRefresh.brings_new RuleListParser.crc32_update (PipelineRefresh.RX.oc1 (Refresh.f_id PipelineRefresh.RX.l1)) PipelineRefresh.RX.l1 /\
  PipelineRefresh.failsb RuleListParser.crc32_update (PipelineRefresh.RX.oc1 2) = true /\
  Refresh.fget 1 (Refresh.r_files PipelineRefresh.RX.st1) = Some PipelineRefresh.RX.t_ax /\
  Refresh.e_block (Refresh.r_engine PipelineRefresh.RX.st1) = [(1, PipelineRefresh.RX.t_ax); (2, PipelineRefresh.RX.t_b)].
Proof. exact PipelineRefresh.partial_failure_premises_satisfiable. Qed.

(** * Round 7: the global filtering switch is a per-request setting, not a
    condition of building the engines (Model/FilterSwitch.v) *)
From AGH Require Import Model.FilterSwitch Proofs.FilterSwitch.

(** For the queue of rebuilds the switch does not exist: a filtering/config
    call is a handler call that changes no list and asks for a rebuild. *)
Theorem C01_switch_transparent_to_queue :
  forall hs g, g_q (grun gate_as_written config_always g hs) = hrun (g_q g) (map erase hs).
Proof. exact switch_transparent_to_queue. Qed.
Print Assumptions C01_switch_transparent_to_queue.

(** Every history of handler calls, filtering/config calls switching the
    global flag either way, loop steps and synchronous rebuilds, from a server
    started with the flag on or off: once the queue is served a query is
    answered by the rules of the LATEST configuration, with the flag as last
    set as the global default (which a client's own settings override). *)
Theorem C01_engine_rebuilt_regardless_of_global_switch :
  forall sb par ss srt on st hs c up q,
  let g := grun gate_as_written config_always (ginit gate_as_written on st) hs in
  ask_q sb par ss srt (pquiesce (g_q g)) (cfg_filt c (g_on g)) up q
  = ask sb par ss srt (q_conf (g_q g)) (cfg_filt c (g_on g)) up q.
Proof. exact engine_rebuilt_regardless_of_global_switch. Qed.
Print Assumptions C01_engine_rebuilt_regardless_of_global_switch.

Theorem C01_own_filtering_client_blocked_by_latest_rules :
  forall sb par ss srt on st hs c up q,
  let g := grun gate_as_written config_always (ginit gate_as_written on st) hs in
  let c' := cfg_filt c (g_on g) in
  blocked_by_spec (match_request (allow_rules (q_conf (g_q g)))) (match_request (block_rules (q_conf (g_q g)))) srt c' q ->
  let o := ask_q sb par ss srt (pquiesce (g_q g)) c' up q in
  o_calls o = [] /\
  r_filtered (o_result o) = true /\ rule_reason (r_reason (o_result o)) /\
  o_resp o = Some (synthetic c' (q_name q) (q_qtype q) (ips_from_rules (o_result o))) /\
  o_qname o = q_name q.
Proof. exact own_filtering_client_blocked_by_latest_rules. Qed.
Print Assumptions C01_own_filtering_client_blocked_by_latest_rules.

(** The seeded early return of enableFiltersLocked while the flag is off
    (C01-N): switched off, set_rules, loop: the engines lack the new rule;
    started with the flag off: the engines hold nothing. *)
Theorem C01_rebuild_only_when_on_refuted :
  (exists hs, let g := grun gate_only_when_on config_always (ginit gate_only_when_on true sw_state) hs in
     q_engine (pquiesce (g_q g)) <> ptake (q_conf (g_q g)) /\
     let g' := grun gate_as_written config_always (ginit gate_as_written true sw_state) hs in
     q_engine (pquiesce (g_q g')) = ptake (q_conf (g_q g'))) /\
  q_engine (pquiesce (g_q (ginit gate_only_when_on false sw_state))) <> ptake sw_state.
Proof. exact rebuild_only_when_on_refuted. Qed.
Print Assumptions C01_rebuild_only_when_on_refuted.

Example C01_switch_premises_satisfiable :
  forall m,
  let g := grun gate_as_written config_always (ginit gate_as_written true (mkLState [] [] []))
             [GConfig false; GOp (HHandle (QRules ex_block_rules)); GOp HLoop] in
  g_on g = false /\ c_filtering (cfg_filt (ex_cfg m) (g_on g)) = false /\
  blocked_by_spec (match_request (allow_rules (q_conf (g_q g)))) (match_request (block_rules (q_conf (g_q g))))
    Rewrites.isort (cfg_filt (ex_cfg m) (g_on g)) sw_query.
Proof. exact switch_premises_satisfiable. Qed.

(** * Round 8: the flag the requests read, and the blocking configuration at
    run time *)

(** enableFiltersLocked is the only place that publishes conf.FilteringEnabled
    to the flag Settings() reads: in the code as it is the two agree after
    every history ... *)
Theorem C01_published_flag_is_configured_flag :
  forall hs g, g_on g = g_conf g ->
  g_on (grun gate_as_written config_always g hs) = g_conf (grun gate_as_written config_always g hs).
Proof. exact flag_in_step_after_history. Qed.
Print Assumptions C01_published_flag_is_configured_flag.

(** ... and once a filtering/config call has returned, the flag the requests
    read is the one it set, until the next config call. *)
Theorem C01_switch_in_force_after_config :
  forall g en rest,
  Forall (fun o => match o with GConfig _ => False | GOp _ => True end) rest ->
  g_on (grun gate_as_written config_always g (GConfig en :: rest)) = en.
Proof. exact switch_in_force_after_config. Qed.
Print Assumptions C01_switch_in_force_after_config.

(** The seeded handler (EnableFilters(true) only when enabling, C02-P):
    switched off, the configuration says off, the requests still read on. *)
Theorem C01_publish_only_when_enabling_refuted :
  exists g, g_on g = g_conf g /\
    g_on (grun gate_as_written config_only_when_enabling g [GConfig false]) = true /\
    g_conf (grun gate_as_written config_only_when_enabling g [GConfig false]) = false /\
    g_on (grun gate_as_written config_always g [GConfig false]) = false.
Proof. exact publish_only_when_enabling_refuted. Qed.
Print Assumptions C01_publish_only_when_enabling_refuted.

(** After any history of dns_config calls the blocking mode is the one of the
    last call that carried a mode and, for custom_ip, the two addresses are
    those of that call (also when the mode was custom_ip already); the TTL is
    that of the last call that carried one; nothing else changes, so
    C01_blocked_is_local's synthetic answer is that of the last configuration. *)
Theorem C01_blocking_config_follows_last_dns_config :
  forall c h m v4 v6 rest,
  Forall (fun o => match o with Protection.BMode _ _ _ => False | Protection.BTTL _ => True end) rest ->
  let c' := brun_now c (h ++ Protection.BMode m v4 v6 :: rest) in
  c_mode c' = m /\ (m = MCustomIP -> c_ip4 c' = v4 /\ c_ip6 c' = v6).
Proof. exact blocking_follows_last_dns_config. Qed.
Print Assumptions C01_blocking_config_follows_last_dns_config.

Theorem C01_blocked_ttl_follows_last_dns_config :
  forall c h t rest,
  Forall (fun o => match o with Protection.BTTL _ => False | Protection.BMode _ _ _ => True end) rest ->
  c_ttl (brun_now c (h ++ Protection.BTTL t :: rest)) = t.
Proof. exact ttl_follows_last_dns_config. Qed.
Print Assumptions C01_blocked_ttl_follows_last_dns_config.

Theorem C01_blocking_ops_keep_the_rest :
  forall c h,
  let c' := brun_now c h in
  protection_on c' = protection_on c /\ c_filtering c' = c_filtering c /\ c_rewrites c' = c_rewrites c /\
  c_services c' = c_services c /\ c_aaaa_disabled c' = c_aaaa_disabled c.
Proof. exact blocking_ops_keep_the_rest. Qed.
Print Assumptions C01_blocking_ops_keep_the_rest.

(** The seeded setConfig (the filter is told only when the mode differs):
    custom_ip re-sent with another pair of addresses keeps the old pair. *)
Theorem C01_blocking_skipped_when_mode_unchanged_refuted :
  exists c h v4, c_mode (brun_now c h) = MCustomIP /\ c_ip4 (brun_now c h) = v4 /\
    c_mode (brun mode_only_when_changed c h) = MCustomIP /\ c_ip4 (brun mode_only_when_changed c h) <> v4.
Proof. exact blocking_skipped_when_mode_unchanged_refuted. Qed.
Print Assumptions C01_blocking_skipped_when_mode_unchanged_refuted.

(** * Lists of blocked-service ids holding ids the service table does not know (round 9)

    "an enabled ... blocked service": a known id of the list in force for the
    client, wherever it stands in the list.  The deprecated POST
    /control/blocked_services/set stores any list; the client storage holds
    any list; only the validated entry points (PUT blocked_services/update,
    filtering.New, the client handlers of package home) refuse unknown ids. *)
From AGH Require Import Model.PipelineSvcIds Proofs.PipelineSvcIds.

(** An unknown id, at any position, changes nothing of what
    ApplyBlockedServicesList hands to the request. *)
Theorem C01_unknown_service_id_skipped :
  forall tbl pre u post,
  lookup_service tbl u = None ->
  services_list tbl (pre ++ u :: post) = services_list tbl (pre ++ post).
Proof. exact unknown_id_skipped. Qed.
Print Assumptions C01_unknown_service_id_skipped.

Theorem C01_service_list_means_its_known_ids :
  forall tbl ids, services_list tbl ids = services_list tbl (svc_known_only tbl ids).
Proof. exact services_list_known_only. Qed.
Print Assumptions C01_service_list_means_its_known_ids.

(** A known id of the list whose rule matches the name: the blocked-services
    checker has a match, whatever else the list holds in front of it. *)
Theorem C01_known_service_blocks_despite_unknown :
  forall tbl ids id rs r host,
  In id ids -> lookup_service tbl id = Some rs ->
  find (nrule_match (mkReq host 0 [] None [])) rs = Some r ->
  exists name r', first_service (services_list tbl ids) host = Some (name, r').
Proof. exact known_service_blocks_despite_unknown. Qed.
Print Assumptions C01_known_service_blocks_despite_unknown.

(** The same for the list stored by any history of set / update calls. *)
Theorem C01_stored_known_service_blocks :
  forall tbl init es id rs r host,
  In id (svc_run tbl init es) -> lookup_service tbl id = Some rs ->
  find (nrule_match (mkReq host 0 [] None [])) rs = Some r ->
  exists name r', first_service (services_list tbl (svc_run tbl init es)) host = Some (name, r').
Proof. exact stored_known_service_blocks. Qed.
Print Assumptions C01_stored_known_service_blocks.

(** The settings of a request see the global list and the client's own list
    only through their known ids. *)
Theorem C01_request_services_known_only :
  forall c q,
  st_services (client_settings c q) =
  let global := if c_services_paused c then [] else services_list (c_service_table c) (svc_known_only (c_service_table c) (c_services c)) in
  match q_client q with
  | None => global
  | Some p => if pc_use_own_services p
              then (if pc_services_paused p then [] else services_list (c_service_table c) (svc_known_only (c_service_table c) (pc_services p)))
              else global
  end.
Proof. exact client_settings_services_known_only. Qed.
Print Assumptions C01_request_services_known_only.

(** The entry points: an accepted update stores known ids only, a refused
    one leaves the stored list alone, the deprecated set stores anything. *)
Theorem C01_update_stores_known_ids :
  forall tbl stored ids,
  snd (svc_store tbl stored (SEUpdate ids)) = true ->
  fst (svc_store tbl stored (SEUpdate ids)) = ids /\ Forall (fun i => lookup_service tbl i <> None) ids.
Proof. exact update_stores_known. Qed.
Print Assumptions C01_update_stores_known_ids.

Theorem C01_refused_update_keeps_list :
  forall tbl stored ids,
  snd (svc_store tbl stored (SEUpdate ids)) = false -> fst (svc_store tbl stored (SEUpdate ids)) = stored.
Proof. exact refused_update_keeps. Qed.
Print Assumptions C01_refused_update_keeps_list.

Example C01_unknown_before_known_satisfiable :
  svc_run exs_tbl [] [SESet exs_ids] = exs_ids /\
  lookup_service exs_tbl [110;111] = None /\
  (exists name r, first_service (services_list exs_tbl exs_ids) [120;46;116;101;115;116] = Some (name, r)) /\
  snd (svc_store exs_tbl [] (SEUpdate exs_ids)) = false.
Proof. exact exs_unknown_before_known. Qed.

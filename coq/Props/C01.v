(** C01: a query blocked by rules is answered locally and never forwarded.
    Only statements here; proofs live in Proofs/Pipeline.v (layer A: AdGuard
    Home's pipeline, for arbitrary rule engines, verdict oracles and
    upstreams) and Proofs/RuleEngine.v (layer B: the engine model). *)
From Coq Require Import List NArith Bool.
From AGH Require Import Base.Run Base.NetAddr Base.RuleEngine Model.Pipeline Proofs.Pipeline Proofs.RuleEngine.
From AGH Require Import Model.PipelineNames Gen.PipelineTables Proofs.PipelineTables.
Import ListNotations.
Local Open Scope N_scope.

(** For all configurations (five modes, any custom addresses and TTL), all
    engines, oracles, upstreams and requests: protection on, and the rule
    lists block the name (no allow-list rule matches, the block engine's
    winning rule is not an exception) or an active blocked service does
    while the lists are silent  ==>  nothing is sent upstream and the answer
    is the synthetic answer of the mode (the table [synthetic]). *)
Theorem C01_blocked_is_local :
  forall allow_eng block_eng sb par c up q,
  blocked_by_spec allow_eng block_eng c q ->
  let o := process allow_eng block_eng sb par c up q in
  o_calls o = [] /\
  r_filtered (o_result o) = true /\ rule_reason (r_reason (o_result o)) /\
  o_resp o = Some (synthetic c (q_name q) (q_qtype q) (ips_from_rules (o_result o))).
Proof. exact blocked_is_local. Qed.
Print Assumptions C01_blocked_is_local.

(** "The answer contains no upstream data": non-interference in the upstream. *)
Theorem C01_no_upstream_data :
  forall allow_eng block_eng sb par c up1 up2 q,
  blocked_by_spec allow_eng block_eng c q ->
  process allow_eng block_eng sb par c up1 q = process allow_eng block_eng sb par c up2 q.
Proof. exact no_upstream_data. Qed.
Print Assumptions C01_no_upstream_data.

(** A query matched by an allow-list rule, or by nothing at all, passes the
    request stage ... *)
Theorem C01_allow_rule_passes :
  forall allow_eng block_eng sb par c q,
  early c q = false -> protection_on c = true -> host_of q <> [] ->
  allow_hit allow_eng (client_settings c q) (host_of q) (q_qtype q) ->
  passes_request_stage allow_eng block_eng sb par c q /\
  r_reason (check_host allow_eng block_eng sb par (client_settings c q) (trim_dot (q_name q)) (q_qtype q))
    = NotFilteredAllowList.
Proof. exact allow_hit_passes. Qed.
Print Assumptions C01_allow_rule_passes.

Theorem C01_unmatched_passes :
  forall allow_eng block_eng sb par c q,
  early c q = false -> nothing_matches allow_eng block_eng sb par c q ->
  passes_request_stage allow_eng block_eng sb par c q /\
  check_host allow_eng block_eng sb par (client_settings c q) (trim_dot (q_name q)) (q_qtype q) = no_result.
Proof. exact nothing_matches_passes. Qed.
Print Assumptions C01_unmatched_passes.

(** ... and is forwarded exactly once with its own name and type; an
    allow-listed query gets the upstream answer exactly as it came (for the
    unmatched case see C02_clean_answer_unchanged). *)
Theorem C01_forwarded_once :
  forall allow_eng block_eng sb par c up q,
  passes_request_stage allow_eng block_eng sb par c q ->
  o_calls (process allow_eng block_eng sb par c up q) = [the_call q] /\
  (up (q_name q) (q_qtype q) = None ->
   o_resp (process allow_eng block_eng sb par c up q) = Some servfail).
Proof. exact forwarded_once. Qed.
Print Assumptions C01_forwarded_once.

Theorem C01_forwarded_intact :
  forall allow_eng block_eng sb par c up q r,
  passes_request_stage allow_eng block_eng sb par c q ->
  r_reason (check_host allow_eng block_eng sb par (client_settings c q) (trim_dot (q_name q)) (q_qtype q))
    = NotFilteredAllowList ->
  up (q_name q) (q_qtype q) = Some r ->
  o_resp (process allow_eng block_eng sb par c up q) = Some r /\
  r_reason (o_result (process allow_eng block_eng sb par c up q)) = NotFilteredAllowList.
Proof. exact allowlisted_intact. Qed.
Print Assumptions C01_forwarded_intact.

(** Protection off (switched off, or paused with the deadline ahead):
    nothing is blocked, whatever the lists, services and oracles say. *)
Theorem C01_protection_off :
  forall allow_eng block_eng sb par c up q,
  protection_on c = false -> early c q = false ->
  let o := process allow_eng block_eng sb par c up q in
  o_result o = no_result /\ o_calls o = [the_call q] /\
  o_resp o = Some (match up (q_name q) (q_qtype q) with Some r => r | None => servfail end).
Proof. exact protection_off. Qed.
Print Assumptions C01_protection_off.

(** Filtering off for the client: the rule engines are not consulted (the
    outcome is the same for any two pairs of engines) and no rule-list
    reason is reported. *)
Theorem C01_client_filtering_off :
  forall a1 b1 a2 b2 sb par c up q,
  st_filtering (client_settings c q) = false ->
  process a1 b1 sb par c up q = process a2 b2 sb par c up q.
Proof. exact client_filtering_off. Qed.
Print Assumptions C01_client_filtering_off.

Theorem C01_client_filtering_off_reason :
  forall a b sb par c up q,
  st_filtering (client_settings c q) = false ->
  let r := r_reason (o_result (process a b sb par c up q)) in
  r <> FilteredBlockList /\ r <> NotFilteredAllowList.
Proof. exact client_filtering_off_reason. Qed.
Print Assumptions C01_client_filtering_off_reason.

(** Layer B: what the engine's verdict means over the rule list. *)
Theorem C01_engine_verdict_class :
  forall rs r, get_dns_basic_rule rs = Some r ->
  In r (remove_badfilter rs) /\
  forall r', In r' (remove_badfilter rs) -> (rule_class r' <= rule_class r)%nat.
Proof. exact basic_rule_max_class. Qed.
Print Assumptions C01_engine_verdict_class.

Theorem C01_engine_verdict_none :
  forall rs, get_dns_basic_rule rs = None <-> remove_badfilter rs = [].
Proof. exact basic_rule_none. Qed.
Print Assumptions C01_engine_verdict_none.

(** Layers together: over the rule lists themselves (any length), "no
    allow-list rule matches and a non-exception block rule is of the highest
    priority class among the matching block rules that survive $badfilter"
    gives the rule-list premise of C01_blocked_is_local for the modelled
    engines. *)
Theorem C01_engine_verdict_spec :
  forall allow block st host qt,
  host <> [] -> st_filtering st = true ->
  no_rule_matches allow (rq_of st host qt) -> wins_block block (rq_of st host qt) ->
  list_blocked (match_request allow) (match_request block) st host qt.
Proof. exact list_blocked_from_rules. Qed.
Print Assumptions C01_engine_verdict_spec.

(** The tie of the two order tables to the source: the host-checker list of
    filtering.New and the stage list of handleDNSRequest, as extracted from
    the current source by tools/ordertables, are exactly the literals
    [checker_order] / [stage_order] of the model (with the unmodelled entries
    at their known places), and the extraction left nothing unresolved.  A
    reordering in the source changes Gen/PipelineTables.v and breaks this. *)
Theorem C01_tables_match_source :
  Gen.PipelineTables.unresolved = [] /\
  Gen.PipelineTables.host_checkers = expected_checkers /\
  Gen.PipelineTables.stages = expected_stages.
Proof. exact tables_match_source. Qed.
Print Assumptions C01_tables_match_source.

(** Non-vacuity: one configuration per blocking mode that meets the premise
    of C01_blocked_is_local, with the modelled engine over "||a.test^". *)
Example C01_blocked_premises_satisfiable :
  forall m, blocked_by_spec (match_request []) (match_request ex_block_rules) (ex_cfg m) ex_query.
Proof. exact ex_blocked_by_spec. Qed.

Example C01_allow_premises_satisfiable :
  allow_hit (match_request ex_allow_rules) (client_settings (ex_cfg MDefault) ex_query) (host_of ex_query) (q_qtype ex_query) /\
  nothing_matches (match_request []) (match_request ex_block_rules) (fun _ => false) (fun _ => false)
    (ex_cfg MDefault) ex_query_other /\
  protection_on ex_cfg_off = false /\ early ex_cfg_off ex_query = false /\
  st_filtering (client_settings (ex_cfg MDefault) ex_query_kid) = false.
Proof. exact ex_other_premises. Qed.

(** C01 (stub while the correspondence is being established). *)
From AGH Require Import Model.Pipeline.
Example C01_stub : True. Proof. exact I. Qed.

(** C19: safe-browsing / parental-control lookups reveal only hash prefixes;
    the cache never changes the verdict.
    Only statements here; proofs live in Proofs/HashPrefix.v.  Everything is
    stated for an arbitrary hash function [sha], an arbitrary public-suffix
    function [pubsuf], an arbitrary TXT suffix and cache time. *)
From Coq Require Import ZArith List.
From AGH Require Import Base.Run Base.Bytes Model.HashPrefix Proofs.HashPrefix Proofs.HashPrefixMatch
  Model.HashPrefixBytes Proofs.HashPrefixBytes Model.HashPrefixLRU Proofs.HashPrefixHist Proofs.HashPrefixLRU
  Model.HashPrefixGlue Proofs.HashPrefixGlue Model.HashPrefixCollide Proofs.HashPrefixCollide.
Import ListNotations.

(** The question is the hex of the 2-byte prefixes, each followed by a dot,
    then the service suffix: a function of the prefix list alone. *)
Theorem C19_only_prefixes_shape : forall suffix hs,
  question suffix hs = concat (map (fun p => hex_of p ++ [dot]) (map prefix_of hs)) ++ suffix.
Proof. exact question_shape. Qed.
Print Assumptions C19_only_prefixes_shape.

(** Non-interference: whatever the cache holds, two hosts whose enumerated
    names have the same prefixes and that both cause a lookup send the very
    same question (full hashes and names do not reach the wire). *)
Theorem C19_only_prefixes : forall sha pubsuf suffix cache_time svc1 svc2 order1 order2 evs1 evs2
    now c host1 host2 q1 q2,
  map prefix_of (hostname_to_hashes sha pubsuf host1)
    = map prefix_of (hostname_to_hashes sha pubsuf host2) ->
  o_question (snd (check sha pubsuf suffix cache_time svc1 order1 evs1 now host1 c)) = Some q1 ->
  o_question (snd (check sha pubsuf suffix cache_time svc2 order2 evs2 now host2 c)) = Some q2 ->
  q1 = q2.
Proof. exact check_question_only_prefixes. Qed.
Print Assumptions C19_only_prefixes.

(** Enumeration: the candidates are the dot-aligned suffixes of the last four
    labels, longest first; the hashed names are those before the first one
    equal to the ICANN public suffix (none is cut for other suffixes, unless
    the name ends in a dot). *)
Theorem C19_enumeration : forall pubsuf host,
  let cands := subdomains (trim_host host) in
  let ps := effective_suffix (pubsuf host) in
  (exists rest, cands = names_to_hash pubsuf host ++ rest /\
                Forall (fun m => m <> ps) (names_to_hash pubsuf host) /\
                (rest = [] \/ exists l3, rest = ps :: l3)) /\
  (forall n, In n cands <-> trim_host host <> [] /\ aligned_suffix n (trim_host host)) /\
  ((count dot host < 4 /\ trim_host host = host)%nat \/
   (exists pre, host = pre ++ dot :: trim_host host /\ count dot (trim_host host) = 3%nat)).
Proof.
  intros. split; [apply names_to_hash_spec|]. split; [intros; apply subdomains_spec|apply trim_host_spec].
Qed.
Print Assumptions C19_enumeration.

(** Verdict of a lookup with an empty cache against a service holding [db]:
    blocked iff the database holds the hash of one of the enumerated names. *)
Theorem C19_verdict : forall sha pubsuf suffix cache_time db now host,
  Forall hash_wf db ->
  fresh_verdict sha pubsuf suffix cache_time db now host = true <->
  exists n, In n (names_to_hash pubsuf host) /\ In (sha n) db.
Proof. exact verdict_spec. Qed.
Print Assumptions C19_verdict.

(** ... and for any service: iff a well-formed string of the answer is the
    full hash of one of the names asked about. *)
Theorem C19_verdict_answer : forall sha pubsuf suffix cache_time svc order evs now host strs hs,
  find_in_cache now [] (hostname_to_hashes sha pubsuf host) = ToRequest hs ->
  svc (map prefix_of hs) = Some strs ->
  o_blocked (snd (check sha pubsuf suffix cache_time svc order evs now host [])) = true <->
  exists h, In h hs /\ In h (parse_txt strs).
Proof. exact verdict_answer_spec. Qed.
Print Assumptions C19_verdict_answer.

(** Cache transparency: for every history of checks (each against a service
    for [db] that may fail or add malformed strings; each with an arbitrary
    iteration order of the Go map and, for every single [cache.Set] it makes,
    an arbitrary set of entries the LRU cache evicts and an arbitrary decision
    whether the item is kept), clock changes and evictions between checks,
    starting from an empty cache: every check that did not fail returns what
    a fresh lookup (at any instant) returns; a failed one says "not blocked"
    and leaves the cache unchanged.  Eviction, at whatever point, only ever
    causes lookups. *)
Theorem C19_cache_transparent : forall sha pubsuf suffix cache_time db ops now0,
  Forall hash_wf db -> Forall (op_ok db) ops ->
  forall now', history_transparent (fresh_verdict sha pubsuf suffix cache_time db now')
                 (now0, []) ops (run sha pubsuf suffix cache_time ops (now0, [])).
Proof. exact cache_transparent. Qed.
Print Assumptions C19_cache_transparent.

(** The invariant behind it, for any starting cache. *)
Theorem C19_cache_invariant : forall sha pubsuf suffix cache_time db svc order evs now host c,
  cache_inv db c -> svc_ok db svc ->
  let res := check sha pubsuf suffix cache_time svc order evs now host c in
  cache_inv db (fst res) /\
  (o_err (snd res) = false -> o_blocked (snd res) = db_verdict sha pubsuf db host) /\
  (o_err (snd res) = true -> fst res = c /\ o_blocked (snd res) = false).
Proof. exact check_transparent. Qed.
Print Assumptions C19_cache_invariant.

(** The database service of the model is a lookup service in that sense. *)
Theorem C19_db_service_ok : forall db, Forall hash_wf db -> svc_ok db (db_service db).
Proof. exact db_service_ok. Qed.
Print Assumptions C19_db_service_ok.

(** Non-vacuity: a concrete history (positive entry stored by a clean prefix
    twin, hit, expiry, failing upstream, eviction) satisfying the premises,
    and two distinct hosts with equal prefix lists. *)
Example C19_premises_satisfiable :
  Forall hash_wf Examples.db /\ Forall (op_ok Examples.db) Examples.ops /\
  map prefix_of (hostname_to_hashes Examples.sha Examples.pubsuf Examples.evil)
  = map prefix_of (hostname_to_hashes Examples.sha Examples.pubsuf Examples.twin)
  /\ Examples.evil <> Examples.twin.
Proof.
  split; [exact db_wf_example|]. split; [apply history_example|exact same_prefixes_example].
Qed.

(** The store as it was before commit c62e74a ([PreFix]: the second loop asked
    only the cache whether a prefix had an answer) did not have this property:
    dropping the freshly stored positive entry before the second loop made the
    next check answer "clean" from the cache for a name in the database. *)
Theorem C19_midstore_eviction_refuted :
  let hs := [Examples.sha Examples.evil] in
  let c := PreFix.store_negative 3650 hs
             (cdel (prefix_of (Examples.sha Examples.evil)) (PreFix.store_positive 3650 hs [])) in
  answer_ok Examples.db (map prefix_of hs) hs /\
  o_blocked (snd (check Examples.sha Examples.pubsuf Examples.sfx Examples.ct
                    (db_service Examples.db) [] [] 0 Examples.evil c)) = false /\
  o_question (snd (check Examples.sha Examples.pubsuf Examples.sfx Examples.ct
                    (db_service Examples.db) [] [] 0 Examples.evil c)) = None /\
  db_verdict Examples.sha Examples.pubsuf Examples.db Examples.evil = true.
Proof. exact midstore_eviction_poisons. Qed.
Print Assumptions C19_midstore_eviction_refuted.

(** Non-vacuity for evictions inside a check: a history on a cache so small
    that the second [Set] of a check evicts what the first stored and a later
    item is not kept at all; all three checks still block, each by a lookup. *)
Example C19_small_cache_premises_satisfiable :
  map (fun r => match snd r with
                | Some o => Some (o_blocked o, match o_question o with Some _ => true | None => false end,
                                  o_sets_left o)
                | None => None end)
      (run Examples.sha Examples.pubsuf Examples.sfx Examples.ct Examples.ops_small (0%Z, []))
  = [Some (true, true, 0%nat); Some (true, true, 0%nat); Some (true, true, 0%nat)]
  /\ Forall (op_ok Examples.db) Examples.ops_small.
Proof. exact midstore_eviction_now. Qed.

(** ** The caller's part: case normalisation *)

(** [DNSFilter.CheckHost] hands the checkers the lower-case form of the name
    (whether or not rule-list filtering is on for the request): two spellings
    of one name give the same hashes, question, verdict and cache, so the
    spelling of the request (DNS 0x20) reaches neither the lookup service nor
    the verdict; [C19_enumeration], [C19_verdict] and [C19_cache_transparent]
    apply to the lower-case form. *)
Theorem C19_case_normalised : forall sha pubsuf suffix ct svc order evs now h1 h2 c,
  lower h1 = lower h2 ->
  check_host sha pubsuf suffix ct svc order evs now h1 c
  = check_host sha pubsuf suffix ct svc order evs now h2 c.
Proof. exact check_host_spelling. Qed.
Print Assumptions C19_case_normalised.

Theorem C19_caller_checks_lower_case : forall sha pubsuf suffix ct svc order evs now h c,
  check_host sha pubsuf suffix ct svc order evs now h c
  = check sha pubsuf suffix ct svc order evs now (lower h) c /\
  check_host sha pubsuf suffix ct svc order evs now (lower h) c
  = check_host sha pubsuf suffix ct svc order evs now h c.
Proof. exact check_host_lower. Qed.
Print Assumptions C19_caller_checks_lower_case.

(** Only prefixes leave, through the caller as well: the question is
    determined by the prefixes of the hashes of the names enumerated from the
    lower-case form. *)
Theorem C19_only_prefixes_caller : forall sha pubsuf suffix ct svc1 svc2 order1 order2 evs1 evs2
    now c host1 host2 q1 q2,
  map prefix_of (hostname_to_hashes sha pubsuf (lower host1))
    = map prefix_of (hostname_to_hashes sha pubsuf (lower host2)) ->
  o_question (snd (check_host sha pubsuf suffix ct svc1 order1 evs1 now host1 c)) = Some q1 ->
  o_question (snd (check_host sha pubsuf suffix ct svc2 order2 evs2 now host2 c)) = Some q2 ->
  q1 = q2.
Proof. exact check_host_question_only_prefixes. Qed.
Print Assumptions C19_only_prefixes_caller.

Example C19_caller_premises_satisfiable :
  caller_name [87; 87; 87; 46; 69; 118; 105; 108; 46; 67; 79; 77]%N = [119; 119; 119; 46; 101; 118; 105; 108; 46; 99; 111; 109]%N.
Proof. exact caller_example. Qed.

(** ** Blocked needs a full hash (round 3) *)

(** For every cache content (no invariant assumed), every service, map order
    and eviction behaviour: a check answers "blocked" only if one of the full
    hashes it had, an unexpired cache entry's or a well-formed string's of the
    answer to its question, is equal in all 32 bytes to the hash of an
    enumerated name. *)
Theorem C19_verdict_needs_full_hash : forall sha pubsuf suffix cache_time svc order evs now host c,
  o_blocked (snd (check sha pubsuf suffix cache_time svc order evs now host c)) = true ->
  exists h, In h (hostname_to_hashes sha pubsuf host) /\
            full_hash_source sha pubsuf svc now host c h.
Proof. exact verdict_needs_full_hash. Qed.
Print Assumptions C19_verdict_needs_full_hash.

(** With the exact cache and a service for [db]: if no hash of the database is
    the hash of an enumerated name, nothing is blocked, fresh or cached,
    whatever prefixes or remaining bytes are shared. *)
Theorem C19_no_full_hash_never_blocks : forall sha pubsuf suffix cache_time db svc order evs now host c,
  cache_inv db c -> svc_ok db svc ->
  (forall d, In d db -> ~ In d (hostname_to_hashes sha pubsuf host)) ->
  o_blocked (snd (check sha pubsuf suffix cache_time svc order evs now host c)) = false.
Proof. exact no_full_hash_never_blocks. Qed.
Print Assumptions C19_no_full_hash_never_blocks.

(** A database of hashes spliced from the 2-byte prefix of one enumerated
    name's hash and the remaining 30 bytes of another one's never blocks. *)
Theorem C19_spliced_hash_never_blocks : forall sha pubsuf suffix cache_time db svc order evs now host c,
  cache_inv db c -> svc_ok db svc ->
  (forall x y, In x (hostname_to_hashes sha pubsuf host) -> In y (hostname_to_hashes sha pubsuf host) ->
               rest_of x = rest_of y -> x = y) ->
  (forall d, In d db -> exists a b, In a (hostname_to_hashes sha pubsuf host) /\
                                    In b (hostname_to_hashes sha pubsuf host) /\
                                    spliced d a b /\ prefix_of a <> prefix_of b) ->
  o_blocked (snd (check sha pubsuf suffix cache_time svc order evs now host c)) = false.
Proof. exact spliced_hash_never_blocks. Qed.
Print Assumptions C19_spliced_hash_never_blocks.

(** Non-vacuity: two spliced hashes for a chain of two names; served, cached,
    clean on the fresh lookup, from the cache, and for the parent alone. *)
Example C19_spliced_premises_satisfiable :
  let chain := hostname_to_hashes Examples.sha Examples.pubsuf Examples.host1 in
  chain = [Examples.sha SplicedExample.c_evil; Examples.sha Examples.evil] /\
  Forall hash_wf SplicedExample.db_sp /\
  (forall x y, In x chain -> In y chain -> rest_of x = rest_of y -> x = y) /\
  (forall d, In d SplicedExample.db_sp ->
     exists a b, In a chain /\ In b chain /\ spliced d a b /\ prefix_of a <> prefix_of b) /\
  Forall (op_ok SplicedExample.db_sp) SplicedExample.ops_sp /\
  map (fun r => match snd r with
                | Some o => Some (o_blocked o, match o_question o with Some _ => true | None => false end)
                | None => None end)
      (run Examples.sha Examples.pubsuf Examples.sfx Examples.ct SplicedExample.ops_sp (0%Z, []))
  = [Some (false, true); Some (false, false); Some (false, false)] /\
  map (fun e => length (c_hashes (snd e)))
      (snd (fst (step Examples.sha Examples.pubsuf Examples.sfx Examples.ct
                   (OCheck Examples.host1 (db_service SplicedExample.db_sp) SplicedExample.order_sp []) (0%Z, []))))
  = [1%nat; 1%nat].
Proof. exact spliced_example. Qed.

(** Comparing only the 30 bytes after the prefix (red-team change C19-F) is
    refuted by that database: it matches although no database hash is a hash
    of the chain. *)
Theorem C19_rest_only_match_refuted :
  let chain := hostname_to_hashes Examples.sha Examples.pubsuf Examples.host1 in
  (forall d, In d SplicedExample.db_sp -> ~ In d chain) /\
  find_match chain SplicedExample.db_sp = false /\
  SplicedExample.find_match_rest chain SplicedExample.db_sp = true.
Proof. exact rest_only_match_refuted. Qed.
Print Assumptions C19_rest_only_match_refuted.

(** ** Cache items in bytes (round 3) *)

(** [fromCacheItem]: the value stored for an entry of [n] hashes is
    [8 + 32 * n] bytes, and [toCacheItem] reads back what was stored. *)
Theorem C19_item_encoding : forall it,
  hashes_sized (c_hashes it) ->
  Z.of_nat (length (encode_item it)) = item_bytes it /\
  ((0 <= c_expiry it < 2 ^ 63)%Z -> decode_item (encode_item it) = it).
Proof. exact item_encoding. Qed.
Print Assumptions C19_item_encoding.

(** One [Set] on a cache of [max] bytes under the golibs condition (an element
    larger than [max] is refused, otherwise enough elements are deleted for it
    to fit): the cache stays within [max] bytes, whichever elements go. *)
Theorem C19_set_within_capacity : forall max e p it c,
  (0 < max)%Z -> (cache_bytes c <= max)%Z -> set_fits max e p it c = true ->
  (cache_bytes (cset_o e p it c) <= max)%Z.
Proof. exact set_within_capacity. Qed.
Print Assumptions C19_set_within_capacity.

(** ... and so through whole histories: if every [Set] of every check
    satisfies that condition on the cache as it is then ([run_fits]; the
    evaluator computes it on every history of the harness from the recorded
    evictions), the cache never exceeds the configured size. *)
Theorem C19_cache_within_size : forall sha pubsuf suffix cache_time max,
  (0 < max)%Z -> forall ops st,
  (cache_bytes (snd st) <= max)%Z ->
  run_fits sha pubsuf suffix cache_time max ops st = true ->
  Forall (fun r => (cache_bytes (snd (fst r)) <= max)%Z) (run sha pubsuf suffix cache_time ops st).
Proof. exact run_within_capacity. Qed.
Print Assumptions C19_cache_within_size.

Example C19_bytes_premises_satisfiable :
  let h1 := Examples.sha Examples.evil in
  let h2 := Examples.sha Examples.twin ++ [] in
  let p1 := prefix_of h1 in
  let p2 : prefix := [7%N; 7%N] in
  let it1 := {| c_expiry := 3650; c_hashes := [h1] |} in
  let it2 := {| c_expiry := 3650; c_hashes := [h2] |} in
  let c := cset p1 it1 [] in
  entry_bytes p1 it1 = 42%Z /\ cache_bytes c = 42%Z /\
  Z.of_nat (length (encode_item it1)) = 40%Z /\ decode_item (encode_item it1) = it1 /\
  set_fits 60 ([], true) p2 it2 c = false /\
  set_fits 60 ([p1], true) p2 it2 c = true /\
  set_fits 100 ([p1], true) p2 it2 c = false /\
  cache_bytes (cset_o ([p1], true) p2 it2 c) = 42%Z /\
  set_fits 41 ([], false) p2 it2 [] = true /\ set_fits 41 ([], true) p2 it2 [] = false /\
  run_fits Examples.sha Examples.pubsuf Examples.sfx Examples.ct 45 ops45 (0%Z, []) = true /\
  map (fun r => (cache_bytes (snd (fst r)), match snd r with Some o => o_sets_left o | None => 9%nat end))
      (run Examples.sha Examples.pubsuf Examples.sfx Examples.ct ops45 (0%Z, []))
  = [(10%Z, 0%nat); (42%Z, 0%nat); (42%Z, 0%nat)].
Proof. exact set_example. Qed.

(** ** The database changes between checks (round 4) *)

(** What is asked, for every cache content (no invariant), service, map order
    and eviction behaviour: if a question is sent, it holds exactly the prefixes
    of the enumerated names that have no entry or an expired one, one label per
    such name in the order of the names, and nothing else. *)
Theorem C19_question_exact : forall sha pubsuf suffix cache_time svc order evs now host c q,
  o_question (snd (check sha pubsuf suffix cache_time svc order evs now host c)) = Some q ->
  unanswered sha pubsuf now c host <> [] /\
  q = question suffix (unanswered sha pubsuf now c host).
Proof. exact question_exact. Qed.
Print Assumptions C19_question_exact.

(** A name the service lists NOW and for whose prefix the cache holds no valid
    entry blocks the host, whatever else the cache holds (valid entries for
    other names of the chain included), whenever the service answers. *)
Theorem C19_listed_unanswered_blocks : forall sha pubsuf suffix cache_time db svc order evs now host c h,
  svc_ok db svc ->
  In h (hostname_to_hashes sha pubsuf host) -> is_live now c h = false -> In h db ->
  o_err (snd (check sha pubsuf suffix cache_time svc order evs now host c)) = false ->
  o_blocked (snd (check sha pubsuf suffix cache_time svc order evs now host c)) = true.
Proof. exact listed_unanswered_blocks. Qed.
Print Assumptions C19_listed_unanswered_blocks.

(** One check against the database [db] as it is now, on a cache every entry of
    which is exact for the database of its snapshot [g p] (the database as it
    was when the entry was stored): the question is the expected one, the
    verdict judges every enumerated name by the snapshot of its prefix if the
    entry is valid and by [db] otherwise, and afterwards every entry is exact
    for its snapshot again, the rewritten ones having [db]. *)
Theorem C19_changing_db_check : forall sha pubsuf suffix cache_time db g svc order evs now host c,
  snap_inv g c -> svc_ok db svc ->
  let res := check sha pubsuf suffix cache_time svc order evs now host c in
  snap_inv (snap_step db c (fst res) g) (fst res) /\
  o_question (snd res) = expected_question sha pubsuf suffix g now c host /\
  (o_err (snd res) = false -> o_blocked (snd res) = snap_verdict sha pubsuf g db now c host) /\
  (o_err (snd res) = true -> fst res = c /\ o_blocked (snd res) = false).
Proof. exact check_snap. Qed.
Print Assumptions C19_changing_db_check.

(** The verdict in terms of names. *)
Theorem C19_snap_verdict : forall sha pubsuf g db now c host,
  snap_verdict sha pubsuf g db now c host = true <->
  exists n, In n (names_to_hash pubsuf host) /\
            (is_live now c (sha n) = true -> In (sha n) (g (prefix_of (sha n)))) /\
            (is_live now c (sha n) = false -> In (sha n) db).
Proof. exact snap_verdict_spec. Qed.
Print Assumptions C19_snap_verdict.

(** If the snapshots of the valid entries say about the enumerated names what
    the database says now, the verdict is the one of a lookup with an empty
    cache. *)
Theorem C19_snap_verdict_current : forall sha pubsuf g db now c host,
  (forall h, In h (hostname_to_hashes sha pubsuf host) -> is_live now c h = true ->
             (In h (g (prefix_of h)) <-> In h db)) ->
  snap_verdict sha pubsuf g db now c host = db_verdict sha pubsuf db host.
Proof. exact snap_verdict_current. Qed.
Print Assumptions C19_snap_verdict_current.

(** Cache transparency with a changing database: for every history of checks
    (each against a service for the database as it is at that point; failing
    services, malformed strings, any map order, any eviction at any [Set]),
    clock changes, evictions and replacements of the database, from an empty
    cache: every check asks and answers as [C19_changing_db_check] says, with
    the snapshots kept by [snap_next]. *)
Theorem C19_changing_db_transparent : forall sha pubsuf suffix cache_time ops db0 now0,
  hops_ok db0 ops ->
  hist_ok sha pubsuf suffix (fun _ => db0) (db0, (now0, [])) ops
          (hrun sha pubsuf suffix cache_time ops (db0, (now0, []))).
Proof. exact changing_db_transparent. Qed.
Print Assumptions C19_changing_db_transparent.

(** The theorem of round 1 ([C19_cache_transparent]) as the special case of a
    history without database changes. *)
Theorem C19_cache_transparent_constant_db : forall sha pubsuf suffix cache_time db ops now0,
  Forall hash_wf db -> Forall (op_ok db) ops ->
  forall now', history_transparent (fresh_verdict sha pubsuf suffix cache_time db now')
                 (now0, []) ops (run sha pubsuf suffix cache_time ops (now0, [])).
Proof. exact constant_db_transparent. Qed.
Print Assumptions C19_cache_transparent_constant_db.

(** Non-vacuity: the parent is checked, later the child, the service lists the
    parent, the parent's entry expires first: its prefix alone is asked and the
    child is blocked; the service drops the name, the cache goes on blocking
    until the entries expire. *)
Example C19_changing_db_premises_satisfiable :
  hops_ok [] HistExample.ops /\
  map (fun r => match snd r with
                | Some o => Some (o_blocked o, match o_question o with
                                               | Some q => Some (length q)
                                               | None => None end)
                | None => None end)
      (hrun Examples.sha Examples.pubsuf Examples.sfx Examples.ct HistExample.ops ([], (0%Z, [])))
  = [Some (false, Some 8%nat); None; Some (false, Some 8%nat); None; Some (false, None); None;
     Some (true, Some 8%nat); None; Some (true, None); None; Some (false, Some 13%nat)].
Proof. exact hist_example. Qed.

(** [findInCache] without the write [hashes[i] = hash] in the "expired" branch
    (red-team change C19-G): with the child's entry valid and the parent's
    expired it asks for the child's hash again and not for the parent's. *)
Theorem C19_expired_slot_not_written_refuted :
  let chain := hostname_to_hashes Examples.sha Examples.pubsuf Examples.host1 in
  let c : cache := [(prefix_of (Examples.sha HistExample.c_evil), {| c_expiry := 5450; c_hashes := [] |});
                    (prefix_of (Examples.sha Examples.evil), {| c_expiry := 3650; c_hashes := [] |})] in
  let now := (3700 * ns_sec)%Z in
  chain = [Examples.sha HistExample.c_evil; Examples.sha Examples.evil] /\
  unanswered Examples.sha Examples.pubsuf now c Examples.host1 = [Examples.sha Examples.evil] /\
  find_in_cache now c chain = ToRequest [Examples.sha Examples.evil] /\
  HistExample.fic_loop_G now c (length chain) 0 chain 0 = ToRequest [Examples.sha HistExample.c_evil].
Proof. exact expired_slot_not_written_refuted. Qed.
Print Assumptions C19_expired_slot_not_written_refuted.

(** ** The library cache (round 4): golibs cache with EnableLRU and MaxSize *)

(** For every sequence of [Get], [Set] and [Del]: keys stay unique, the byte
    counter is the sum of the elements, the sum is within the configured size
    ([eff_max]: 0 means the largest uint), and the contents are those of the
    finite map of Model/HashPrefix.v under the same operations, a [Set] being
    [cset_o] with the keys the library deleted for it and whether it kept the
    element. *)
Theorem C19_lru_refines_map : forall max, (0 <= max)%Z -> forall ops l c,
  lru_ok max l -> ceq (l_items l) c ->
  let r := fold_left (fun lc o => (lop_step max o (fst lc), lop_abs max o (fst lc) (snd lc))) ops (l, c) in
  lru_ok max (fst r) /\ ceq (l_items (fst r)) (snd r).
Proof. exact lops_refine. Qed.
Print Assumptions C19_lru_refines_map.

Theorem C19_lru_get : forall max p l, lru_ok max l ->
  lru_ok max (fst (lru_get p l)) /\
  ceq (l_items (fst (lru_get p l))) (l_items l) /\
  snd (lru_get p l) = cget p (l_items l).
Proof. exact lru_get_ok. Qed.
Print Assumptions C19_lru_get.

(** One [Set]; an element that is not kept is larger than the whole cache, and
    then nothing at all changes. *)
Theorem C19_lru_set : forall max p it l, (0 <= max)%Z -> lru_ok max l ->
  let l' := fst (lru_set max p it l) in
  let e := snd (lru_set max p it l) in
  lru_ok max l' /\ ceq (l_items l') (cset_o e p it (l_items l)) /\
  (snd e = false -> l' = l /\ fst e = [] /\ (entry_bytes p it > eff_max max)%Z).
Proof. exact lru_set_ok. Qed.
Print Assumptions C19_lru_set.

(** The size condition round 3 asked of every recorded [Set] ([set_fits]:
    refused iff larger than the cache, otherwise exactly as many deletions as
    needed) holds for every [Set] of the library cache. *)
Theorem C19_lru_set_fits : forall max p it l, (0 < max)%Z -> lru_ok max l ->
  set_fits max (snd (lru_set max p it l)) p it (l_items l) = true.
Proof. exact lru_set_fits. Qed.
Print Assumptions C19_lru_set_fits.

(** [Check] on the library cache is [Check] on its map with the events the
    library produces. *)
Theorem C19_check_on_lru : forall max, (0 <= max)%Z ->
  forall sha pubsuf suffix cache_time svc order now host l, lru_ok max l ->
  let '(l', out, es) := check_lru sha pubsuf suffix cache_time max svc order now host l in
  lru_ok max l' /\
  ceq (l_items l') (fst (check sha pubsuf suffix cache_time svc order es now host (l_items l))) /\
  snd (check sha pubsuf suffix cache_time svc order es now host (l_items l)) = out.
Proof. exact check_lru_sim. Qed.
Print Assumptions C19_check_on_lru.

(** ... and so for whole histories. *)
Theorem C19_run_lru_refines : forall max, (0 <= max)%Z ->
  forall sha pubsuf suffix cache_time ops now l c, lru_ok max l -> ceq (l_items l) c ->
  Forall2 (res_agree max)
    (run_lru sha pubsuf suffix cache_time max ops (now, l))
    (run sha pubsuf suffix cache_time (with_lru_events sha pubsuf suffix cache_time max ops (now, l)) (now, c)).
Proof. exact run_lru_refines. Qed.
Print Assumptions C19_run_lru_refines.

(** The cache never exceeds the configured size, through every history and
    whatever the service answers: no condition on the [Set]s any more
    (compare [C19_cache_within_size]). *)
Theorem C19_lru_within_size : forall max, (0 <= max)%Z ->
  forall sha pubsuf suffix cache_time ops st, lru_ok max (snd (snd st)) ->
  Forall (fun r => lru_ok max (snd (snd (fst (fst r)))))
         (hrun_lru sha pubsuf suffix cache_time max ops st).
Proof. exact hrun_lru_within_size. Qed.
Print Assumptions C19_lru_within_size.

(** Cache transparency on the library cache with a changing database. *)
Theorem C19_lru_changing_db_transparent : forall max, (0 <= max)%Z ->
  forall sha pubsuf suffix cache_time ops db0 now0,
  hops_ok db0 ops ->
  hist_ok_lru max sha pubsuf suffix (fun _ => db0) (db0, (now0, lru_empty)) ops
              (hrun_lru sha pubsuf suffix cache_time max ops (db0, (now0, lru_empty))).
Proof. exact lru_changing_db_transparent. Qed.
Print Assumptions C19_lru_changing_db_transparent.

(** An element larger than the whole cache (two hashes under one prefix, 74
    bytes, cache of 45): the library refuses it and deletes nothing; the store
    as it is leaves no entry and every check goes upstream and blocks; the
    second loop of before commit c62e74a stores an empty entry and the next
    check says "clean" from the cache for a listed name. *)
Theorem C19_refused_element_prefix_store_refuted :
  let it2 := {| c_expiry := 3650; c_hashes := LRUExample.db2 |} in
  let p := prefix_of (Examples.sha Examples.evil) in
  entry_bytes p it2 = 74%Z /\
  lru_set 45 p it2 lru_empty = (lru_empty, ([], false)) /\
  hops_ok LRUExample.db2 LRUExample.ops2 /\
  map (fun r => (match snd (fst r) with
                 | Some o => Some (o_blocked o, match o_question o with Some _ => true | None => false end)
                 | None => None end, snd r, map fst (l_items (snd (snd (fst (fst r)))))))
      (hrun_lru Examples.sha Examples.pubsuf Examples.sfx Examples.ct 45 LRUExample.ops2
                (LRUExample.db2, (0%Z, lru_empty)))
  = [(Some (true, true), [([], false)], []);
     (Some (true, true), [([], false)], []);
     (Some (true, true), [([], false); ([], true)], [prefix_of (Examples.sha HistExample.c_evil)])] /\
  let l := LRUExample.store_neg_lru_prefix 45 3650 [Examples.sha Examples.evil]
             (fst (lru_set 45 p it2 lru_empty)) in
  o_blocked (snd (fst (check_lru Examples.sha Examples.pubsuf Examples.sfx Examples.ct 45
                         (db_service LRUExample.db2) LRUExample.ord 0 Examples.evil l))) = false /\
  o_question (snd (fst (check_lru Examples.sha Examples.pubsuf Examples.sfx Examples.ct 45
                         (db_service LRUExample.db2) LRUExample.ord 0 Examples.evil l))) = None /\
  db_verdict Examples.sha Examples.pubsuf LRUExample.db2 Examples.evil = true.
Proof. exact refused_element. Qed.
Print Assumptions C19_refused_element_prefix_store_refuted.

(** Non-vacuity of the order: four elements of 10 bytes in 45 bytes, the first
    read again: the fifth pushes out the second; one of 42 bytes pushes out
    all four. *)
Example C19_lru_order_premises_satisfiable :
  let neg := {| c_expiry := 3650; c_hashes := [] |} in
  let k (i : Z) : prefix := [Z.to_N i; Z.to_N i] in
  let ops := [LSet (k 1%Z) neg; LSet (k 2%Z) neg; LSet (k 3%Z) neg; LSet (k 4%Z) neg; LGet (k 1%Z);
              LSet (k 5%Z) neg; LSet (k 6%Z) {| c_expiry := 3650; c_hashes := [repeat 7%N 32] |}] in
  map (fun l => (map fst (l_items l), l_size l))
      (snd (fold_left (fun (a : lru * list lru) o => let l := lop_step 45 o (fst a) in (l, snd a ++ [l]))
                      ops (lru_empty, [])))
  = [([k 1%Z], 10); ([k 1%Z; k 2%Z], 20); ([k 1%Z; k 2%Z; k 3%Z], 30); ([k 1%Z; k 2%Z; k 3%Z; k 4%Z], 40);
     ([k 2%Z; k 3%Z; k 4%Z; k 1%Z], 40); ([k 3%Z; k 4%Z; k 1%Z; k 5%Z], 40); ([k 6%Z], 42)]%Z.
Proof. exact lru_order_example. Qed.

(** ** The glue between DNSFilter.CheckHost and the checkers (round 5) *)

(** The test at the top of checkSafeBrowsing / checkParental does not look at
    the host: for every two hosts it gives the same answer, and that answer is
    "protection is on and the service is enabled for the request". *)
Theorem C19_glue_no_host_short_cut : forall s st qt h1 h2, glue_calls s st qt h1 = glue_calls s st qt h2.
Proof. exact glue_calls_host_independent. Qed.
Print Assumptions C19_glue_no_host_short_cut.

Theorem C19_glue_calls_exactly_switches : forall s st qt h,
  glue_calls s st qt h = true <-> st_protection st = true /\ svc_enabled s st = true.
Proof. exact glue_calls_spec. Qed.
Print Assumptions C19_glue_calls_exactly_switches.

(** Through CheckHost, for any two checkers: the safe-browsing checker is
    called exactly when the name is not the root query and protection and
    safe browsing are on, and it is called with the lower-case name. *)
Theorem C19_glue_safebrowsing_sees : forall (C1 C2 : Type) (sb : bytes -> C1 -> C1 * check_out)
    (pc : bytes -> C2 -> C2 * check_out) st qt spelled c1 c2,
  match g_sb (snd (glue_check_host sb pc st qt spelled c1 c2)) with
  | Some (h, o) =>
      spelled <> [] /\ st_protection st = true /\ st_safebrowsing st = true /\
      h = lower spelled /\ o = snd (sb (lower spelled) c1)
  | None => spelled = [] \/ st_protection st = false \/ st_safebrowsing st = false
  end.
Proof. exact @glue_sb_called. Qed.
Print Assumptions C19_glue_safebrowsing_sees.

(** The parental-control checker likewise, unless the safe-browsing checker
    failed or blocked (then it is not asked at all). *)
Theorem C19_glue_parental_sees : forall (C1 C2 : Type) (sb : bytes -> C1 -> C1 * check_out)
    (pc : bytes -> C2 -> C2 * check_out) st qt spelled c1 c2,
  let out := snd (glue_check_host sb pc st qt spelled c1 c2) in
  match g_pc out with
  | Some (h, o) =>
      spelled <> [] /\ st_protection st = true /\ st_parental st = true /\ h = lower spelled /\
      o = snd (pc (lower spelled) c2) /\
      match g_sb out with Some (_, o1) => o_err o1 = false /\ o_blocked o1 = false | None => True end
  | None =>
      spelled = [] \/ st_protection st = false \/ st_parental st = false \/
      exists h o1, g_sb out = Some (h, o1) /\ (o_err o1 = true \/ o_blocked o1 = true)
  end.
Proof. exact @glue_pc_called. Qed.
Print Assumptions C19_glue_parental_sees.

(** What the code's use of publicsuffix.PublicSuffix yields, exactly: nothing
    is hashed iff the name is empty or the cut of the name to its last four
    labels IS its ICANN-section public suffix (for a name of at most four
    labels: the name is an ICANN suffix itself).  The section flag decides. *)
Theorem C19_enumeration_empty_iff : forall pubsuf host,
  names_to_hash pubsuf host = [] <->
  host = [] \/ (snd (pubsuf host) = true /\ fst (pubsuf host) = trim_host host).
Proof. exact names_to_hash_nil_iff. Qed.
Print Assumptions C19_enumeration_empty_iff.

(** Hence a non-empty name of at most four labels whose suffix is not of the
    ICANN section (a private-section suffix itself, such as github.io; a
    single label under the default rule; any name on such a suffix) has
    itself among the hashed names. *)
Theorem C19_non_icann_name_enumerated : forall pubsuf host,
  host <> [] -> snd (pubsuf host) = false -> (count dot host < 4)%nat ->
  In host (names_to_hash pubsuf host).
Proof. exact non_icann_own_name_enumerated. Qed.
Print Assumptions C19_non_icann_name_enumerated.

(** And where nothing is enumerated the Checker neither asks nor blocks. *)
Theorem C19_nothing_enumerated_nothing_asked : forall sha pubsuf suffix ct svc order evs now host c,
  names_to_hash pubsuf host = [] ->
  check sha pubsuf suffix ct svc order evs now host c
  = (c, {| o_blocked := false; o_err := false; o_question := None; o_sets_left := length evs |}).
Proof. exact nothing_enumerated_nothing_asked. Qed.
Print Assumptions C19_nothing_enumerated_nothing_asked.

(** Composition.  For EVERY host as spelled in the request, every pair of
    databases, caches exact for them, services that may fail, and every
    settings: the reason CheckHost gives is [glue_verdict]: safe browsing if
    protection and safe browsing are on and some enumerated name of the
    lower-case host is in the safe-browsing database; otherwise parental if
    protection and parental control are on and some enumerated name is in the
    parental database; otherwise not filtered; an error never blocks; the
    caches stay exact. *)
Theorem C19_glue_blocks_iff_listed : forall sha pubsuf sfx1 sfx2 ct1 ct2 db1 db2 svc1 svc2
    ord1 ord2 ev1 ev2 now1 now2 st qt spelled c1 c2,
  cache_inv db1 c1 -> cache_inv db2 c2 -> svc_ok db1 svc1 -> svc_ok db2 svc2 ->
  let res := glue_check_host (check sha pubsuf sfx1 ct1 svc1 ord1 ev1 now1)
                             (check sha pubsuf sfx2 ct2 svc2 ord2 ev2 now2) st qt spelled c1 c2 in
  cache_inv db1 (fst (fst res)) /\ cache_inv db2 (snd (fst res)) /\
  (g_err (snd res) = false ->
   g_reason (snd res) = glue_verdict (db_verdict sha pubsuf db1) (db_verdict sha pubsuf db2) st spelled) /\
  (g_err (snd res) = true -> g_reason (snd res) = RNotFiltered).
Proof. exact glue_blocks_iff_listed. Qed.
Print Assumptions C19_glue_blocks_iff_listed.

(** [glue_verdict] in words. *)
Theorem C19_glue_verdict_listed : forall sha pubsuf db1 db2 st spelled,
  let r := glue_verdict (db_verdict sha pubsuf db1) (db_verdict sha pubsuf db2) st spelled in
  (r = RSafeBrowsing <-> svc_on SafeBrowsing st = true /\ listed sha pubsuf db1 (lower spelled)) /\
  (r = RParental <-> ~ (svc_on SafeBrowsing st = true /\ listed sha pubsuf db1 (lower spelled)) /\
                     svc_on Parental st = true /\ listed sha pubsuf db2 (lower spelled)) /\
  (r <> RNotFiltered <-> (svc_on SafeBrowsing st = true /\ listed sha pubsuf db1 (lower spelled)) \/
                         (svc_on Parental st = true /\ listed sha pubsuf db2 (lower spelled))).
Proof. exact glue_verdict_listed. Qed.
Print Assumptions C19_glue_verdict_listed.

(** With the service enabled for the request: blocked iff listed. *)
Theorem C19_glue_safebrowsing_iff_listed : forall sha pubsuf sfx1 sfx2 ct1 ct2 db1 db2 svc1 svc2
    ord1 ord2 ev1 ev2 now1 now2 st qt spelled c1 c2,
  cache_inv db1 c1 -> cache_inv db2 c2 -> svc_ok db1 svc1 -> svc_ok db2 svc2 ->
  st_protection st = true -> st_safebrowsing st = true ->
  let out := snd (glue_check_host (check sha pubsuf sfx1 ct1 svc1 ord1 ev1 now1)
                                  (check sha pubsuf sfx2 ct2 svc2 ord2 ev2 now2) st qt spelled c1 c2) in
  g_err out = false -> (g_reason out = RSafeBrowsing <-> listed sha pubsuf db1 (lower spelled)).
Proof. exact glue_safebrowsing_iff_listed. Qed.
Print Assumptions C19_glue_safebrowsing_iff_listed.

Theorem C19_glue_parental_iff_listed : forall sha pubsuf sfx1 sfx2 ct1 ct2 db1 db2 svc1 svc2
    ord1 ord2 ev1 ev2 now1 now2 st qt spelled c1 c2,
  cache_inv db1 c1 -> cache_inv db2 c2 -> svc_ok db1 svc1 -> svc_ok db2 svc2 ->
  st_protection st = true -> st_safebrowsing st = false -> st_parental st = true ->
  let out := snd (glue_check_host (check sha pubsuf sfx1 ct1 svc1 ord1 ev1 now1)
                                  (check sha pubsuf sfx2 ct2 svc2 ord2 ev2 now2) st qt spelled c1 c2) in
  g_err out = false -> (g_reason out = RParental <-> listed sha pubsuf db2 (lower spelled)).
Proof. exact glue_parental_iff_listed. Qed.
Print Assumptions C19_glue_parental_iff_listed.

(** In particular: a listed name of at most four labels whose public suffix
    is not of the ICANN section (the name may BE that suffix, or a single
    label) is blocked. *)
Theorem C19_glue_listed_non_icann_name_blocks : forall sha pubsuf sfx1 sfx2 ct1 ct2 db1 db2 svc1 svc2
    ord1 ord2 ev1 ev2 now1 now2 st qt spelled c1 c2,
  cache_inv db1 c1 -> cache_inv db2 c2 -> svc_ok db1 svc1 -> svc_ok db2 svc2 ->
  st_protection st = true -> st_safebrowsing st = true ->
  spelled <> [] -> snd (pubsuf (lower spelled)) = false -> (count dot (lower spelled) < 4)%nat ->
  In (sha (lower spelled)) db1 ->
  let out := snd (glue_check_host (check sha pubsuf sfx1 ct1 svc1 ord1 ev1 now1)
                                  (check sha pubsuf sfx2 ct2 svc2 ord2 ev2 now2) st qt spelled c1 c2) in
  g_err out = false -> g_reason out = RSafeBrowsing.
Proof. exact glue_listed_non_icann_name_blocks. Qed.
Print Assumptions C19_glue_listed_non_icann_name_blocks.

(** Over every history of requests through one DNSFilter (the two Checkers
    keep their caches between requests): the caches never change what the
    glue answers. *)
Theorem C19_glue_history_blocks_iff_listed : forall sha pubsuf sfx1 sfx2 ct1 ct2 db1 db2 svc1 svc2
    ord1 ord2 ev1 ev2 now1 now2,
  svc_ok db1 svc1 -> svc_ok db2 svc2 ->
  forall reqs c1 c2, cache_inv db1 c1 -> cache_inv db2 c2 ->
  Forall2 (fun (req : settings * qtype * bytes) out =>
             (g_err out = false ->
              g_reason out = glue_verdict (db_verdict sha pubsuf db1) (db_verdict sha pubsuf db2)
                                          (fst (fst req)) (snd req)) /\
             (g_err out = true -> g_reason out = RNotFiltered))
          reqs (glue_run (check sha pubsuf sfx1 ct1 svc1 ord1 ev1 now1)
                         (check sha pubsuf sfx2 ct2 svc2 ord2 ev2 now2) reqs c1 c2).
Proof. exact glue_history_blocks_iff_listed. Qed.
Print Assumptions C19_glue_history_blocks_iff_listed.

(** The same for any two checkers that are transparent for verdicts v1, v2
    (the statement does not depend on how the Checker is implemented). *)
Theorem C19_glue_any_transparent_checkers : forall (C1 C2 : Type) (inv1 : C1 -> Prop) (inv2 : C2 -> Prop)
    v1 v2 sb pc,
  checker_transparent inv1 v1 sb -> checker_transparent inv2 v2 pc -> v1 [] = false -> v2 [] = false ->
  forall reqs c1 c2, inv1 c1 -> inv2 c2 ->
  Forall2 (fun (req : settings * qtype * bytes) out =>
             (g_err out = false -> g_reason out = glue_verdict v1 v2 (fst (fst req)) (snd req)) /\
             (g_err out = true -> g_reason out = RNotFiltered))
          reqs (glue_run sb pc reqs c1 c2).
Proof. exact @glue_run_spec. Qed.
Print Assumptions C19_glue_any_transparent_checkers.

(** Privacy through the glue: what a Checker behind it sends is the question
    of [Check] for the lower-case name: exactly the prefixes of its
    enumerated names that have no valid cache entry. *)
Theorem C19_glue_safebrowsing_question_exact : forall (C2 : Type) sha pubsuf sfx ct svc ord ev now
    (pc : bytes -> C2 -> C2 * check_out) st qt spelled c1 c2 h o q,
  g_sb (snd (glue_check_host (check sha pubsuf sfx ct svc ord ev now) pc st qt spelled c1 c2)) = Some (h, o) ->
  o_question o = Some q ->
  h = lower spelled /\
  unanswered sha pubsuf now c1 (lower spelled) <> [] /\
  q = question sfx (unanswered sha pubsuf now c1 (lower spelled)).
Proof. exact @glue_safebrowsing_question_exact. Qed.
Print Assumptions C19_glue_safebrowsing_question_exact.

Theorem C19_glue_parental_question_exact : forall (C1 : Type) sha pubsuf sfx ct svc ord ev now
    (sb : bytes -> C1 -> C1 * check_out) st qt spelled c1 c2 h o q,
  g_pc (snd (glue_check_host sb (check sha pubsuf sfx ct svc ord ev now) st qt spelled c1 c2)) = Some (h, o) ->
  o_question o = Some q ->
  h = lower spelled /\
  unanswered sha pubsuf now c2 (lower spelled) <> [] /\
  q = question sfx (unanswered sha pubsuf now c2 (lower spelled)).
Proof. exact @glue_parental_question_exact. Qed.
Print Assumptions C19_glue_parental_question_exact.

(** Non-vacuity: a toy suffix list with an ICANN suffix (com), a private one
    (github.io) and the default rule; the private suffix and the single label
    are enumerated and blocked when listed, the ICANN suffix is not. *)
Example C19_glue_premises_satisfiable :
  Forall hash_wf GlueExamples.db /\ cache_inv GlueExamples.db [] /\
  svc_ok GlueExamples.db (db_service GlueExamples.db) /\
  snd (GlueExamples.pubsuf GlueExamples.github_io) = false /\
  fst (GlueExamples.pubsuf GlueExamples.github_io) = GlueExamples.github_io /\
  names_to_hash GlueExamples.pubsuf GlueExamples.github_io
    = [GlueExamples.github_io; [105;111]%N] /\
  names_to_hash GlueExamples.pubsuf GlueExamples.intranet = [GlueExamples.intranet] /\
  names_to_hash GlueExamples.pubsuf GlueExamples.com = [] /\
  g_reason (snd (glue_check_host GlueExamples.chk GlueExamples.chk GlueExamples.on 1%N
                   GlueExamples.github_io [] [])) = RSafeBrowsing /\
  g_reason (snd (glue_check_host GlueExamples.chk GlueExamples.chk GlueExamples.on 1%N
                   GlueExamples.intranet [] [])) = RSafeBrowsing /\
  g_reason (snd (glue_check_host GlueExamples.chk GlueExamples.chk GlueExamples.on 1%N
                   GlueExamples.com [] [])) = RNotFiltered.
Proof. exact glue_premises_satisfiable. Qed.

(** The short cut of red-team change C19-I (skip the checkers when
    publicsuffix.EffectiveTLDPlusOne fails: the name "is a public suffix
    itself") is refuted: github.io, a private-section suffix, is enumerated,
    listed and blocked by the code; with the short cut the checker is never
    called and the name is not blocked. *)
Theorem C19_glue_bare_suffix_shortcut_refuted :
  exists sha pubsuf db st host,
    st_protection st = true /\ st_safebrowsing st = true /\
    snd (pubsuf host) = false /\
    In host (names_to_hash pubsuf host) /\ In (sha host) db /\ Forall hash_wf db /\
    let chk := check sha pubsuf GlueExamples.sfx (3600 * ns_sec)%Z (db_service db) [] [] 0%Z in
    g_reason (snd (glue_check_host chk chk st 1%N host [] [])) = RSafeBrowsing /\
    g_reason (snd (glue_check_host_with (glue_calls_bare pubsuf) chk chk st 1%N host [] [])) = RNotFiltered /\
    g_sb (snd (glue_check_host_with (glue_calls_bare pubsuf) chk chk st 1%N host [] [])) = None.
Proof. exact glue_bare_suffix_shortcut_refuted. Qed.
Print Assumptions C19_glue_bare_suffix_shortcut_refuted.

(** ** Round 6: the type of the question through the glue *)

(** The test before the checkers looks neither at the host nor at the type of
    the question (the [qtype] argument, an explicit argument of the model as
    of the Go signatures). *)
Theorem C19_glue_calls_ignore_qtype : forall s st q1 q2 h, glue_calls s st q1 h = glue_calls s st q2 h.
Proof. exact glue_calls_qtype_independent. Qed.
Print Assumptions C19_glue_calls_ignore_qtype.

(** CheckHost as far as safe browsing and parental control go: for any two
    checkers, any settings, any name and any two question types the result is
    the same: the states of both checkers, what each was called with, what it
    asked and answered, reason, error. *)
Theorem C19_glue_ignores_qtype : forall (C1 C2 : Type) (sb : bytes -> C1 -> C1 * check_out)
    (pc : bytes -> C2 -> C2 * check_out) st q1 q2 spelled c1 c2,
  glue_check_host sb pc st q1 spelled c1 c2 = glue_check_host sb pc st q2 spelled c1 c2.
Proof. exact @glue_check_host_ignores_qtype. Qed.
Print Assumptions C19_glue_ignores_qtype.

(** Over histories: two histories of requests that differ only in the
    question types give the same results. *)
Theorem C19_glue_history_ignores_qtype : forall (C1 C2 : Type) (sb : bytes -> C1 -> C1 * check_out)
    (pc : bytes -> C2 -> C2 * check_out) reqs1 reqs2 c1 c2,
  map drop_qtype reqs1 = map drop_qtype reqs2 ->
  glue_run sb pc reqs1 c1 c2 = glue_run sb pc reqs2 c1 c2.
Proof. exact @glue_run_ignores_qtype. Qed.
Print Assumptions C19_glue_history_ignores_qtype.

(** In the property's words: a name the safe-browsing service lists is
    blocked for EVERY question type. *)
Theorem C19_glue_listed_blocks_every_qtype : forall sha pubsuf sfx1 sfx2 ct1 ct2 db1 db2 svc1 svc2
    ord1 ord2 ev1 ev2 now1 now2 st spelled c1 c2,
  cache_inv db1 c1 -> cache_inv db2 c2 -> svc_ok db1 svc1 -> svc_ok db2 svc2 ->
  st_protection st = true -> st_safebrowsing st = true -> listed sha pubsuf db1 (lower spelled) ->
  forall qt : qtype,
  let out := snd (glue_check_host (check sha pubsuf sfx1 ct1 svc1 ord1 ev1 now1)
                                  (check sha pubsuf sfx2 ct2 svc2 ord2 ev2 now2) st qt spelled c1 c2) in
  g_err out = false -> g_reason out = RSafeBrowsing.
Proof. exact glue_listed_blocks_every_qtype. Qed.
Print Assumptions C19_glue_listed_blocks_every_qtype.

(** The variant "lookup only for address-like questions" (red-team change
    C19-L: A, AAAA, HTTPS) is refuted: the listed name is blocked by the code
    for a TXT question and by the variant for an A question, and for the TXT
    question the variant never calls the checker. *)
Theorem C19_glue_address_types_only_refuted :
  exists sha pubsuf db st host (qt : qtype),
    st_protection st = true /\ st_safebrowsing st = true /\
    In host (names_to_hash pubsuf host) /\ In (sha host) db /\ Forall hash_wf db /\
    is_block_host_qtype qt = false /\
    let chk := check sha pubsuf GlueExamples.sfx (3600 * ns_sec)%Z (db_service db) [] [] 0%Z in
    g_reason (snd (glue_check_host chk chk st qt host [] [])) = RSafeBrowsing /\
    g_reason (snd (glue_check_host_with glue_calls_addr chk chk st 1%N host [] [])) = RSafeBrowsing /\
    g_reason (snd (glue_check_host_with glue_calls_addr chk chk st qt host [] [])) = RNotFiltered /\
    g_sb (snd (glue_check_host_with glue_calls_addr chk chk st qt host [] [])) = None.
Proof. exact glue_address_types_only_refuted. Qed.
Print Assumptions C19_glue_address_types_only_refuted.

(** ** Round 6: enumerated names of one host with equal hash prefixes *)

(** A [storeInCache] whose Sets are all kept leaves ONE entry under every
    prefix of the answer, holding every returned hash with that prefix
    (however many requested hashes share it). *)
Theorem C19_store_one_entry_per_prefix : forall exp to_req resp order c p,
  In p (map prefix_of resp) -> In p order ->
  cget p (fst (store_in_cache exp to_req resp order [] c))
  = Some {| c_expiry := exp; c_hashes := filter (fun h => eqb_bytes (prefix_of h) p) resp |}.
Proof. exact store_in_cache_entry. Qed.
Print Assumptions C19_store_one_entry_per_prefix.

(** Two enumerated names [a], [b] of a host share the prefix and [b] is
    listed.  Fresh lookup: the question has one label per enumerated name (the
    shared prefix once for each), the verdict is blocked, the entry under the
    shared prefix holds exactly the returned hashes with it (the database's,
    the hash of [b] among them); and every later check on that cache says
    blocked: the cached verdict is the fresh one. *)
Theorem C19_verdict_with_colliding_prefixes : forall sha pubsuf suffix cache_time db svc order now host a b strs,
  svc_ok db svc ->
  In a (names_to_hash pubsuf host) -> In b (names_to_hash pubsuf host) ->
  prefix_of (sha a) = prefix_of (sha b) ->
  In (sha b) db ->
  svc (map prefix_of (hostname_to_hashes sha pubsuf host)) = Some strs ->
  In (prefix_of (sha b)) order ->
  let res := check sha pubsuf suffix cache_time svc order [] now host [] in
  o_question (snd res) = Some (question suffix (hostname_to_hashes sha pubsuf host)) /\
  In (sha a) (hostname_to_hashes sha pubsuf host) /\ In (sha b) (hostname_to_hashes sha pubsuf host) /\
  o_err (snd res) = false /\
  o_blocked (snd res) = true /\
  (exists it, cget (prefix_of (sha b)) (fst res) = Some it /\
              c_hashes it = filter (fun h => eqb_bytes (prefix_of h) (prefix_of (sha a))) (parse_txt strs) /\
              In (sha b) (c_hashes it) /\
              (forall h, In h (c_hashes it) <-> In h db /\ prefix_of h = prefix_of (sha a))) /\
  forall svc' order' evs' now',
    svc_ok db svc' ->
    o_err (snd (check sha pubsuf suffix cache_time svc' order' evs' now' host (fst res))) = false ->
    o_blocked (snd (check sha pubsuf suffix cache_time svc' order' evs' now' host (fst res))) = true.
Proof. exact verdict_with_colliding_prefixes. Qed.
Print Assumptions C19_verdict_with_colliding_prefixes.

(** The premises hold for a concrete name sharing its prefix with its parent;
    the repeated check is answered from the one entry, without a question. *)
Example C19_colliding_premises_satisfiable :
  let db := [CollideExample.sha_all CollideExample.ex] in
  names_to_hash CollideExample.pubsuf CollideExample.b_ex = [CollideExample.b_ex; CollideExample.ex] /\
  prefix_of (CollideExample.sha_all CollideExample.b_ex) = prefix_of (CollideExample.sha_all CollideExample.ex) /\
  CollideExample.sha_all CollideExample.b_ex <> CollideExample.sha_all CollideExample.ex /\
  Forall hash_wf db /\ svc_ok db (db_service db) /\
  let res := check CollideExample.sha_all CollideExample.pubsuf CollideExample.sfx CollideExample.ct
               (db_service db) CollideExample.order [] 0%Z CollideExample.b_ex [] in
  o_question (snd res) = Some ([48;48;48;48;46;48;48;48;48;46]%N ++ CollideExample.sfx) /\
  o_blocked (snd res) = true /\
  map (fun e : prefix * citem => (fst e, c_hashes (snd e))) (fst res)
    = [([0; 0]%N, [CollideExample.sha_all CollideExample.ex])] /\
  snd (check CollideExample.sha_all CollideExample.pubsuf CollideExample.sfx CollideExample.ct
         (db_service db) CollideExample.order [] 0%Z CollideExample.b_ex (fst res))
  = {| o_blocked := true; o_err := false; o_question := None; o_sets_left := 0 |}.
Proof. exact colliding_premises_satisfiable. Qed.

(** The code is the variant of [check_req_with] that leaves the list alone. *)
Theorem C19_check_is_variant_id : forall sha pubsuf suffix cache_time svc order evs now host c,
  check_req_with sha pubsuf suffix cache_time (fun hs => hs) svc order evs now host c
  = check sha pubsuf suffix cache_time svc order evs now host c.
Proof. exact check_req_with_id. Qed.
Print Assumptions C19_check_is_variant_id.

(** De-duplicating the request list by prefix before it is matched against
    (red-team change C19-K, slices.CompactFunc) is refuted: a name sharing
    its prefix with its listed parent is not blocked on the fresh lookup
    although the service returned the parent's hash, and is blocked from the
    cache on the next check. *)
Theorem C19_compact_request_list_refuted :
  exists sha pubsuf db host a b,
    names_to_hash pubsuf host = [a; b] /\ prefix_of (sha a) = prefix_of (sha b) /\
    In (sha b) db /\ Forall hash_wf db /\
    let code := check sha pubsuf CollideExample.sfx CollideExample.ct (db_service db) CollideExample.order [] 0%Z host in
    let variant := check_req_with sha pubsuf CollideExample.sfx CollideExample.ct compact_prefix
                     (db_service db) CollideExample.order [] 0%Z host in
    o_blocked (snd (code [])) = true /\
    o_blocked (snd (code (fst (code [])))) = true /\
    o_err (snd (variant [])) = false /\
    In (sha b) (parse_txt (match db_service db [prefix_of (sha a)] with Some s => s | None => [] end)) /\
    o_blocked (snd (variant [])) = false /\
    snd (variant (fst (variant [])))
    = {| o_blocked := true; o_err := false; o_question := None; o_sets_left := 0 |}.
Proof. exact compact_request_list_refuted. Qed.
Print Assumptions C19_compact_request_list_refuted.

(** ... and so is one hash per prefix wherever the equal prefixes stand (name
    and grandparent; CompactFunc leaves that list alone). *)
Theorem C19_dedup_request_list_refuted :
  exists sha pubsuf db host a m b,
    names_to_hash pubsuf host = [a; m; b] /\ prefix_of (sha a) = prefix_of (sha b) /\
    prefix_of (sha a) <> prefix_of (sha m) /\
    In (sha b) db /\ Forall hash_wf db /\
    let code := check sha pubsuf CollideExample.sfx CollideExample.ct (db_service db) CollideExample.order [] 0%Z host in
    let compacted := check_req_with sha pubsuf CollideExample.sfx CollideExample.ct compact_prefix
                       (db_service db) CollideExample.order [] 0%Z host in
    let variant := check_req_with sha pubsuf CollideExample.sfx CollideExample.ct dedup_prefix
                     (db_service db) CollideExample.order [] 0%Z host in
    o_blocked (snd (code [])) = true /\
    o_blocked (snd (code (fst (code [])))) = true /\
    compacted [] = code [] /\
    o_err (snd (variant [])) = false /\
    o_blocked (snd (variant [])) = false /\
    snd (variant (fst (variant [])))
    = {| o_blocked := true; o_err := false; o_question := None; o_sets_left := 0 |}.
Proof. exact dedup_request_list_refuted. Qed.
Print Assumptions C19_dedup_request_list_refuted.

(** Asking every prefix once would not change the answer of the service: the
    repetition of a label in the question is not needed for the verdict (and
    reveals nothing but a prefix already in the question). *)
Theorem C19_question_once_same_answer : forall db hs,
  db_service db (map prefix_of (dedup_prefix hs)) = db_service db (map prefix_of hs).
Proof. exact question_once_same_answer. Qed.
Print Assumptions C19_question_once_same_answer.

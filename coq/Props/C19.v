(** C19: safe-browsing lookups reveal only hash prefixes; the cache never
    changes the verdict.  Only statements here; proofs in Proofs/HashPrefix.v. *)
From Coq Require Import ZArith List.
From AGH Require Import Base.Run Model.HashPrefix Proofs.HashPrefix.

Theorem C19_only_prefixes_question : forall suffix hs1 hs2,
  map prefix_of hs1 = map prefix_of hs2 -> question suffix hs1 = question suffix hs2.
Proof. exact question_only_prefixes. Qed.
Print Assumptions C19_only_prefixes_question.

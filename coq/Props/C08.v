(** C08: ignored names / clients and un-anonymised addresses never reach the
    query log or the statistics.  Only statements; proofs in Proofs/LogPolicy.v.
    The ignore engines are functions [e_qign], [e_sign] : normalised name ->
    bool in the general theorems; the second part instantiates them with the
    MODELLED engine (Model/IgnoreEngine.v: aghnet.NewIgnoreEngine for plain
    names, [||d^], wildcards, [|.^], substrings, in any letter case). *)
From AGH Require Import Base.Run Base.RuleEngine Model.ClientIndex Model.IgnoreEngine Model.LogPolicy.
From AGH Require Import Proofs.ClientIndex Proofs.LogPolicy Proofs.LogWiring Proofs.IgnoreEngine.
Local Open Scope N_scope.

(** After ANY history of queries (each under its own configuration, ignore
    lists, registry, DHCP table, anonymisation setting) and flushes: every
    record in the memory buffer or the file stems from a query whose normalised
    name the ignore list in force did not match, whose client (looked up by
    ClientID, then by the REAL address) was not marked, and carries the masked
    address if anonymisation was on. *)
Theorem C08_ignored_name_never_stored : forall evs e,
  In e (all_log (run_log evs)) ->
  exists ev q, In (LQuery ev q) evs /\ e = log_entry ev q /\
    e_qign ev (fst (fst e)) = false /\
    qlog_client_ignored (e_ix ev) (e_dhcp ev) (ids_of q) = false /\
    (e_anon ev = true -> snd (fst e) = anonymize (fst (q_addr q)) /\ masked (snd (fst e))).
Proof. exact log_records_ok. Qed.
Print Assumptions C08_ignored_name_never_stored.

Theorem C08_ignored_never_counted : forall evs s,
  In s (all_stats (run_log evs)) ->
  exists ev q, In (LQuery ev q) evs /\ s = stat_entry ev q /\
    e_sign ev (fst (fst s)) = false /\
    stats_client_counted (e_ix ev) (e_dhcp ev) (ids_of q) = true /\
    (e_anon ev = true -> snd s = [] \/ (snd s = anonymize (fst (q_addr q)) /\ masked (snd s))).
Proof. exact stat_records_ok. Qed.
Print Assumptions C08_ignored_never_counted.

(** The log and the statistics hold exactly the records of the queries that
    passed the tests, in order (nothing else is ever written): for histories
    without a rotation of the log file ... *)
Theorem C08_records_exact : forall evs,
  existsb is_rotate evs = false ->
  all_log (run_log evs) = logged evs /\ all_stats (run_log evs) = counted evs.
Proof. exact run_log_exact. Qed.
Print Assumptions C08_records_exact.

(** ... and across rotations (querylog.json renamed to querylog.json.1,
    searches read both) and roll-overs of the statistics unit (the current unit
    flushed to stats.db, reports merge the units): the records that passed the
    tests are what an overwritten querylog.json.1 dropped, followed by exactly
    what the rotated file, the file and the buffer hold; the stored units and
    the current one hold exactly the counted records.  Hence the never-stored
    theorems above (stated over [all_log] / [all_stats]) cover the rotated file
    and the stored units. *)
Theorem C08_records_across_rotation : forall evs,
  logged evs = dropped_from empty_store evs ++ all_log (run_log evs) /\
  all_stats (run_log evs) = counted evs.
Proof. exact run_log_across_rotation. Qed.
Print Assumptions C08_records_across_rotation.

(** A rotation moves the file, a roll-over the unit; neither adds a record:
    non-vacuity of the two theorems on a history with both. *)
Example C08_rotation_example :
  let q (n : bytes) := {| q_name := n; q_any := false; q_addr := ([10;1;2;3], []); q_cid := []; q_cid_mac := None |} in
  let evs := [LQuery plain_env (q [97;46]); LFlush; LRotate; LQuery plain_env (q [98;46]); LRoll;
              LFlush; LRotate; LQuery plain_env (q [99;46])] in
  st_old (run_log evs) = [([98], [10;1;2;3], [])] /\ st_file (run_log evs) = [] /\
  st_mem (run_log evs) = [([99], [10;1;2;3], [])] /\
  dropped_from empty_store evs = [([97], [10;1;2;3], [])] /\
  st_units (run_log evs) = [[([97], [], [10;1;2;3]); ([98], [], [10;1;2;3])]] /\
  st_stats (run_log evs) = [([99], [], [10;1;2;3])].
Proof. exact rotation_example. Qed.

(** Single-step forms, for both anonymisation settings ([ev] is arbitrary). *)
Theorem C08_ignored_name_not_logged : forall ev q st,
  e_qign ev (normalize (q_name q)) = true -> st_mem (process ev q st) = st_mem st.
Proof. exact ignored_name_not_logged. Qed.
Print Assumptions C08_ignored_name_not_logged.

Theorem C08_ignored_name_not_counted : forall ev q st,
  e_sign ev (normalize (q_name q)) = true -> st_stats (process ev q st) = st_stats st.
Proof. exact ignored_name_not_counted. Qed.
Print Assumptions C08_ignored_name_not_counted.

Theorem C08_ignored_client_not_logged : forall ev q st,
  qlog_client_ignored (e_ix ev) (e_dhcp ev) (ids_of q) = true -> st_mem (process ev q st) = st_mem st.
Proof. exact ignored_client_not_logged. Qed.
Print Assumptions C08_ignored_client_not_logged.

Theorem C08_ignored_client_not_counted : forall ev q st,
  stats_client_counted (e_ix ev) (e_dhcp ev) (ids_of q) = false -> st_stats (process ev q st) = st_stats st.
Proof. exact ignored_client_not_counted. Qed.
Print Assumptions C08_ignored_client_not_counted.

(** Relation to the request precedence of C04: a request that [acf_find]
    (ClientID, exact address, longest containing prefix, lease MAC) attributes
    to a client marked to be ignored is recorded nowhere.  (Refuted before the
    repair of finding C08-maclike-clientid-resolved-as-mac.) *)
Theorem C08_ignored_client_never_stored : forall ev q st u c,
  find_by_cid (e_ix ev) [] = None ->
  acf_find (e_ix ev) (e_dhcp ev) (q_cid q) (q_addr q) = Some u -> deref (e_ix ev) u = Some c ->
  (c_ignore_qlog c = true -> st_mem (process ev q st) = st_mem st) /\
  (c_ignore_stats c = true -> st_stats (process ev q st) = st_stats st).
Proof. exact ignored_client_never_stored. Qed.
Print Assumptions C08_ignored_client_never_stored.

Example C08_never_stored_premises_satisfiable :
  find_by_cid wit_ix [] = None /\
  acf_find wit_ix (fun _ => None) wit_cid ([192;168;1;5], []) = Some 1 /\
  process (wit_env true) (wit_query wit_cid (Some wit_mac)) empty_store = empty_store /\
  process (wit_env false) (wit_query wit_cid (Some wit_mac)) empty_store = empty_store /\
  process (wit_env true) (wit_query [] None) empty_store = empty_store /\
  process (wit_env false) (wit_query [] None) empty_store = empty_store /\
  all_log (process (wit_env true)
             {| q_name := [79;75;46]; q_any := false; q_addr := ([10;1;2;3], []); q_cid := []; q_cid_mac := None |}
             empty_store) = [([111;107], [10;1;0;0], [])].
Proof. exact never_stored_premises_satisfiable. Qed.

(** The reading of the repaired defect #9 (decide on the anonymised address)
    lets the ignored client through; the model's does not. *)
Example C08_anonymised_ids_reading_refuted :
  qlog_client_ignored wit_ix (fun _ => None) (ids_of_anonymised (wit_env true) (wit_query [] None)) = false /\
  qlog_client_ignored wit_ix (fun _ => None) (ids_of (wit_query [] None)) = true.
Proof. exact anonymised_ids_reading_refuted. Qed.

(** What GET /control/querylog returns (memory and file entries alike): only
    stored records, whose name the CURRENT ignore list does not match and
    whose client, looked up from what is stored (ClientID, recorded address),
    is not currently marked; with anonymisation currently on the reported
    address is masked, whenever it was recorded. *)
Theorem C08_search_rechecks : forall ev mac_of st e,
  In e (search_report ev mac_of st) ->
  exists e0, In e0 (all_log st) /\ e = reported ev e0 /\
    e_qign ev (fst (fst e)) = false /\
    qlog_client_ignored (e_ix ev) (e_dhcp ev) (stored_ids mac_of e0) = false /\
    (e_anon ev = true -> masked (snd (fst e))).
Proof. exact search_results_ok. Qed.
Print Assumptions C08_search_rechecks.

Theorem C08_stats_report_rechecks : forall ev mac_of st,
  (forall d, In d (stats_domains ev st) -> e_sign ev d = false) /\
  (forall s, In s (stats_clients ev mac_of st) ->
     In s (all_stats st) /\ stats_client_counted (e_ix ev) (e_dhcp ev) [stat_key_id mac_of s] = true).
Proof. exact stats_report_ok. Qed.
Print Assumptions C08_stats_report_rechecks.

(** The mask: the low 16 bits of an IPv4 address (also embedded in IPv6), the
    low 80 bits of an IPv6 address are zero; byte-list facts. *)
Theorem C08_addresses_masked : forall ip, masked (anonymize ip) /\ length (anonymize ip) = length ip.
Proof. exact addresses_masked. Qed.
Print Assumptions C08_addresses_masked.

Theorem C08_mask_v4 : forall ip, length ip = 4%nat ->
  exists a b c d, ip = [a; b; c; d] /\ anonymize ip = [a; b; 0; 0].
Proof. exact anonymize_v4. Qed.
Print Assumptions C08_mask_v4.

Theorem C08_mask_v6 : forall ip, length ip = 16%nat -> is_4in6 ip = false ->
  anonymize ip = firstn 6 ip ++ repeat 0 10.
Proof. exact anonymize_v6. Qed.
Print Assumptions C08_mask_v6.

Theorem C08_mask_idempotent : forall ip, anonymize (anonymize ip) = anonymize ip.
Proof. exact anonymize_idempotent. Qed.
Print Assumptions C08_mask_idempotent.

(** The configured flag (what the API shows) and the mutator shared with the
    DNS server stay equal under ANY sequence of configuration requests, new
    (all fields mandatory) or deprecated (every field optional), so "configured
    on" implies that recorded addresses are masked. *)
Theorem C08_anonymizer_in_sync : forall enabled anon ops,
  in_sync (fold_left conf_step ops (conf_init enabled anon)).
Proof. exact conf_always_in_sync. Qed.
Print Assumptions C08_anonymizer_in_sync.

Theorem C08_configured_anon_masks : forall enabled anon ops ev q,
  let c := fold_left conf_step ops (conf_init enabled anon) in
  e_anon ev = qc_mut c -> qc_anon c = true ->
  recorded_ip ev q = anonymize (fst (q_addr q)) /\ masked (recorded_ip ev q).
Proof. exact configured_anon_masks. Qed.
Print Assumptions C08_configured_anon_masks.

(** * Round 4 (G): the anonymiser as a shared object, configuration requests
      as operations of the history *)

(** The object graph: aghnet.IPMut cells on a heap; home.initDNS makes ONE cell
    from the configured flag and hands it to querylog.New and to
    dnsforward.NewServer ([init_dns], [new_server]); the two handlers store into
    the query log's cell ([sys_step]); processQueryLogsAndStats loads the
    server's ([srv_anon]), the report the query log's ([qlog_anon]).  After ANY
    history of configuration requests (both handlers, any subset of optional
    fields), queries, flushes, rotations, roll-overs: both load the CONFIGURED
    function. *)
Theorem C08_server_reads_configured_flag : forall enabled anon ops,
  let s := fst (hrun ops (init_dns enabled anon, empty_store)) in
  srv_anon s = s_anon s /\ qlog_anon s = s_anon s.
Proof. exact server_reads_configured_flag. Qed.
Print Assumptions C08_server_reads_configured_flag.

(** The query log's view of the system is the configuration record of
    [C08_anonymizer_in_sync] (refinement of the handlers). *)
Theorem C08_system_refines_conf : forall s o, (s_qlog_mut s < length (s_heap s))%nat ->
  sys_conf (sys_step s o) = conf_step (sys_conf s) o.
Proof. exact sys_conf_step. Qed.
Print Assumptions C08_system_refines_conf.

(** At every reachable state with anonymisation configured on, the next query
    is recorded with the masked address. *)
Theorem C08_configured_on_recorded_masked : forall enabled anon ops w q,
  let s := fst (hrun ops (init_dns enabled anon, empty_store)) in
  s_anon s = true ->
  recorded_ip (env_at s w) q = anonymize (fst (q_addr q)) /\ masked (recorded_ip (env_at s w) q).
Proof. exact configured_on_recorded_masked. Qed.
Print Assumptions C08_configured_on_recorded_masked.

(** A history with configuration requests is a history of the theorems above,
    every query under the environment of its moment: never-stored, exactness
    and across-rotation hold of it. *)
Theorem C08_history_is_run_log : forall enabled anon ops,
  snd (hrun ops (init_dns enabled anon, empty_store)) = run_log (hlev ops (init_dns enabled anon)).
Proof. exact history_is_run_log. Qed.
Print Assumptions C08_history_is_run_log.

(** For all histories [pre], a request [o] that switches anonymisation on
    (either handler) and any continuation [post] that does not switch it off:
    whatever the memory buffer, querylog.json, querylog.json.1 and the
    statistics (stored units and the current one) hold at the end either was
    there before the switch or is the record of a query of [post] with the
    MASKED address. *)
Theorem C08_anonymised_after_switch : forall enabled anon pre o post,
  turns_on o = true -> forallb keeps_on post = true ->
  let before := snd (hrun pre (init_dns enabled anon, empty_store)) in
  let after := snd (hrun (pre ++ HConf o :: post) (init_dns enabled anon, empty_store)) in
  (forall e, In e (all_log after) -> In e (all_log before) \/ masked_record_of post e) /\
  (forall x, In x (all_stats after) -> In x (all_stats before) \/ masked_stat_of post x).
Proof. exact anonymised_after_switch. Qed.
Print Assumptions C08_anonymised_after_switch.

Example C08_after_switch_example :
  turns_on (CLegacy None (Some true)) = true /\ forallb keeps_on ex_post = true /\
  let after := snd (hrun (ex_pre ++ HConf (CLegacy None (Some true)) :: ex_post) (init_dns true false, empty_store)) in
  st_old after = [([97], [1;2;3;4], []); ([98], [1;2;0;0], []); ([99], [32;1;13;184;0;1;0;0;0;0;0;0;0;0;0;0], [105])] /\
  st_mem after = [([100], [10;9;0;0], [])] /\
  st_units after = [[([97], [], [1;2;3;4]); ([98], [], [1;2;0;0]); ([99], [105], [])]] /\
  st_stats after = [([100], [], [10;9;0;0])].
Proof. exact after_switch_example. Qed.

(** Why the sharing is part of the model: a server holding a private IPMut
    with the function of construction time records full addresses after the
    switch while configuration and report say "on". *)
Example C08_private_mutator_refuted :
  let st := hrun [HConf (CPut true true); HQuery ex_world (ex_q [98;46] [1;2;3;4] [])]
                 (init_dns_private_copy true false, empty_store) in
  s_anon (fst st) = true /\ qlog_anon (fst st) = true /\ srv_anon (fst st) = false /\
  st_mem (snd st) = [([98], [1;2;3;4], [])] /\ st_stats (snd st) = [([98], [], [1;2;3;4])].
Proof. exact private_copy_refuted. Qed.

(** * Round 4 (H): nested CIDRs *)
(** For every registry reachable by any history of client operations: a request
    without a known ClientID whose address nobody lists exactly, from inside a
    prefix [p] of client [c], every OTHER stored prefix containing the address
    being strictly broader, is attributed to [c]; if [c] is marked it is
    recorded nowhere, whatever flags the owners of the broader prefixes have. *)
Theorem C08_narrowest_cidr_decides : forall cfg ops ev q st p u c,
  e_ix ev = run cfg ops empty_index ->
  find_by_cid (e_ix ev) [] = None ->
  find_by_cid (e_ix ev) (q_cid q) = None ->
  zget (q_addr q) (ip_to (e_ix ev)) = None ->
  deref (e_ix ev) u = Some c -> In p (c_subnets c) ->
  contains p (fst (q_addr q)) = true ->
  (forall p' u', owner_of (e_ix ev) c_subnets p' u' -> contains p' (fst (q_addr q)) = true ->
     p' = p \/ snd p' < snd p) ->
  find_by_ip (e_ix ev) (q_addr q) = Some u /\
  (c_ignore_qlog c = true -> st_mem (process ev q st) = st_mem st) /\
  (c_ignore_stats c = true -> st_stats (process ev q st) = st_stats st).
Proof. exact narrowest_cidr_decides. Qed.
Print Assumptions C08_narrowest_cidr_decides.

Example C08_narrowest_cidr_example :
  find_by_cid nest_ix [] = None /\ zget ([192;168;5;9], []) (ip_to nest_ix) = None /\
  deref nest_ix 2 = Some (wit_client 2 [107] [] [([192;168;5;0], 24)] [] true true) /\
  contains ([192;168;5;0], 24) [192;168;5;9] = true /\ contains ([192;168;0;0], 16) [192;168;5;9] = true /\
  map fst (subnet_to nest_ix) = [([192;168;5;0], 24); ([192;168;0;0], 16)] /\
  find_by_ip nest_ix ([192;168;5;9], []) = Some 2 /\
  process nest_env (nest_q [192;168;5;9]) empty_store = empty_store /\
  st_mem (process nest_env (nest_q [192;168;7;9]) empty_store) = [([111;107], [192;168;7;9], [])].
Proof. exact narrowest_cidr_example. Qed.

(** * Round 8 (O): runtime clients *)
(** home.clientOrArtificial asks the persistent clients first, then the runtime
    index ([client_or_artificial], [find_multiple]).  For the id lists the
    program builds, whatever the runtime index holds (rDNS, WHOIS, ARP, hosts
    file, DHCP host names), the query log's finder gives the flag of the
    persistent client: a runtime record never hides an ignored client, at
    recording time and on the search side. *)
Theorem C08_runtime_record_never_hides_ignored_client : forall ix dhcp rt q,
  find_multiple ix dhcp rt (ids_of q) = qlog_client_ignored ix dhcp (ids_of q).
Proof. exact runtime_record_never_hides. Qed.
Print Assumptions C08_runtime_record_never_hides_ignored_client.

Theorem C08_runtime_record_never_hides_on_search : forall ix dhcp rt mac_of e,
  find_multiple ix dhcp rt (stored_ids mac_of e) = qlog_client_ignored ix dhcp (stored_ids mac_of e).
Proof. exact runtime_record_never_hides_stored. Qed.
Print Assumptions C08_runtime_record_never_hides_on_search.

(** Runtime index first: the flagged client of 192.168.5.0/24 with a runtime
    record for 192.168.5.9 is no longer ignored. *)
Example C08_runtime_first_refuted :
  let rt := fun a : addr => addr_eqb a ([192;168;5;9], []) in
  qlog_client_ignored nest_ix (fun _ => None) (ids_of (nest_q [192;168;5;9])) = true /\
  find_multiple nest_ix (fun _ => None) rt (ids_of (nest_q [192;168;5;9])) = true /\
  find_multiple_rt_first nest_ix (fun _ => None) rt (ids_of (nest_q [192;168;5;9])) = false.
Proof. exact runtime_first_refuted. Qed.

(** * Round 8 (P): the configuration of the statistics *)
(** After any history of accepted PUT /control/stats/config/update requests the
    enabled flag and the ignore list in force are those of the LAST one,
    whatever the state before it (in particular: disabled). *)
Theorem C08_stats_ignore_list_follows_last_put : forall puts c e l,
  sconf_run (puts ++ [(e, l)]) c = {| sc_enabled := e; sc_ignored := l |}.
Proof. exact stats_ignore_list_follows_last_put. Qed.
Print Assumptions C08_stats_ignore_list_follows_last_put.

Theorem C08_disabled_statistics_record_nothing : forall ev q st,
  st_stats (process_gated false ev q st) = st_stats st /\ st_units (process_gated false ev q st) = st_units st /\
  st_mem (process_gated false ev q st) = st_mem (process ev q st).
Proof. exact process_gated_off. Qed.
Print Assumptions C08_disabled_statistics_record_nothing.

Example C08_guarded_put_refuted :
  let c0 := {| sc_enabled := true; sc_ignored := [[97]] |} in
  sc_ignored (sconf_put_guarded true [[98]] (sconf_put_guarded false [[97]] c0)) = [[97]] /\
  sc_ignored (sconf_run [(false, [[97]]); (true, [[98]])] c0) = [[98]].
Proof. exact guarded_put_refuted. Qed.

(** * The modelled ignore engine (aghnet.NewIgnoreEngine) *)

(** Every spelling of a name (any letter case, with or without the trailing
    dot) is normalised to its lower-case form. *)
Theorem C08_name_spellings_normalised : forall s d,
  map LogPolicy.lower s = d -> d <> [] -> last d 0 <> 46 ->
  LogPolicy.normalize s = d /\ LogPolicy.normalize (s ++ [46]) = d.
Proof. exact normalize_spelling. Qed.
Print Assumptions C08_name_spellings_normalised.

(** A configured plain name, in ANY letter case, matches its lower-case form
    (hence, with the previous theorem, every spelling of the name). *)
Theorem C08_plain_entry_matched : forall entries rs e,
  engine_of entries = Some rs -> In e entries ->
  classify (RuleEngine.lower e) = ERule (IHost (RuleEngine.lower e)) ->
  ignore_has rs (RuleEngine.lower e) = true.
Proof. exact plain_entry_matched. Qed.
Print Assumptions C08_plain_entry_matched.

(** [||d^] in any letter case matches [d] and every host under it. *)
Theorem C08_domain_entry_matched : forall entries rs e d h,
  engine_of entries = Some rs -> In e entries ->
  RuleEngine.lower e = c_pipe :: c_pipe :: d ++ [c_caret] ->
  forallb is_plain_char d = true -> d <> [] ->
  (h = d \/ exists x, x <> [] /\ forallb is_hostch x = true /\ h = x ++ c_dot :: d) ->
  ignore_has rs h = true.
Proof. exact domain_entry_matched. Qed.
Print Assumptions C08_domain_entry_matched.

(** [*.d] in any letter case matches every name under [d]. *)
Theorem C08_wildcard_entry_matched : forall entries rs e d x,
  engine_of entries = Some rs -> In e entries ->
  RuleEngine.lower e = c_star :: c_dot :: d ->
  forallb is_plain_char d = true -> d <> [] ->
  ignore_has rs (x ++ c_dot :: d) = true.
Proof. exact wildcard_entry_matched. Qed.
Print Assumptions C08_wildcard_entry_matched.

(** [|.^] matches the root. *)
Theorem C08_root_entry_matched : forall entries rs e,
  engine_of entries = Some rs -> In e entries ->
  RuleEngine.lower e = [c_pipe; c_dot; c_caret] ->
  ignore_has rs [c_dot] = true.
Proof. exact root_entry_matched. Qed.
Print Assumptions C08_root_entry_matched.

(** [ignore_has] is urlfilter's DNSEngine.Match (the model of C01 / C02) on
    the rules the entries stand for. *)
Theorem C08_engine_is_urlfilter : forall rs host,
  ignore_has rs host = snd (match_request (map to_rule rs) (req_of host)).
Proof. exact ignore_has_is_match_request. Qed.
Print Assumptions C08_engine_is_urlfilter.

(** Never stored, over the modelled engine, for ALL histories: the name of
    every stored record escapes (is not a configured plain name, not under a
    configured [||d^] / [*.d], not the root under [|.^]) every ignore list of
    the modelled forms that was in force when its query was processed. *)
Theorem C08_configured_name_never_stored : forall evs e,
  In e (all_log (run_log evs)) ->
  exists ev q, In (LQuery ev q) evs /\ e = log_entry ev q /\
    fst (fst e) = LogPolicy.normalize (q_name q) /\
    forall entries, qlog_engine_is ev entries -> escapes entries (fst (fst e)).
Proof. exact configured_name_never_stored. Qed.
Print Assumptions C08_configured_name_never_stored.

Theorem C08_configured_name_never_counted : forall evs s,
  In s (all_stats (run_log evs)) ->
  exists ev q, In (LQuery ev q) evs /\ s = stat_entry ev q /\
    fst (fst s) = LogPolicy.normalize (q_name q) /\
    forall entries, stats_engine_is ev entries -> escapes entries (fst (fst s)).
Proof. exact configured_name_never_counted. Qed.
Print Assumptions C08_configured_name_never_counted.

Theorem C08_configured_plain_name_not_recorded : forall ev q st entries x,
  qlog_engine_is ev entries -> In x entries ->
  classify (RuleEngine.lower x) = ERule (IHost (RuleEngine.lower x)) ->
  LogPolicy.normalize (q_name q) = RuleEngine.lower x ->
  st_mem (process ev q st) = st_mem st.
Proof. exact configured_plain_name_not_recorded. Qed.
Print Assumptions C08_configured_plain_name_not_recorded.

(** Premises satisfiable: a list with capitals of all four forms plus a
    dropped too-wide entry; "MIXED.case.TEST." is ignored under the entry
    "Mixed.Case.Test". *)
Example C08_engine_premises_satisfiable :
  exists rs, engine_of ex_entries = Some rs /\ length rs = 4%nat /\
    classify (RuleEngine.lower (nth 0 ex_entries [])) = ERule (IHost ex_lower_name) /\
    ignore_has rs (LogPolicy.normalize [77;73;88;69;68;46;99;97;115;101;46;84;69;83;84;46]) = true /\
    ignore_has rs [115;117;98;46;97;100;115;46;117;112;112;101;114] = true /\
    ignore_has rs [102;111;111;46;99;97;112;46;119;105;108;100] = true /\
    ignore_has rs [46] = true /\
    ignore_has rs [99;97;112;46;119;105;108;100] = false /\
    ignore_has rs [120] = false /\
    ignore_has rs [111;107;46;101;120;97;109;112;108;101] = false.
Proof. exact ex_entries_modelled. Qed.

(** The slip of not lower-casing the configured list lets the name through. *)
Example C08_unlowered_entry_matches_nothing :
  ignore_has [IHost (nth 0 ex_entries [])] ex_lower_name = false /\
  ignore_has [IHost (RuleEngine.lower (nth 0 ex_entries []))] ex_lower_name = true.
Proof. exact unlowered_entry_matches_nothing. Qed.

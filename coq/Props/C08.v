(** C08: ignored names / clients and un-anonymised addresses never reach the
    query log or the statistics.  Only statements; proofs in Proofs/LogPolicy.v.
    The ignore engines are functions [e_qign], [e_sign] : normalised name ->
    bool in the general theorems; the second part instantiates them with the
    MODELLED engine (Model/IgnoreEngine.v: aghnet.NewIgnoreEngine for plain
    names, [||d^], wildcards, [|.^], substrings, in any letter case). *)
From AGH Require Import Base.Run Base.RuleEngine Model.ClientIndex Model.IgnoreEngine Model.LogPolicy.
From AGH Require Import Proofs.LogPolicy Proofs.IgnoreEngine.
Local Open Scope N_scope.

(** After ANY history of queries (each under its own configuration, ignore
    lists, registry, DHCP table, anonymisation setting) and flushes: every
    record in the memory buffer or the file stems from a query whose normalised
    name the ignore list in force did not match, whose client (looked up by
    ClientID, then by the REAL address) was not marked, and carries the masked
    address if anonymisation was on. *)
Theorem C08_ignored_name_never_stored : forall evs e,
  In e (all_log (run_log evs)) ->
  exists ev q, In (LQuery ev q) evs /\ e = log_entry ev q /\
    e_qign ev (fst (fst e)) = false /\
    qlog_client_ignored (e_ix ev) (e_dhcp ev) (ids_of q) = false /\
    (e_anon ev = true -> snd (fst e) = anonymize (fst (q_addr q)) /\ masked (snd (fst e))).
Proof. exact log_records_ok. Qed.
Print Assumptions C08_ignored_name_never_stored.

Theorem C08_ignored_never_counted : forall evs s,
  In s (all_stats (run_log evs)) ->
  exists ev q, In (LQuery ev q) evs /\ s = stat_entry ev q /\
    e_sign ev (fst (fst s)) = false /\
    stats_client_counted (e_ix ev) (e_dhcp ev) (ids_of q) = true /\
    (e_anon ev = true -> snd s = [] \/ (snd s = anonymize (fst (q_addr q)) /\ masked (snd s))).
Proof. exact stat_records_ok. Qed.
Print Assumptions C08_ignored_never_counted.

(** The log and the statistics hold exactly the records of the queries that
    passed the tests, in order (nothing else is ever written): for histories
    without a rotation of the log file ... *)
Theorem C08_records_exact : forall evs,
  existsb is_rotate evs = false ->
  all_log (run_log evs) = logged evs /\ all_stats (run_log evs) = counted evs.
Proof. exact run_log_exact. Qed.
Print Assumptions C08_records_exact.

(** ... and across rotations (querylog.json renamed to querylog.json.1,
    searches read both) and roll-overs of the statistics unit (the current unit
    flushed to stats.db, reports merge the units): the records that passed the
    tests are what an overwritten querylog.json.1 dropped, followed by exactly
    what the rotated file, the file and the buffer hold; the stored units and
    the current one hold exactly the counted records.  Hence the never-stored
    theorems above (stated over [all_log] / [all_stats]) cover the rotated file
    and the stored units. *)
Theorem C08_records_across_rotation : forall evs,
  logged evs = dropped_from empty_store evs ++ all_log (run_log evs) /\
  all_stats (run_log evs) = counted evs.
Proof. exact run_log_across_rotation. Qed.
Print Assumptions C08_records_across_rotation.

(** A rotation moves the file, a roll-over the unit; neither adds a record:
    non-vacuity of the two theorems on a history with both. *)
Example C08_rotation_example :
  let q (n : bytes) := {| q_name := n; q_any := false; q_addr := ([10;1;2;3], []); q_cid := []; q_cid_mac := None |} in
  let evs := [LQuery plain_env (q [97;46]); LFlush; LRotate; LQuery plain_env (q [98;46]); LRoll;
              LFlush; LRotate; LQuery plain_env (q [99;46])] in
  st_old (run_log evs) = [([98], [10;1;2;3], [])] /\ st_file (run_log evs) = [] /\
  st_mem (run_log evs) = [([99], [10;1;2;3], [])] /\
  dropped_from empty_store evs = [([97], [10;1;2;3], [])] /\
  st_units (run_log evs) = [[([97], [], [10;1;2;3]); ([98], [], [10;1;2;3])]] /\
  st_stats (run_log evs) = [([99], [], [10;1;2;3])].
Proof. exact rotation_example. Qed.

(** Single-step forms, for both anonymisation settings ([ev] is arbitrary). *)
Theorem C08_ignored_name_not_logged : forall ev q st,
  e_qign ev (normalize (q_name q)) = true -> st_mem (process ev q st) = st_mem st.
Proof. exact ignored_name_not_logged. Qed.
Print Assumptions C08_ignored_name_not_logged.

Theorem C08_ignored_name_not_counted : forall ev q st,
  e_sign ev (normalize (q_name q)) = true -> st_stats (process ev q st) = st_stats st.
Proof. exact ignored_name_not_counted. Qed.
Print Assumptions C08_ignored_name_not_counted.

Theorem C08_ignored_client_not_logged : forall ev q st,
  qlog_client_ignored (e_ix ev) (e_dhcp ev) (ids_of q) = true -> st_mem (process ev q st) = st_mem st.
Proof. exact ignored_client_not_logged. Qed.
Print Assumptions C08_ignored_client_not_logged.

Theorem C08_ignored_client_not_counted : forall ev q st,
  stats_client_counted (e_ix ev) (e_dhcp ev) (ids_of q) = false -> st_stats (process ev q st) = st_stats st.
Proof. exact ignored_client_not_counted. Qed.
Print Assumptions C08_ignored_client_not_counted.

(** Relation to the request precedence of C04: a request that [acf_find]
    (ClientID, exact address, longest containing prefix, lease MAC) attributes
    to a client marked to be ignored is recorded nowhere.  (Refuted before the
    repair of finding C08-maclike-clientid-resolved-as-mac.) *)
Theorem C08_ignored_client_never_stored : forall ev q st u c,
  find_by_cid (e_ix ev) [] = None ->
  acf_find (e_ix ev) (e_dhcp ev) (q_cid q) (q_addr q) = Some u -> deref (e_ix ev) u = Some c ->
  (c_ignore_qlog c = true -> st_mem (process ev q st) = st_mem st) /\
  (c_ignore_stats c = true -> st_stats (process ev q st) = st_stats st).
Proof. exact ignored_client_never_stored. Qed.
Print Assumptions C08_ignored_client_never_stored.

Example C08_never_stored_premises_satisfiable :
  find_by_cid wit_ix [] = None /\
  acf_find wit_ix (fun _ => None) wit_cid ([192;168;1;5], []) = Some 1 /\
  process (wit_env true) (wit_query wit_cid (Some wit_mac)) empty_store = empty_store /\
  process (wit_env false) (wit_query wit_cid (Some wit_mac)) empty_store = empty_store /\
  process (wit_env true) (wit_query [] None) empty_store = empty_store /\
  process (wit_env false) (wit_query [] None) empty_store = empty_store /\
  all_log (process (wit_env true)
             {| q_name := [79;75;46]; q_any := false; q_addr := ([10;1;2;3], []); q_cid := []; q_cid_mac := None |}
             empty_store) = [([111;107], [10;1;0;0], [])].
Proof. exact never_stored_premises_satisfiable. Qed.

(** The reading of the repaired defect #9 (decide on the anonymised address)
    lets the ignored client through; the model's does not. *)
Example C08_anonymised_ids_reading_refuted :
  qlog_client_ignored wit_ix (fun _ => None) (ids_of_anonymised (wit_env true) (wit_query [] None)) = false /\
  qlog_client_ignored wit_ix (fun _ => None) (ids_of (wit_query [] None)) = true.
Proof. exact anonymised_ids_reading_refuted. Qed.

(** What GET /control/querylog returns (memory and file entries alike): only
    stored records, whose name the CURRENT ignore list does not match and
    whose client, looked up from what is stored (ClientID, recorded address),
    is not currently marked; with anonymisation currently on the reported
    address is masked, whenever it was recorded. *)
Theorem C08_search_rechecks : forall ev mac_of st e,
  In e (search_report ev mac_of st) ->
  exists e0, In e0 (all_log st) /\ e = reported ev e0 /\
    e_qign ev (fst (fst e)) = false /\
    qlog_client_ignored (e_ix ev) (e_dhcp ev) (stored_ids mac_of e0) = false /\
    (e_anon ev = true -> masked (snd (fst e))).
Proof. exact search_results_ok. Qed.
Print Assumptions C08_search_rechecks.

Theorem C08_stats_report_rechecks : forall ev mac_of st,
  (forall d, In d (stats_domains ev st) -> e_sign ev d = false) /\
  (forall s, In s (stats_clients ev mac_of st) ->
     In s (all_stats st) /\ stats_client_counted (e_ix ev) (e_dhcp ev) [stat_key_id mac_of s] = true).
Proof. exact stats_report_ok. Qed.
Print Assumptions C08_stats_report_rechecks.

(** The mask: the low 16 bits of an IPv4 address (also embedded in IPv6), the
    low 80 bits of an IPv6 address are zero; byte-list facts. *)
Theorem C08_addresses_masked : forall ip, masked (anonymize ip) /\ length (anonymize ip) = length ip.
Proof. exact addresses_masked. Qed.
Print Assumptions C08_addresses_masked.

Theorem C08_mask_v4 : forall ip, length ip = 4%nat ->
  exists a b c d, ip = [a; b; c; d] /\ anonymize ip = [a; b; 0; 0].
Proof. exact anonymize_v4. Qed.
Print Assumptions C08_mask_v4.

Theorem C08_mask_v6 : forall ip, length ip = 16%nat -> is_4in6 ip = false ->
  anonymize ip = firstn 6 ip ++ repeat 0 10.
Proof. exact anonymize_v6. Qed.
Print Assumptions C08_mask_v6.

Theorem C08_mask_idempotent : forall ip, anonymize (anonymize ip) = anonymize ip.
Proof. exact anonymize_idempotent. Qed.
Print Assumptions C08_mask_idempotent.

(** The configured flag (what the API shows) and the mutator shared with the
    DNS server stay equal under ANY sequence of configuration requests, new
    (all fields mandatory) or deprecated (every field optional), so "configured
    on" implies that recorded addresses are masked. *)
Theorem C08_anonymizer_in_sync : forall enabled anon ops,
  in_sync (fold_left conf_step ops (conf_init enabled anon)).
Proof. exact conf_always_in_sync. Qed.
Print Assumptions C08_anonymizer_in_sync.

Theorem C08_configured_anon_masks : forall enabled anon ops ev q,
  let c := fold_left conf_step ops (conf_init enabled anon) in
  e_anon ev = qc_mut c -> qc_anon c = true ->
  recorded_ip ev q = anonymize (fst (q_addr q)) /\ masked (recorded_ip ev q).
Proof. exact configured_anon_masks. Qed.
Print Assumptions C08_configured_anon_masks.

(** * The modelled ignore engine (aghnet.NewIgnoreEngine) *)

(** Every spelling of a name (any letter case, with or without the trailing
    dot) is normalised to its lower-case form. *)
Theorem C08_name_spellings_normalised : forall s d,
  map LogPolicy.lower s = d -> d <> [] -> last d 0 <> 46 ->
  LogPolicy.normalize s = d /\ LogPolicy.normalize (s ++ [46]) = d.
Proof. exact normalize_spelling. Qed.
Print Assumptions C08_name_spellings_normalised.

(** A configured plain name, in ANY letter case, matches its lower-case form
    (hence, with the previous theorem, every spelling of the name). *)
Theorem C08_plain_entry_matched : forall entries rs e,
  engine_of entries = Some rs -> In e entries ->
  classify (RuleEngine.lower e) = ERule (IHost (RuleEngine.lower e)) ->
  ignore_has rs (RuleEngine.lower e) = true.
Proof. exact plain_entry_matched. Qed.
Print Assumptions C08_plain_entry_matched.

(** [||d^] in any letter case matches [d] and every host under it. *)
Theorem C08_domain_entry_matched : forall entries rs e d h,
  engine_of entries = Some rs -> In e entries ->
  RuleEngine.lower e = c_pipe :: c_pipe :: d ++ [c_caret] ->
  forallb is_plain_char d = true -> d <> [] ->
  (h = d \/ exists x, x <> [] /\ forallb is_hostch x = true /\ h = x ++ c_dot :: d) ->
  ignore_has rs h = true.
Proof. exact domain_entry_matched. Qed.
Print Assumptions C08_domain_entry_matched.

(** [*.d] in any letter case matches every name under [d]. *)
Theorem C08_wildcard_entry_matched : forall entries rs e d x,
  engine_of entries = Some rs -> In e entries ->
  RuleEngine.lower e = c_star :: c_dot :: d ->
  forallb is_plain_char d = true -> d <> [] ->
  ignore_has rs (x ++ c_dot :: d) = true.
Proof. exact wildcard_entry_matched. Qed.
Print Assumptions C08_wildcard_entry_matched.

(** [|.^] matches the root. *)
Theorem C08_root_entry_matched : forall entries rs e,
  engine_of entries = Some rs -> In e entries ->
  RuleEngine.lower e = [c_pipe; c_dot; c_caret] ->
  ignore_has rs [c_dot] = true.
Proof. exact root_entry_matched. Qed.
Print Assumptions C08_root_entry_matched.

(** [ignore_has] is urlfilter's DNSEngine.Match (the model of C01 / C02) on
    the rules the entries stand for. *)
Theorem C08_engine_is_urlfilter : forall rs host,
  ignore_has rs host = snd (match_request (map to_rule rs) (req_of host)).
Proof. exact ignore_has_is_match_request. Qed.
Print Assumptions C08_engine_is_urlfilter.

(** Never stored, over the modelled engine, for ALL histories: the name of
    every stored record escapes (is not a configured plain name, not under a
    configured [||d^] / [*.d], not the root under [|.^]) every ignore list of
    the modelled forms that was in force when its query was processed. *)
Theorem C08_configured_name_never_stored : forall evs e,
  In e (all_log (run_log evs)) ->
  exists ev q, In (LQuery ev q) evs /\ e = log_entry ev q /\
    fst (fst e) = LogPolicy.normalize (q_name q) /\
    forall entries, qlog_engine_is ev entries -> escapes entries (fst (fst e)).
Proof. exact configured_name_never_stored. Qed.
Print Assumptions C08_configured_name_never_stored.

Theorem C08_configured_name_never_counted : forall evs s,
  In s (all_stats (run_log evs)) ->
  exists ev q, In (LQuery ev q) evs /\ s = stat_entry ev q /\
    fst (fst s) = LogPolicy.normalize (q_name q) /\
    forall entries, stats_engine_is ev entries -> escapes entries (fst (fst s)).
Proof. exact configured_name_never_counted. Qed.
Print Assumptions C08_configured_name_never_counted.

Theorem C08_configured_plain_name_not_recorded : forall ev q st entries x,
  qlog_engine_is ev entries -> In x entries ->
  classify (RuleEngine.lower x) = ERule (IHost (RuleEngine.lower x)) ->
  LogPolicy.normalize (q_name q) = RuleEngine.lower x ->
  st_mem (process ev q st) = st_mem st.
Proof. exact configured_plain_name_not_recorded. Qed.
Print Assumptions C08_configured_plain_name_not_recorded.

(** Premises satisfiable: a list with capitals of all four forms plus a
    dropped too-wide entry; "MIXED.case.TEST." is ignored under the entry
    "Mixed.Case.Test". *)
Example C08_engine_premises_satisfiable :
  exists rs, engine_of ex_entries = Some rs /\ length rs = 4%nat /\
    classify (RuleEngine.lower (nth 0 ex_entries [])) = ERule (IHost ex_lower_name) /\
    ignore_has rs (LogPolicy.normalize [77;73;88;69;68;46;99;97;115;101;46;84;69;83;84;46]) = true /\
    ignore_has rs [115;117;98;46;97;100;115;46;117;112;112;101;114] = true /\
    ignore_has rs [102;111;111;46;99;97;112;46;119;105;108;100] = true /\
    ignore_has rs [46] = true /\
    ignore_has rs [99;97;112;46;119;105;108;100] = false /\
    ignore_has rs [120] = false /\
    ignore_has rs [111;107;46;101;120;97;109;112;108;101] = false.
Proof. exact ex_entries_modelled. Qed.

(** The slip of not lower-casing the configured list lets the name through. *)
Example C08_unlowered_entry_matches_nothing :
  ignore_has [IHost (nth 0 ex_entries [])] ex_lower_name = false /\
  ignore_has [IHost (RuleEngine.lower (nth 0 ex_entries []))] ex_lower_name = true.
Proof. exact unlowered_entry_matches_nothing. Qed.

(** C08.  Only statements; proofs in Proofs/LogPolicy.v. *)
From AGH Require Import Base.Run Model.ClientIndex Model.LogPolicy Proofs.LogPolicy.
Local Open Scope N_scope.

Theorem C08_ignored_name_not_logged : forall ev q st,
  e_qign ev (normalize (q_name q)) = true -> st_mem (process ev q st) = st_mem st.
Proof. exact ignored_name_not_logged. Qed.
Print Assumptions C08_ignored_name_not_logged.
